(** Correspondence judge for C14 (evaluated by [vm_compute] on cases written by the harness). *)
From TT Require Export Guest.Program.
From TT Require Import Values.ValuesProofs Tunnel.TypesProofs Guest.ProgramProofs.

(** What the harness observes for one value-carrying op ([ONewSpan] -> [from_values] on the span
    attributes, [ORecord] -> [from_record], [OEvent] -> [from_event]): the result of the real
    constructor at [TracedValues<String>] (the tunnel's sender) and at [TracedValues<&'static str>]
    (the capture layer). *)
Record cap_obs := mk_cap { co_owned : tvalues; co_static : tvalues }.

Definition cap_obs_eqb (a b : cap_obs) : bool :=
  tvalues_eqb (co_owned a) (co_owned b) && tvalues_eqb (co_static a) (co_static b).

Lemma cap_obs_eqb_spec a b : cap_obs_eqb a b = true <-> a = b.
Proof.
  destruct a as [a1 a2], b as [b1 b2]. unfold cap_obs_eqb. cbn [co_owned co_static].
  rewrite andb_true_iff, !tvalues_eqb_spec. split.
  - intros [-> ->]. reflexivity.
  - intros H. injection H as -> ->. auto.
Qed.

Fixpoint all2 {A B} (f : A -> B -> bool) (x : list A) (y : list B) : bool :=
  match x, y with
  | [], [] => true
  | a :: x', b :: y' => f a b && all2 f x' y'
  | _, _ => false
  end.

Lemma all2_spec {A B} (f : A -> B -> bool) x y :
  all2 f x y = true <-> Forall2 (fun a b => f a b = true) x y.
Proof.
  revert y. induction x as [|a x IH]; intros [|b y]; cbn [all2]; split; intros H;
    try discriminate; try constructor; try (inversion H; fail).
  - apply andb_true_iff in H as [H1 H2]. exact H1.
  - apply andb_true_iff in H as [H1 H2]. apply IH. exact H2.
  - inversion H as [|? ? ? ? H1 H2]; subst. apply andb_true_iff. split; [exact H1 | apply IH; exact H2].
Qed.

(** The value-carrying ops of a program, in order: the field list the values refer to and the
    value set.  [spans] = call-site index of every span created so far. *)
Fixpoint value_ops (sites : list cs_data) (spans : list nat) (ops : list (nat * op))
  : list (list string * valset) :=
  match ops with
  | [] => []
  | (_, ONewSpan cs _ vals) :: r => (site_fields sites cs, vals) :: value_ops sites (spans ++ [cs]) r
  | (_, ORecord k vals) :: r =>
      (match nth_error spans k with Some cs => site_fields sites cs | None => [] end, vals)
      :: value_ops sites spans r
  | (_, OEvent cs _ vals) :: r => (site_fields sites cs, vals) :: value_ops sites spans r
  | _ :: r => value_ops sites spans r
  end.

(** ** The property's executable statement, evaluated on an implementation output [out]:
    names distinct; names = the names of the provided non-Empty entries in order of first
    occurrence; the value stored under each name = the reference value ([spec_value]: exact kind
    and content) of the last provided entry with that name; every value within the range of its
    variant.  Nothing here refers to [insert], [conv] or [from_value_set]. *)
Fixpoint nodup_b (l : list string) : bool :=
  match l with
  | [] => true
  | a :: r => negb (existsb (String.eqb a) r) && nodup_b r
  end.

Definition capture_ok (names : list string) (vs : valset) (out : tvalues) : bool :=
  let h := provided_spec names vs in
  nodup_b (map fst out)
  && list_eqb String.eqb (map fst out) (first_occ [] (map fst h))
  && forallb (fun kv => option_eqb tvalue_eqb (last_val h (fst kv)) (Some (snd kv))) out
  && forallb (fun kv => wf_value (snd kv)) out.

Definition ok_one (nv : list string * valset) (o : cap_obs) : bool :=
  capture_ok (fst nv) (snd nv) (co_owned o) && capture_ok (fst nv) (snd nv) (co_static o).

Definition corr_one (nv : list string * valset) (o : cap_obs) : bool :=
  let m := from_value_set (fst nv) (snd nv) in cap_obs_eqb (mk_cap m m) o.

(** [strict]: the program comes from the harness's generator, which promises well-formed programs;
    an ill-formed one is then a defect of the machinery and reported as [Mismatch], not skipped. *)
Definition judge_capture (strict : bool) (p : prog) (impl : list cap_obs) : verdict :=
  if strict && negb (wf_prog_b p) then Mismatch
  else
    let vops := value_ops (p_sites p) [] (p_ops p) in
    judge_of (wf_prog_b p) (all2 corr_one vops impl) (all2 ok_one vops impl).

(** ** The judge is neither blind nor over-strict *)
Lemma nodup_b_spec l : nodup_b l = true <-> NoDup l.
Proof.
  induction l as [|a l IH]; cbn [nodup_b]; split; intros H; try constructor; try reflexivity.
  - apply andb_true_iff in H as [H1 H2]. apply negb_true_iff in H1.
    intros Hin. apply existsb_seqb in Hin. congruence.
  - apply andb_true_iff in H as [H1 H2]. apply IH. exact H2.
  - inversion H as [|? ? Hn Hnd]; subst. apply andb_true_iff. split; [|apply IH; exact Hnd].
    apply negb_true_iff. destruct (existsb (String.eqb a) l) eqn:E; [|reflexivity].
    apply existsb_seqb in E. contradiction.
Qed.

Lemma flat_map_entry_of_values h out :
  forallb (fun kv => option_eqb tvalue_eqb (last_val h (fst kv)) (Some (snd kv))) out = true ->
  flat_map (entry h) (map fst out) = out.
Proof.
  induction out as [|[k v] out IH]; cbn [forallb map flat_map fst snd]; intros H; [reflexivity|].
  apply andb_true_iff in H as [H1 H2]. rewrite (IH H2).
  apply (option_eqb_spec tvalue_eqb tvalue_eqb_spec) in H1. unfold entry. rewrite H1. reflexivity.
Qed.

(** an output accepted by [capture_ok] is the specification's map, exactly *)
Theorem capture_ok_sound names vs out :
  capture_ok names vs out = true -> out = denote (provided_spec names vs).
Proof.
  unfold capture_ok. intros H. repeat (apply andb_true_iff in H as [H ?]).
  match goal with Hk : list_eqb String.eqb _ _ = true |- _ =>
    apply (list_eqb_spec String.eqb seqb_eq) in Hk; rename Hk into Hkeys end.
  rewrite denote_unfold. unfold keys_of. rewrite <- Hkeys.
  symmetry. apply flat_map_entry_of_values. assumption.
Qed.

(** the specification's map is accepted whenever the recorded values exist as Rust values *)
Theorem capture_ok_complete names vs :
  forallb (fun e => match snd e with Some p => wf_prim p | None => true end) vs = true ->
  capture_ok names vs (denote (provided_spec names vs)) = true.
Proof.
  intros Hwf. unfold capture_ok. repeat (apply andb_true_iff; split).
  - apply nodup_b_spec, denote_nodup.
  - apply (list_eqb_spec String.eqb seqb_eq). apply denote_fst.
  - apply forallb_forall. intros [k v] Hin. cbn [fst snd].
    apply (option_eqb_spec tvalue_eqb tvalue_eqb_spec).
    assert (Hk : In k (map fst (denote (provided_spec names vs)))) by (apply in_map_iff; exists (k, v); auto).
    pose proof (get_denote (provided_spec names vs) k) as Hg. rewrite <- Hg.
    clear Hg. pose proof (denote_nodup (provided_spec names vs)) as Hnd.
    revert Hnd Hin. generalize (denote (provided_spec names vs)) as m. clear.
    induction m as [|[a w] m IH]; intros Hnd Hin; [destruct Hin|].
    cbn [get]. cbn [map fst] in Hnd. inversion Hnd as [|? ? Hna Hnd']; subst.
    destruct Hin as [E|Hin].
    + injection E as -> ->. rewrite String.eqb_refl. reflexivity.
    + destruct (String.eqb a k) eqn:E.
      * apply seqb_eq in E. subst. exfalso. apply Hna. apply in_map_iff. exists (k, v). auto.
      * apply IH; assumption.
  - apply forallb_forall. intros [k v] Hin. cbn [snd].
    rewrite <- provided_spec_eq, <- from_value_set_denote in Hin.
    apply (from_value_set_wf names vs) with (k := k); [|exact Hin].
    intros i p Hp. rewrite forallb_forall in Hwf. exact (Hwf (i, Some p) Hp).
Qed.

Lemma set_handles_sites l k h : map sp_site (set_handles l k h) = map sp_site l.
Proof.
  revert k. induction l as [|s l IH]; intros [|k]; cbn [set_handles map]; try reflexivity.
  f_equal. apply IH.
Qed.

(** the model passes its own judge on every well-formed program *)
Lemma value_ops_wf sites ops : forall spans st,
  map sp_site (ss_spans st) = spans ->
  (exists st', wf_steps false sites st ops = Some st') ->
  Forall (fun nv => forallb (fun e => match snd e with Some p => wf_prim p | None => true end)
                            (snd nv) = true) (value_ops sites spans ops).
Proof.
  induction ops as [|[tid o] ops IH]; intros spans st Hs [st' Hrun]; [constructor|].
  cbn [wf_steps] in Hrun. destruct (wf_step false sites st (tid, o)) as [st1|] eqn:E; [|discriminate].
  assert (Hvs : forall names v, wf_valset names v = true ->
            forallb (fun e => match snd e with Some p => wf_prim p | None => true end) v = true).
  { intros names v H. unfold wf_valset in H. apply andb_true_iff in H as [_ H].
    rewrite forallb_forall in *. intros e He. specialize (H e He).
    apply andb_true_iff in H as [_ H]. exact H. }
  destruct o as [cs p v|k v|k|k|k|k|k t|cs p v]; cbn [value_ops wf_step fst snd] in *.
  - destruct (wf_site_use sites KSpan cs v && wf_parent st p) eqn:G; [|discriminate].
    injection E as <-. apply andb_true_iff in G as [G _]. unfold wf_site_use in G.
    destruct (nth_error sites cs) as [d|]; [|discriminate]. apply andb_true_iff in G as [_ G].
    constructor; [cbn [snd]; exact (Hvs _ _ G)|].
    apply (IH _ (mk_sym (ss_spans st ++ [mk_sspan cs 1]) (ss_stacks st))); [|eauto].
    cbn [ss_spans]. rewrite map_app, Hs. reflexivity.
  - destruct (span_site st k) as [cs|]; [|discriminate].
    destruct (live st k && wf_valset (site_fields sites cs) v) eqn:G; [|discriminate].
    injection E as <-. apply andb_true_iff in G as [_ G].
    constructor; [cbn [snd]; exact (Hvs _ _ G)|]. apply (IH _ st Hs). eauto.
  - destruct (live st k); [|discriminate]. injection E as <-.
    eapply IH; [|exists st'; exact Hrun]; exact Hs.
  - destruct (live st k && _); [|discriminate]. injection E as <-.
    eapply IH; [|exists st'; exact Hrun]; exact Hs.
  - destruct (live st k); [|discriminate]. injection E as <-.
    eapply IH; [|exists st'; exact Hrun]. cbn [ss_spans]. rewrite set_handles_sites. exact Hs.
  - destruct (live st k && _); [|discriminate]. injection E as <-.
    eapply IH; [|exists st'; exact Hrun]. cbn [ss_spans]. rewrite set_handles_sites. exact Hs.
  - destruct (live st k && _); [|discriminate]. injection E as <-. apply (IH _ _ Hs). eauto.
  - destruct (wf_site_use sites KEvent cs v && wf_parent st p) eqn:G; [|discriminate].
    injection E as <-. apply andb_true_iff in G as [G _]. unfold wf_site_use in G.
    destruct (nth_error sites cs) as [d|]; [|discriminate]. apply andb_true_iff in G as [_ G].
    constructor; [cbn [snd]; exact (Hvs _ _ G)|]. apply (IH _ st Hs). eauto.
Qed.

Definition model_caps (p : prog) : list cap_obs :=
  map (fun nv => let m := from_value_set (fst nv) (snd nv) in mk_cap m m)
      (value_ops (p_sites p) [] (p_ops p)).

Theorem judge_capture_model strict p :
  wf_prog p -> judge_capture strict p (model_caps p) = Agree.
Proof.
  intros Hwf. unfold judge_capture. rewrite Hwf. cbn [negb]. rewrite andb_false_r.
  unfold judge_of. cbn [negb].
  assert (Hall : Forall (fun nv => forallb (fun e => match snd e with Some p => wf_prim p | None => true end)
                                        (snd nv) = true) (value_ops (p_sites p) [] (p_ops p))).
  { unfold wf_prog, wf_prog_b, wf_prog_gen_b, sym_run in Hwf. apply andb_true_iff in Hwf as [_ Hwf].
    destruct (wf_steps false (p_sites p) sym_init (p_ops p)) as [st'|] eqn:E; [|discriminate].
    apply (value_ops_wf _ _ [] sym_init); [reflexivity | eauto]. }
  unfold model_caps. induction Hall as [|nv l Hnv Hl IH]; [reflexivity|].
  cbn [map all2]. unfold ok_one at 1, corr_one at 1. cbn [co_owned co_static].
  rewrite (proj2 (cap_obs_eqb_spec _ _) eq_refl).
  rewrite from_value_set_denote_spec, (capture_ok_complete _ _ Hnv). cbn [andb negb].
  exact IH.
Qed.

(** an accepted run is, op by op, the model's output: [Mismatch] without [PropFail] cannot happen
    for this judge, and [Agree] pins the implementation's output completely *)
Theorem judge_capture_agree strict p impl :
  judge_capture strict p impl = Agree -> impl = model_caps p.
Proof.
  unfold judge_capture. destruct (strict && negb (wf_prog_b p)); [discriminate|].
  unfold judge_of. destruct (wf_prog_b p); cbn [negb]; [|discriminate].
  destruct (all2 ok_one _ impl) eqn:O; cbn [negb]; [|discriminate].
  destruct (all2 corr_one _ impl) eqn:C; cbn [negb]; [|discriminate]. intros _.
  unfold model_caps. apply all2_spec in C. clear O.
  induction C as [|nv o l impl' H1 H2 IH]; [reflexivity|]. cbn [map].
  unfold corr_one in H1. apply cap_obs_eqb_spec in H1. rewrite <- H1, IH. reflexivity.
Qed.

(** Detection examples: the outputs a broken visitor would give are [PropFail]. *)
Local Open Scope string_scope.
Definition jt_site : cs_data := mk_cs KSpan "s" "t" LInfo None None None ["a"; "b"; "a"].
Definition jt_prog (vs : valset) : prog := mk_prog [jt_site] [(0%nat, ONewSpan 0 PKCtx vs)].
Definition jt_same (m : tvalues) : list cap_obs := [mk_cap m m].

Example judge_capture_detects :
  (* correct: second "a" overwrites in place, Empty skipped *)
  judge_capture true (jt_prog [(1, Some (PBool true)); (0, Some (PInt W8 (-1))); (2, Some (PUInt W16 7)); (1, None)]%nat)
                (jt_same [("b", VBool true); ("a", VUInt 7)]) = Agree
  (* duplicate pushed instead of replaced *)
  /\ judge_capture true (jt_prog [(0, Some (PInt W8 1)); (2, Some (PInt W8 2))]%nat)
                (jt_same [("a", VInt 1); ("a", VInt 2)]) = PropFail
  (* first value kept instead of last *)
  /\ judge_capture true (jt_prog [(0, Some (PInt W8 1)); (2, Some (PInt W8 2))]%nat)
                (jt_same [("a", VInt 1)]) = PropFail
  (* i8 stored as unsigned *)
  /\ judge_capture true (jt_prog [(0, Some (PInt W8 1))]%nat) (jt_same [("a", VUInt 1)]) = PropFail
  (* record_bool override deleted: falls back to record_debug *)
  /\ judge_capture true (jt_prog [(1, Some (PBool true))]%nat) (jt_same [("b", VObj "true")]) = PropFail
  (* error chain truncated *)
  /\ judge_capture true (jt_prog [(1, Some (PError "e" ["f"; "g"]))]%nat) (jt_same [("b", VErr "e" ["f"])]) = PropFail
  (* Empty recorded as something *)
  /\ judge_capture true (jt_prog [(1, None)]%nat) (jt_same [("b", VObj "Empty")]) = PropFail
  (* declaration order imposed on a shuffled array *)
  /\ judge_capture true (jt_prog [(1, Some (PBool true)); (0, Some (PBool false))]%nat)
                (jt_same [("a", VBool false); ("b", VBool true)]) = PropFail
  (* the two instantiations disagree *)
  /\ judge_capture true (jt_prog [(1, Some (PBool true))]%nat) [mk_cap [("b", VBool true)] []] = PropFail
  (* an observation is missing *)
  /\ judge_capture true (jt_prog [(1, Some (PBool true))]%nat) [] = PropFail
  (* ill-formed program from the generator / from a hand-written case *)
  /\ judge_capture true (jt_prog [(3, None)]%nat) (jt_same []) = Mismatch
  /\ judge_capture false (jt_prog [(3, None)]%nat) (jt_same []) = OutOfScope.
Proof. vm_compute. repeat split. Qed.
