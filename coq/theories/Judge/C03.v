From TT Require Export Judge.RecvOk.
(** [attached]: result of the direct check on a real Registry + CaptureLayer host that events
    emitted inside a span entered after the restart are attached to it (true when not applicable) *)
Definition judge_c03 (steps : list hstep) (impl : list iobs) (attached : bool) : verdict :=
  judge_of (hist_scope_b hist_init steps && no_drop steps && stream_accepted steps)
           (corr_history steps impl)
           (ok_c03 snap_empty steps impl && ok_abstract ah_init steps impl && attached).
