(** The judges of C11 ([Judge/C11.v]) are consequences of the C11 theorems.

    Every judge is [judge_of hyp corr ok]: [corr] compares the IMPLEMENTATION's outputs with the
    model's, [ok] is the property's executable statement on the implementation's own outputs.
    For each of the eight judges this file gives

    - the two components by name ([*_corr], [*_ok]; [judge_*_eq] holds by [reflexivity], so the
      statements below are about exactly what the judge evaluates);
    - [*_ok_of_corr]: for ANY implementation outputs for which [corr] is true, [ok] is true, so
      that [PropFail] without [Mismatch] is impossible.  Where [corr] does not mention an input of
      [ok], that input is tied to the others by an explicit hypothesis:
        judge_enc_event        [floats_ok] (trusted float text <-> bits, judged by [judge_trusted])
                               and [reenc] (hypothesis: it is the model encoding of [redec]);
        judge_nonfinite_value  nothing: [corr] pins everything down;
        judge_enc_spans        [impl_len] (hypothesis: it is the number of entries of [m]);
        judge_real_spans       [reenc] (hypothesis: up to member order it is the model encoding
                               of what the model reads from [t]);
        judge_enc_metadata     [reenc] (hypothesis: up to member order it is the model encoding
                               of the listing [redec]);
        judge_dec_event/spans/metadata
                               [benign] and [expect], the generator's classification of its own
                               perturbation (hypothesis: for a benign document the model accepts
                               it with the value [expect], for maps up to the order of entries);
                               the hypothesis is then DERIVED from the tolerance theorems for
                               the perturbation classes of the generator ([*_model_benign]);
    - [judge_*_model]: on the model's own outputs the verdict is [Agree] when the judge's
      hypothesis holds and [OutOfScope] otherwise.

    Ingredients: the round trips, re-encoding identities, conformance and tolerance theorems of
    [Wire/CodecProofs.v] (= [Props/C11.v]); completeness of [json_perm_eqb]
    ([json_perm_eqb_Permutation]: equal up to member order means the members are a permutation
    and the keys are distinct); [pm_sort] does not depend on the order of the entries of a map
    with distinct ids ([pm_sort_perm_eq]). *)
From TT Require Import Wire.CodecProofs Tunnel.TypesProofs.
From TT Require Export Judge.C11.
From Coq Require Import Permutation.
Open Scope N_scope.

(** * Verdicts *)
Lemma judge_of_true corr ok :
  corr = true -> ok = true -> forall hyp, judge_of hyp corr ok = if hyp then Agree else OutOfScope.
Proof. intros -> -> []; reflexivity. Qed.

Lemma judge_of_out corr ok : judge_of false corr ok = OutOfScope.
Proof. reflexivity. Qed.

(** [PropFail] needs a false [ok] *)
Lemma judge_of_propfail hyp corr ok : judge_of hyp corr ok = PropFail -> ok = false.
Proof. unfold judge_of. destruct hyp, ok, corr; cbn [negb]; intros H; try discriminate H; reflexivity. Qed.

(** * Reflexivity of the boolean equalities *)
Lemma option_eqb_refl {A} (eqb : A -> A -> bool) (o : option A) :
  (forall a, eqb a a = true) -> option_eqb eqb o o = true.
Proof. intros H. destruct o; cbn [option_eqb]; [apply H | reflexivity]. Qed.

Lemma event_eqb_refl e : event_eqb e e = true.
Proof. apply event_eqb_spec. reflexivity. Qed.
Lemma tvalue_eqb_refl v : tvalue_eqb v v = true.
Proof. apply tvalue_eqb_spec. reflexivity. Qed.
Lemma span_data_eqb_refl s : span_data_eqb s s = true.
Proof. apply span_data_eqb_spec. reflexivity. Qed.
Lemma cs_data_eqb_refl d : cs_data_eqb d d = true.
Proof. apply cs_data_eqb_spec. reflexivity. Qed.
Lemma keys_eqb_refl k : keys_eqb k k = true.
Proof. apply keys_eqb_spec. reflexivity. Qed.
Lemma pmap_eqb_refl {A} (eqb : A -> A -> bool) (m : pmap A) :
  (forall a b, eqb a b = true <-> a = b) -> pmap_eqb eqb m m = true.
Proof. intros H. apply (pmap_eqb_spec eqb H). reflexivity. Qed.

(** * Objects equal up to member order *)
Lemma find_field_one_In {A} k (a : A) ms : find_field k ms = FOne a -> In (k, a) ms.
Proof.
  induction ms as [|[k' a'] ms IH]; cbn [find_field In]; [discriminate|].
  destruct (String.eqb k' k) eqn:E.
  - apply String.eqb_eq in E. subst k'. destruct (find_field k ms); try discriminate.
    intros [= ->]. left. reflexivity.
  - intros H. right. exact (IH H).
Qed.

Lemma find_field_not_absent_in {A} k (ms : list (string * A)) :
  find_field k ms <> FAbsent -> In k (map fst ms).
Proof.
  intros H. destruct (in_dec string_dec k (map fst ms)) as [i|n]; [exact i|].
  apply find_field_absent in n. contradiction.
Qed.

(** every key is found exactly once: the keys are distinct *)
Lemma find_field_all_one_nodup {A} (ms : list (string * A)) :
  (forall k, In k (map fst ms) -> exists a, find_field k ms = FOne a) -> NoDup (map fst ms).
Proof.
  induction ms as [|[k a] ms IH]; cbn [map fst]; intros H; [constructor|].
  assert (Hk : ~ In k (map fst ms)).
  { destruct (H k (or_introl eq_refl)) as [b Hb]. cbn [find_field] in Hb.
    rewrite String.eqb_refl in Hb. apply find_field_absent.
    destruct (find_field k ms); [reflexivity | discriminate Hb | discriminate Hb]. }
  constructor; [exact Hk|]. apply IH. intros k' Hk'.
  destruct (H k' (or_intror Hk')) as [b Hb]. exists b.
  rewrite find_field_cons_ne in Hb; [exact Hb|]. intros ->. exact (Hk Hk').
Qed.

(** completeness of [json_perm_eqb] on objects *)
Lemma json_perm_eqb_Permutation x y :
  json_perm_eqb (JObj x) (JObj y) = true ->
  NoDup (map fst x) /\ NoDup (map fst y) /\ Permutation x y.
Proof.
  cbn [json_perm_eqb]. intros H. apply andb_true_iff in H as [H H3].
  apply andb_true_iff in H as [HL H2]. apply Nat.eqb_eq in HL.
  rewrite forallb_forall in H2, H3.
  assert (X : forall k v, In (k, v) x -> find_field k y = FOne v).
  { intros k v Hin. specialize (H2 _ Hin). cbn [fst snd] in H2.
    destruct (find_field k y) as [|j|]; try discriminate H2.
    apply json_eqb_spec in H2. subst j. reflexivity. }
  assert (Y : forall k, In k (map fst y) -> exists a, find_field k x = FOne a).
  { intros k Hin. apply in_map_iff in Hin as ([k' b] & <- & Hin). specialize (H3 _ Hin).
    cbn [fst] in *. destruct (find_field k' x) as [|a|]; try discriminate H3. exists a. reflexivity. }
  assert (Nx : NoDup (map fst x)).
  { apply find_field_all_one_nodup. intros k Hin. apply Y.
    apply in_map_iff in Hin as ([k' v] & <- & Hin). cbn [fst].
    apply find_field_not_absent_in. rewrite (X _ _ Hin). discriminate. }
  assert (Ny : NoDup (map fst y)).
  { apply find_field_all_one_nodup. intros k Hin. destruct (Y k Hin) as [a Ha].
    exists a. apply X. apply find_field_one_In. exact Ha. }
  split; [exact Nx|]. split; [exact Ny|].
  apply NoDup_Permutation_bis.
  - exact (NoDup_map_inv _ _ Nx).
  - rewrite HL. apply le_n.
  - intros [k v] Hin. apply find_field_one_In. apply X. exact Hin.
Qed.

Lemma json_perm_eqb_obj_inv x b : json_perm_eqb (JObj x) b = true -> exists y, b = JObj y.
Proof.
  destruct b as [| | | | | |y]; cbn [json_perm_eqb json_eqb]; try discriminate.
  intros _. exists y. reflexivity.
Qed.

(** * Persisted maps: [pm_sort] does not depend on the order of the entries *)
Lemma pm_sorted_insert_comm {A} k1 (a1 : A) k2 a2 m :
  k1 <> k2 ->
  pm_sorted_insert k1 a1 (pm_sorted_insert k2 a2 m)
  = pm_sorted_insert k2 a2 (pm_sorted_insert k1 a1 m).
Proof.
  intros Hne. induction m as [|[k a] m IH].
  - cbn [pm_sorted_insert]. destruct (N.leb_spec k1 k2), (N.leb_spec k2 k1); try reflexivity; lia.
  - cbn [pm_sorted_insert].
    destruct (N.leb_spec k2 k), (N.leb_spec k1 k); cbn [pm_sorted_insert];
      repeat match goal with
             | |- context [N.leb ?a ?b] => destruct (N.leb_spec a b); cbn [pm_sorted_insert]
             end;
      try reflexivity; try lia.
    rewrite IH. reflexivity.
Qed.

Lemma pm_sort_perm_eq {A} (m m' : pmap A) :
  Permutation m m' -> NoDup (map fst m) -> pm_sort m = pm_sort m'.
Proof.
  unfold pm_sort.
  induction 1 as [| [k a] l l' P IH | [k1 a1] [k2 a2] l | l l' l'' P1 IH1 P2 IH2];
    intros Hnd; cbn [fold_right fst snd].
  - reflexivity.
  - cbn [map fst] in Hnd. inversion Hnd as [|? ? _ Hnd']; subst. rewrite (IH Hnd'). reflexivity.
  - cbn [map fst] in Hnd. inversion Hnd as [|? ? Hni _]; subst.
    apply pm_sorted_insert_comm. intros ->. apply Hni. left. reflexivity.
  - rewrite (IH1 Hnd). apply IH2.
    eapply Permutation_NoDup; [apply Permutation_map, P1 | exact Hnd].
Qed.

Section EncPmap.
  Context {A : Type} (e : A -> json).

  Lemma enc_pmap_members_perm (m m' : pmap A) :
    Permutation m m' -> Permutation (members (enc_pmap e m)) (members (enc_pmap e m')).
  Proof. intros P. unfold enc_pmap. cbn [members]. apply Permutation_map. exact P. Qed.

  Lemma enc_pmap_obj (m : pmap A) : enc_pmap e m = JObj (members (enc_pmap e m)).
  Proof. reflexivity. Qed.

  (** what [json_perm_eqb (enc_pmap e m) t = true] says about [t] *)
  Lemma perm_eqb_enc_pmap_inv (m : pmap A) t :
    json_perm_eqb (enc_pmap e m) t = true ->
    exists ts, t = JObj ts /\ Permutation (members (enc_pmap e m)) ts /\ NoDup (map fst ts).
  Proof.
    intros H. rewrite enc_pmap_obj in H. destruct (json_perm_eqb_obj_inv _ _ H) as [ts ->].
    apply json_perm_eqb_Permutation in H as (_ & N & P). exists ts. auto.
  Qed.

  Lemma perm_eqb_enc_pmap (m : pmap A) ts :
    NoDup (map fst m) -> Permutation (members (enc_pmap e m)) ts ->
    json_perm_eqb (enc_pmap e m) (JObj ts) = true.
  Proof.
    intros N P. rewrite enc_pmap_obj. apply json_perm_eqb_perm; [exact P|].
    apply enc_pmap_keys_nodup. exact N.
  Qed.

  Lemma perm_eqb_enc_pmap_rev (m : pmap A) ts :
    NoDup (map fst m) -> Permutation (members (enc_pmap e m)) ts ->
    json_perm_eqb (JObj ts) (enc_pmap e m) = true.
  Proof.
    intros N P. rewrite enc_pmap_obj. apply json_perm_eqb_perm; [symmetry; exact P|].
    eapply Permutation_NoDup; [apply Permutation_map; exact P|].
    apply enc_pmap_keys_nodup. exact N.
  Qed.
End EncPmap.

Lemma wf_spans_nodup m : wf_spans m = true -> NoDup (map fst m).
Proof. intros H. apply wf_spans_spec in H. exact (proj1 H). Qed.
Lemma wf_metadata_nodup m : wf_metadata m = true -> NoDup (map fst m).
Proof. intros H. apply wf_metadata_spec in H. exact (proj1 H). Qed.

(** number of entries of a decoded map, [0] when the document was rejected (what the harness
    prints for [len()]) *)
Definition opt_len {A} (o : option (pmap A)) : N :=
  match o with Some m => N.of_nat (List.length m) | None => 0 end.

(** * 1. [judge_enc_event] *)
Definition enc_event_corr (e : event) (impl : json) (redec : option event) : bool :=
  json_eqb (enc_event e) impl && option_eqb event_eqb (dec_event impl) redec.

Definition enc_event_ok (e : event) (impl : json) (redec : option event) (reenc : option json)
           (floats_ok : bool) : bool :=
  floats_ok
  && option_eqb event_eqb redec (Some e)
  && option_eqb json_eqb reenc (Some impl)
  && keys_eqb (event_value_keys impl) (option_map (map fst) (event_values e))
  && conforms_event impl.

Lemma judge_enc_event_eq e impl redec reenc floats_ok :
  judge_enc_event e impl redec reenc floats_ok
  = judge_of (wf_event e) (enc_event_corr e impl redec) (enc_event_ok e impl redec reenc floats_ok).
Proof. reflexivity. Qed.

(** [corr] pins [impl] and [redec]; not [floats_ok] (trusted, judged separately) and not [reenc]:
    the hypothesis [Hreenc] is the correspondence for it (model encoding of the implementation's
    re-decoded value = implementation's re-encoding) *)
Theorem enc_event_ok_of_corr e impl redec reenc floats_ok :
  wf_event e = true ->
  enc_event_corr e impl redec = true ->
  floats_ok = true ->
  option_eqb json_eqb (option_map enc_event redec) reenc = true ->
  enc_event_ok e impl redec reenc floats_ok = true.
Proof.
  intros Hwf Hc Hf Hreenc. unfold enc_event_corr in Hc. apply andb_true_iff in Hc as [H1 H2].
  apply json_eqb_spec in H1. subst impl. rewrite (dec_enc_event e Hwf) in H2.
  apply (option_eqb_spec event_eqb event_eqb_spec) in H2. subst redec.
  cbn [option_map] in Hreenc. apply (option_eqb_spec json_eqb json_eqb_spec) in Hreenc.
  subst reenc floats_ok. unfold enc_event_ok.
  rewrite (event_value_keys_enc e), (conforms_event_enc e Hwf), keys_eqb_refl.
  cbn [option_eqb]. rewrite event_eqb_refl, json_eqb_refl. reflexivity.
Qed.

Corollary judge_enc_event_of_corr e impl redec reenc :
  wf_event e = true ->
  enc_event_corr e impl redec = true ->
  option_eqb json_eqb (option_map enc_event redec) reenc = true ->
  judge_enc_event e impl redec reenc true = Agree.
Proof.
  intros Hwf Hc Hr. rewrite judge_enc_event_eq, Hwf.
  apply (judge_of_true _ _ Hc (enc_event_ok_of_corr e impl redec reenc true Hwf Hc eq_refl Hr) true).
Qed.

Lemma enc_event_corr_model e : enc_event_corr e (enc_event e) (dec_event (enc_event e)) = true.
Proof.
  unfold enc_event_corr. rewrite json_eqb_refl. cbn [andb].
  apply option_eqb_refl. exact event_eqb_refl.
Qed.

Theorem judge_enc_event_model e :
  judge_enc_event e (enc_event e) (dec_event (enc_event e))
                  (option_map enc_event (dec_event (enc_event e))) true
  = if wf_event e then Agree else OutOfScope.
Proof.
  destruct (wf_event e) eqn:Hwf.
  - apply (judge_enc_event_of_corr e _ _ _ Hwf (enc_event_corr_model e)).
    apply option_eqb_refl. exact json_eqb_refl.
  - rewrite judge_enc_event_eq, Hwf. reflexivity.
Qed.

(** * 2. [judge_nonfinite_value] *)
Definition nonfinite_hyp (bits : N) : bool := negb (f64_finite bits) && (bits <? 2 ^ 64).
Definition nonfinite_corr (bits : N) (impl : json) (impl_dec : option tvalue) : bool :=
  json_eqb (enc_value (VFloat bits)) impl && option_eqb tvalue_eqb (dec_value impl) impl_dec.
Definition nonfinite_ok (impl : json) (impl_dec : option tvalue) : bool :=
  json_eqb impl (JObj [("float"%string, JNull)]) && negb (is_some impl_dec).

Lemma judge_nonfinite_value_eq bits impl impl_dec :
  judge_nonfinite_value bits impl impl_dec
  = judge_of (nonfinite_hyp bits) (nonfinite_corr bits impl impl_dec) (nonfinite_ok impl impl_dec).
Proof. reflexivity. Qed.

(** [corr] pins both outputs: nothing else is needed (the range part of the hypothesis is not
    used: it only keeps the case inside what the harness can build) *)
Theorem nonfinite_ok_of_corr bits impl impl_dec :
  f64_finite bits = false ->
  nonfinite_corr bits impl impl_dec = true ->
  nonfinite_ok impl impl_dec = true.
Proof.
  intros Hnf Hc. unfold nonfinite_corr in Hc. apply andb_true_iff in Hc as [H1 H2].
  apply json_eqb_spec in H1. subst impl.
  destruct (enc_nonfinite_is_null bits Hnf) as [He Hd]. rewrite Hd in H2.
  apply (option_eqb_spec tvalue_eqb tvalue_eqb_spec) in H2. subst impl_dec.
  unfold nonfinite_ok. rewrite He, json_eqb_refl. reflexivity.
Qed.

Lemma nonfinite_hyp_not_finite bits : nonfinite_hyp bits = true -> f64_finite bits = false.
Proof.
  unfold nonfinite_hyp. intros H. apply andb_true_iff in H as [H _].
  apply negb_true_iff in H. exact H.
Qed.

Corollary judge_nonfinite_value_of_corr bits impl impl_dec :
  nonfinite_hyp bits = true ->
  nonfinite_corr bits impl impl_dec = true ->
  judge_nonfinite_value bits impl impl_dec = Agree.
Proof.
  intros Hh Hc. rewrite judge_nonfinite_value_eq, Hh.
  exact (judge_of_true _ _ Hc
           (nonfinite_ok_of_corr bits impl impl_dec (nonfinite_hyp_not_finite bits Hh) Hc) true).
Qed.

Theorem judge_nonfinite_value_model bits :
  judge_nonfinite_value bits (enc_value (VFloat bits)) (dec_value (enc_value (VFloat bits)))
  = if negb (f64_finite bits) && (bits <? 2 ^ 64) then Agree else OutOfScope.
Proof.
  fold (nonfinite_hyp bits). destruct (nonfinite_hyp bits) eqn:Hh.
  - apply (judge_nonfinite_value_of_corr bits _ _ Hh). unfold nonfinite_corr.
    rewrite json_eqb_refl. cbn [andb]. apply option_eqb_refl. exact tvalue_eqb_refl.
  - rewrite judge_nonfinite_value_eq, Hh. reflexivity.
Qed.

(** * 3. [judge_enc_spans] *)
Definition enc_spans_corr (m : pmap span_data) (doc : json) (impl : option json) : bool :=
  json_perm_eqb (enc_spans m) doc
  && match impl with Some t => json_perm_eqb (enc_spans m) t | None => false end.

Definition enc_spans_ok (m : pmap span_data) (doc : json) (impl : option json) (impl_len : N)
  : bool :=
  match impl with
  | Some t => json_perm_eqb t doc && conforms_spans t
              && option_eqb (pmap_eqb span_data_eqb) (option_map pm_sort (dec_spans t))
                            (Some (pm_sort m))
              && (impl_len =? N.of_nat (List.length m))
  | None => false
  end.

Lemma judge_enc_spans_eq m doc impl impl_len :
  judge_enc_spans m doc impl impl_len
  = judge_of (wf_spans m) (enc_spans_corr m doc impl) (enc_spans_ok m doc impl impl_len).
Proof. reflexivity. Qed.

(** [corr] pins [doc] and [impl] up to member order; it does not mention [impl_len] *)
Theorem enc_spans_ok_of_corr m doc impl impl_len :
  wf_spans m = true ->
  enc_spans_corr m doc impl = true ->
  impl_len = N.of_nat (List.length m) ->
  enc_spans_ok m doc impl impl_len = true.
Proof.
  intros Hwf Hc Hlen. unfold enc_spans_corr in Hc. apply andb_true_iff in Hc as [H1 H2].
  destruct impl as [t|]; [|discriminate H2]. unfold enc_spans in H1, H2.
  destruct (perm_eqb_enc_pmap_inv enc_span_data m doc H1) as (ds & -> & Pd & Nd).
  destruct (perm_eqb_enc_pmap_inv enc_span_data m t H2) as (ts & -> & Pt & Nt).
  fold (enc_spans m) in Pd, Pt.
  destruct (dec_enc_spans_perm m ts Hwf (Permutation_sym Pt)) as (m' & Pm & _ & _ & Hd).
  unfold enc_spans_ok. rewrite Hd. cbn [option_map option_eqb].
  rewrite <- (pm_sort_perm_eq m m' Pm (wf_spans_nodup m Hwf)).
  rewrite (pmap_eqb_refl span_data_eqb (pm_sort m) span_data_eqb_spec).
  rewrite (conforms_spans_perm m ts Hwf (Permutation_sym Pt)).
  rewrite (json_perm_eqb_perm ts ds (Permutation_trans (Permutation_sym Pt) Pd) Nt).
  subst impl_len. rewrite N.eqb_refl. reflexivity.
Qed.

Corollary judge_enc_spans_of_corr m doc impl impl_len :
  wf_spans m = true ->
  enc_spans_corr m doc impl = true ->
  impl_len = N.of_nat (List.length m) ->
  judge_enc_spans m doc impl impl_len = Agree.
Proof.
  intros Hwf Hc Hl. rewrite judge_enc_spans_eq, Hwf.
  exact (judge_of_true _ _ Hc (enc_spans_ok_of_corr m doc impl impl_len Hwf Hc Hl) true).
Qed.

(** the document may list the members in any order (the harness writes them in its own order,
    the implementation re-serialises in hash order) *)
Theorem judge_enc_spans_model_any_order m ms :
  wf_spans m = true -> Permutation ms (members (enc_spans m)) ->
  judge_enc_spans m (JObj ms) (option_map enc_spans (dec_spans (JObj ms)))
                  (opt_len (dec_spans (JObj ms))) = Agree.
Proof.
  intros Hwf P. destruct (dec_enc_spans_perm m ms Hwf P) as (m' & Pm & Hms & Hwf' & Hd).
  rewrite Hd. cbn [option_map opt_len]. apply (judge_enc_spans_of_corr _ _ _ _ Hwf).
  - unfold enc_spans_corr. rewrite <- Hms. unfold enc_spans.
    rewrite (perm_eqb_enc_pmap enc_span_data m ms (wf_spans_nodup m Hwf) (Permutation_sym P)).
    reflexivity.
  - rewrite (Permutation_length Pm). reflexivity.
Qed.

Theorem judge_enc_spans_model m :
  judge_enc_spans m (enc_spans m) (option_map enc_spans (dec_spans (enc_spans m)))
                  (opt_len (dec_spans (enc_spans m)))
  = if wf_spans m then Agree else OutOfScope.
Proof.
  destruct (wf_spans m) eqn:Hwf.
  - exact (judge_enc_spans_model_any_order m (members (enc_spans m)) Hwf (Permutation_refl _)).
  - rewrite judge_enc_spans_eq, Hwf. reflexivity.
Qed.

(** * 4. [judge_real_spans] *)
Definition real_spans_ok (t : json) (reenc : option json) : bool :=
  match reenc with Some t' => json_perm_eqb t t' && json_perm_eqb t' t | None => false end.

Lemma judge_real_spans_eq t reenc :
  judge_real_spans t reenc = judge_of true (conforms_spans t) (real_spans_ok t reenc).
Proof. reflexivity. Qed.

(** there is no model input here: [corr] is conformance of [t]; [reenc] is not mentioned by it.
    [real_spans_reenc_corr]: up to member order [reenc] is the model encoding of the map the model
    reads from [t] *)
Definition real_spans_reenc_corr (t : json) (reenc : option json) : bool :=
  match dec_spans t, reenc with
  | Some m, Some t' => json_perm_eqb (enc_spans m) t'
  | _, _ => false
  end.

Theorem real_spans_ok_of_corr t reenc :
  conforms_spans t = true ->
  real_spans_reenc_corr t reenc = true ->
  real_spans_ok t reenc = true.
Proof.
  unfold conforms_spans, real_spans_reenc_corr. intros Hc Hr.
  destruct (dec_spans t) as [m|] eqn:Hd; [|discriminate Hc].
  destruct reenc as [t'|]; [|discriminate Hr]. unfold enc_spans in Hc, Hr.
  destruct (perm_eqb_enc_pmap_inv enc_span_data m t Hc) as (ts & -> & Pt & Nt).
  destruct (perm_eqb_enc_pmap_inv enc_span_data m t' Hr) as (ts' & -> & Pt' & Nt').
  unfold real_spans_ok.
  rewrite (json_perm_eqb_perm ts ts' (Permutation_trans (Permutation_sym Pt) Pt') Nt).
  rewrite (json_perm_eqb_perm ts' ts (Permutation_trans (Permutation_sym Pt') Pt) Nt').
  reflexivity.
Qed.

Corollary judge_real_spans_of_corr t reenc :
  conforms_spans t = true ->
  real_spans_reenc_corr t reenc = true ->
  judge_real_spans t reenc = Agree.
Proof.
  intros Hc Hr. rewrite judge_real_spans_eq.
  exact (judge_of_true _ _ Hc (real_spans_ok_of_corr t reenc Hc Hr) true).
Qed.

(** every conforming tree, re-encoded by the model *)
Theorem judge_real_spans_model_conforming t :
  conforms_spans t = true ->
  judge_real_spans t (option_map enc_spans (dec_spans t)) = Agree.
Proof.
  intros Hc. apply (judge_real_spans_of_corr t _ Hc).
  unfold real_spans_reenc_corr. destruct (dec_spans t) as [m|] eqn:Hd.
  - cbn [option_map]. destruct (dec_spans_canonical t m Hd) as [Hwf _].
    unfold enc_spans. rewrite (enc_pmap_obj enc_span_data m) at 2.
    apply perm_eqb_enc_pmap; [exact (wf_spans_nodup m Hwf) | reflexivity].
  - unfold conforms_spans in Hc. rewrite Hd in Hc. discriminate Hc.
Qed.

(** what a model receiver persists: the encoding of a well-formed map, members in any order *)
Theorem judge_real_spans_model_any_order m ms :
  wf_spans m = true -> Permutation ms (members (enc_spans m)) ->
  judge_real_spans (JObj ms) (option_map enc_spans (dec_spans (JObj ms))) = Agree.
Proof.
  intros Hwf P. apply judge_real_spans_model_conforming. exact (conforms_spans_perm m ms Hwf P).
Qed.

Theorem judge_real_spans_model m :
  wf_spans m = true ->
  judge_real_spans (enc_spans m) (option_map enc_spans (dec_spans (enc_spans m))) = Agree.
Proof. intros Hwf. exact (judge_real_spans_model_any_order m _ Hwf (Permutation_refl _)). Qed.

(** * 5. [judge_enc_metadata] *)
Definition enc_metadata_corr (m : pmap cs_data) (impl : json) (redec : option (pmap cs_data))
  : bool :=
  json_perm_eqb (enc_metadata m) impl
  && option_eqb (pmap_eqb cs_data_eqb) (option_map pm_sort (dec_metadata impl)) redec.

Definition enc_metadata_ok (m : pmap cs_data) (impl : json) (redec : option (pmap cs_data))
           (reenc : option json) : bool :=
  option_eqb (pmap_eqb cs_data_eqb) redec (Some (pm_sort m))
  && match reenc with Some t => json_perm_eqb t impl && json_perm_eqb impl t | None => false end
  && conforms_metadata impl.

Lemma judge_enc_metadata_eq m impl redec reenc :
  judge_enc_metadata m impl redec reenc
  = judge_of (wf_metadata m) (enc_metadata_corr m impl redec) (enc_metadata_ok m impl redec reenc).
Proof. reflexivity. Qed.

(** [corr] pins [impl] (up to member order) and [redec]; not [reenc].
    [enc_metadata_reenc_corr]: up to member order [reenc] is the model encoding of the listing
    [redec] of the re-decoded value *)
Definition enc_metadata_reenc_corr (redec : option (pmap cs_data)) (reenc : option json) : bool :=
  match redec, reenc with
  | Some r, Some t => json_perm_eqb (enc_metadata r) t
  | None, None => true
  | _, _ => false
  end.

Theorem enc_metadata_ok_of_corr m impl redec reenc :
  wf_metadata m = true ->
  enc_metadata_corr m impl redec = true ->
  enc_metadata_reenc_corr redec reenc = true ->
  enc_metadata_ok m impl redec reenc = true.
Proof.
  intros Hwf Hc Hr. unfold enc_metadata_corr in Hc. apply andb_true_iff in Hc as [H1 H2].
  unfold enc_metadata in H1.
  destruct (perm_eqb_enc_pmap_inv enc_cs m impl H1) as (ts & -> & Pt & Nt).
  fold (enc_metadata m) in Pt.
  destruct (dec_enc_metadata_perm m ts Hwf (Permutation_sym Pt)) as (m' & Pm & _ & _ & Hd).
  rewrite Hd in H2. cbn [option_map] in H2.
  apply (option_eqb_spec _ (pmap_eqb_spec cs_data_eqb cs_data_eqb_spec)) in H2. subst redec.
  pose proof (wf_metadata_nodup m Hwf) as Nm.
  rewrite <- (pm_sort_perm_eq m m' Pm Nm) in Hr. unfold enc_metadata_reenc_corr in Hr.
  destruct reenc as [t|]; [|discriminate Hr]. unfold enc_metadata in Hr.
  destruct (perm_eqb_enc_pmap_inv enc_cs (pm_sort m) t Hr) as (rs & -> & Pr & Nr).
  assert (P : Permutation rs ts).
  { eapply Permutation_trans; [exact (Permutation_sym Pr)|].
    eapply Permutation_trans; [|exact Pt].
    apply enc_pmap_members_perm. exact (Permutation_sym (pm_sort_perm m)). }
  unfold enc_metadata_ok. rewrite <- (pm_sort_perm_eq m m' Pm Nm). cbn [option_eqb].
  rewrite (pmap_eqb_refl cs_data_eqb (pm_sort m) cs_data_eqb_spec).
  rewrite (json_perm_eqb_perm rs ts P Nr), (json_perm_eqb_perm ts rs (Permutation_sym P) Nt).
  rewrite (conforms_metadata_perm m ts Hwf (Permutation_sym Pt)). reflexivity.
Qed.

Corollary judge_enc_metadata_of_corr m impl redec reenc :
  wf_metadata m = true ->
  enc_metadata_corr m impl redec = true ->
  enc_metadata_reenc_corr redec reenc = true ->
  judge_enc_metadata m impl redec reenc = Agree.
Proof.
  intros Hwf Hc Hr. rewrite judge_enc_metadata_eq, Hwf.
  exact (judge_of_true _ _ Hc (enc_metadata_ok_of_corr m impl redec reenc Hwf Hc Hr) true).
Qed.

Theorem judge_enc_metadata_model_any_order m ms :
  wf_metadata m = true -> Permutation ms (members (enc_metadata m)) ->
  judge_enc_metadata m (JObj ms) (option_map pm_sort (dec_metadata (JObj ms)))
                     (option_map enc_metadata (dec_metadata (JObj ms))) = Agree.
Proof.
  intros Hwf P. destruct (dec_enc_metadata_perm m ms Hwf P) as (m' & Pm & Hms & Hwf' & Hd).
  apply (judge_enc_metadata_of_corr _ _ _ _ Hwf).
  - unfold enc_metadata_corr, enc_metadata.
    rewrite (perm_eqb_enc_pmap enc_cs m ms (wf_metadata_nodup m Hwf) (Permutation_sym P)).
    cbn [andb]. apply option_eqb_refl. intros a. apply pmap_eqb_refl. exact cs_data_eqb_spec.
  - rewrite Hd. cbn [option_map enc_metadata_reenc_corr]. unfold enc_metadata.
    rewrite (enc_pmap_obj enc_cs m').
    apply perm_eqb_enc_pmap.
    + eapply Permutation_NoDup; [apply Permutation_map; exact (pm_sort_perm m')|].
      exact (wf_metadata_nodup m' Hwf').
    + apply enc_pmap_members_perm. exact (Permutation_sym (pm_sort_perm m')).
Qed.

Theorem judge_enc_metadata_model m :
  judge_enc_metadata m (enc_metadata m) (option_map pm_sort (dec_metadata (enc_metadata m)))
                     (option_map enc_metadata (dec_metadata (enc_metadata m)))
  = if wf_metadata m then Agree else OutOfScope.
Proof.
  destruct (wf_metadata m) eqn:Hwf.
  - exact (judge_enc_metadata_model_any_order m (members (enc_metadata m)) Hwf (Permutation_refl _)).
  - rewrite judge_enc_metadata_eq, Hwf. reflexivity.
Qed.

(** * Benign perturbations of an event document

    One statement for the generator's benign classes (members reordered, unknown members added,
    an optional member absent or [null]): the decoder of a variant sees the members only through
    the lookups of its own fields, and for the optional ones [null] and absent are the same. *)
Definition optional_fields : list string :=
  ["parent_id"; "parent"; "module_path"; "file"; "line"]%string.

Definition fnorm (r : fres json) : fres json :=
  match r with FOne JNull => FAbsent | _ => r end.

Definition field_sim (f : string) (ms ms' : list (string * json)) : Prop :=
  if existsb (String.eqb f) optional_fields
  then fnorm (find_field f ms) = fnorm (find_field f ms')
  else find_field f ms = find_field f ms'.

Lemma field_sim_req f ms ms' :
  existsb (String.eqb f) optional_fields = false -> field_sim f ms ms' ->
  find_field f ms = find_field f ms'.
Proof. unfold field_sim. intros ->. exact (fun H => H). Qed.

Lemma field_sim_opt {A} (d : json -> option A) f ms ms' :
  existsb (String.eqb f) optional_fields = true -> field_sim f ms ms' ->
  optf d f ms = optf d f ms'.
Proof.
  unfold field_sim, optf. intros ->.
  destruct (find_field f ms) as [|j|], (find_field f ms') as [|j'|]; cbn [fnorm];
    try destruct j; try destruct j'; cbn [dec_opt]; intros H;
    try discriminate H; try reflexivity; injection H as <-; reflexivity.
Qed.

(** identical lookups are similar, whatever the field *)
Lemma field_sim_of_eq f ms ms' : find_field f ms = find_field f ms' -> field_sim f ms ms'.
Proof. unfold field_sim. intros ->. destruct (existsb _ _); reflexivity. Qed.

Lemma field_sim_perm f ms ms' : Permutation ms ms' -> field_sim f ms ms'.
Proof. intros P. apply field_sim_of_eq. exact (find_field_perm f ms ms' P). Qed.

Lemma field_sim_unknown f k j ms : k <> f -> field_sim f ms ((k, j) :: ms).
Proof. intros H. apply field_sim_of_eq. symmetry. exact (find_field_cons_ne f k j ms H). Qed.

(** an optional member that is absent may be written as [null] *)
Lemma field_sim_optional_null f k ms :
  existsb (String.eqb k) optional_fields = true -> find_field k ms = FAbsent ->
  field_sim f ms ((k, JNull) :: ms).
Proof.
  intros Hk Ha. destruct (string_dec k f) as [->|Hne]; [|exact (field_sim_unknown f k JNull ms Hne)].
  unfold field_sim. rewrite Hk. cbn [find_field]. rewrite String.eqb_refl, Ha. reflexivity.
Qed.

Lemma dec_cs_members_benign ms ms' :
  (forall f, In f cs_fields_known -> field_sim f ms ms') ->
  dec_cs_members ms = dec_cs_members ms'.
Proof.
  intros H. unfold dec_cs_members, req.
  rewrite (field_sim_req "kind"%string ms ms' eq_refl (H "kind"%string ltac:(cbn; tauto))).
  rewrite (field_sim_req "name"%string ms ms' eq_refl (H "name"%string ltac:(cbn; tauto))).
  rewrite (field_sim_req "target"%string ms ms' eq_refl (H "target"%string ltac:(cbn; tauto))).
  rewrite (field_sim_req "level"%string ms ms' eq_refl (H "level"%string ltac:(cbn; tauto))).
  rewrite (field_sim_req "fields"%string ms ms' eq_refl (H "fields"%string ltac:(cbn; tauto))).
  rewrite (field_sim_opt dec_str "module_path"%string ms ms' eq_refl (H "module_path"%string ltac:(cbn; tauto))).
  rewrite (field_sim_opt dec_str "file"%string ms ms' eq_refl (H "file"%string ltac:(cbn; tauto))).
  rewrite (field_sim_opt dec_u32 "line"%string ms ms' eq_refl (H "line"%string ltac:(cbn; tauto))).
  reflexivity.
Qed.

Theorem dec_event_benign tag ms ms' :
  (forall f, In f (event_fields tag) -> field_sim f ms ms') ->
  dec_event (JObj [(tag, JObj ms)]) = dec_event (JObj [(tag, JObj ms')]).
Proof.
  unfold event_fields. cbn [dec_event]. unfold dec_id_only.
  repeat match goal with
         | |- context [if String.eqb tag ?s then _ else _] => destruct (String.eqb tag s)
         end;
    intros H; try reflexivity; unfold req;
    repeat match goal with
           | |- context [find_field ?f ms] =>
               rewrite (field_sim_req f ms ms' eq_refl (H f ltac:(cbn; tauto)))
           | |- context [optf ?d ?f ms] =>
               rewrite (field_sim_opt d f ms ms' eq_refl (H f ltac:(cbn; tauto)))
           end;
    try reflexivity.
  rewrite (dec_cs_members_benign ms ms'); [reflexivity|].
  intros f Hf. apply H. right. exact Hf.
Qed.

Lemma enc_event_shape e : exists tag ms, enc_event e = JObj [(tag, JObj ms)].
Proof. destruct e; cbn [enc_event]; eauto. Qed.

(** * 6. [judge_dec_event] *)
Definition dec_event_corr (doc : json) (impl : option event) : bool :=
  option_eqb event_eqb (dec_event doc) impl.
Definition dec_event_ok (benign : bool) (expect impl : option event) : bool :=
  if benign then is_some expect && option_eqb event_eqb impl expect else true.

Lemma judge_dec_event_eq benign expect doc impl :
  judge_dec_event benign expect doc impl
  = judge_of true (dec_event_corr doc impl) (dec_event_ok benign expect impl).
Proof. reflexivity. Qed.

(** [benign] and [expect] are inputs from the generator, not outputs of the implementation, and
    [corr] says nothing about them.  [dec_event_expected]: the generator's classification is
    right, i.e. the model accepts a benign document with the value [expect] *)
Definition dec_event_expected (benign : bool) (expect : option event) (doc : json) : Prop :=
  benign = true -> exists e, expect = Some e /\ dec_event doc = Some e.

Theorem dec_event_ok_of_corr benign expect doc impl :
  dec_event_corr doc impl = true ->
  dec_event_expected benign expect doc ->
  dec_event_ok benign expect impl = true.
Proof.
  intros Hc Hb. unfold dec_event_ok. destruct benign; [|reflexivity].
  destruct (Hb eq_refl) as (e & -> & Hd).
  apply (option_eqb_spec event_eqb event_eqb_spec) in Hc. rewrite Hd in Hc. subst impl.
  cbn [is_some option_eqb andb]. apply event_eqb_refl.
Qed.

Corollary judge_dec_event_of_corr benign expect doc impl :
  dec_event_corr doc impl = true ->
  dec_event_expected benign expect doc ->
  judge_dec_event benign expect doc impl = Agree.
Proof.
  intros Hc Hb. rewrite judge_dec_event_eq.
  exact (judge_of_true _ _ Hc (dec_event_ok_of_corr benign expect doc impl Hc Hb) true).
Qed.

Theorem judge_dec_event_model benign expect doc :
  dec_event_expected benign expect doc ->
  judge_dec_event benign expect doc (dec_event doc) = Agree.
Proof.
  apply judge_dec_event_of_corr. apply option_eqb_refl. exact event_eqb_refl.
Qed.

(** damaging perturbations and the hand-written corpus: agreement with the model is all that is
    judged, for every document *)
Theorem judge_dec_event_model_damaging expect doc :
  judge_dec_event false expect doc (dec_event doc) = Agree.
Proof. apply judge_dec_event_model. intros H. discriminate H. Qed.

(** the benign classes: [doc] differs from the encoding of a well-formed [e] by a perturbation
    of the members of its variant that keeps the lookups of the variant's own fields (up to
    [null] = absent for the optional ones) *)
Theorem dec_event_expected_benign e tag ms ms' :
  wf_event e = true ->
  enc_event e = JObj [(tag, JObj ms)] ->
  (forall f, In f (event_fields tag) -> field_sim f ms ms') ->
  dec_event_expected true (Some e) (JObj [(tag, JObj ms')]).
Proof.
  intros Hwf He Hs _. exists e. split; [reflexivity|].
  rewrite <- (dec_event_benign tag ms ms' Hs), <- He. exact (dec_enc_event e Hwf).
Qed.

Theorem judge_dec_event_model_benign e tag ms ms' :
  wf_event e = true ->
  enc_event e = JObj [(tag, JObj ms)] ->
  (forall f, In f (event_fields tag) -> field_sim f ms ms') ->
  judge_dec_event true (Some e) (JObj [(tag, JObj ms')]) (dec_event (JObj [(tag, JObj ms')]))
  = Agree.
Proof.
  intros Hwf He Hs. apply judge_dec_event_model.
  exact (dec_event_expected_benign e tag ms ms' Hwf He Hs).
Qed.

(** instances: no perturbation; members reordered; an unknown member; an absent optional member
    written as [null] *)
Corollary judge_dec_event_model_none e :
  wf_event e = true ->
  judge_dec_event true (Some e) (enc_event e) (dec_event (enc_event e)) = Agree.
Proof.
  intros Hwf. destruct (enc_event_shape e) as (tag & ms & He). rewrite He.
  apply (judge_dec_event_model_benign e tag ms ms Hwf He).
  intros f _. apply field_sim_of_eq. reflexivity.
Qed.

Corollary judge_dec_event_model_reordered e tag ms ms' :
  wf_event e = true -> enc_event e = JObj [(tag, JObj ms)] -> Permutation ms ms' ->
  judge_dec_event true (Some e) (JObj [(tag, JObj ms')]) (dec_event (JObj [(tag, JObj ms')]))
  = Agree.
Proof.
  intros Hwf He P. apply (judge_dec_event_model_benign e tag ms ms' Hwf He).
  intros f _. exact (field_sim_perm f ms ms' P).
Qed.

Corollary judge_dec_event_model_unknown_member e tag ms k j :
  wf_event e = true -> enc_event e = JObj [(tag, JObj ms)] -> ~ In k (event_fields tag) ->
  judge_dec_event true (Some e) (JObj [(tag, JObj ((k, j) :: ms))])
                  (dec_event (JObj [(tag, JObj ((k, j) :: ms))])) = Agree.
Proof.
  intros Hwf He Hk. apply (judge_dec_event_model_benign e tag ms _ Hwf He).
  intros f Hf. apply field_sim_unknown. intros ->. exact (Hk Hf).
Qed.

Corollary judge_dec_event_model_optional_null e tag ms k :
  wf_event e = true -> enc_event e = JObj [(tag, JObj ms)] ->
  In k optional_fields -> find_field k ms = FAbsent ->
  judge_dec_event true (Some e) (JObj [(tag, JObj ((k, JNull) :: ms))])
                  (dec_event (JObj [(tag, JObj ((k, JNull) :: ms))])) = Agree.
Proof.
  intros Hwf He Hk Ha. apply (judge_dec_event_model_benign e tag ms _ Hwf He).
  intros f _. apply field_sim_optional_null; [|exact Ha].
  apply existsb_exists. exists k. split; [exact Hk | apply String.eqb_refl].
Qed.

(** * Entry-wise perturbations of a persisted map

    Two member lists with the same keys whose values decode alike decode to the same map (the
    benign perturbations inside the entries of a persisted map: members of an entry reordered,
    unknown members, optional members absent or [null], unit variants as [{name: null}]). *)
Definition same_entries {A} (d : json -> option A) (ms ms' : list (string * json)) : Prop :=
  Forall2 (fun kv kv' => fst kv = fst kv' /\ d (snd kv) = d (snd kv')) ms ms'.

Lemma same_entries_refl {A} (d : json -> option A) ms : same_entries d ms ms.
Proof. induction ms as [|kv ms IH]; constructor; [split; reflexivity | exact IH]. Qed.

Lemma dec_pmap_entries_same {A} (d : json -> option A) ms ms' :
  same_entries d ms ms' -> forall acc, dec_pmap_entries d ms acc = dec_pmap_entries d ms' acc.
Proof.
  induction 1 as [|[s j] [s' j'] l l' [Hk Hd] _ IH]; intros acc; cbn [dec_pmap_entries];
    [reflexivity|].
  cbn [fst snd] in Hk, Hd. subst s'. rewrite Hd. destruct (dec_key s) as [k|]; [|reflexivity].
  destruct (d j') as [a|]; [|reflexivity]. apply IH.
Qed.

Lemma dec_pmap_same {A} (d : json -> option A) ms ms' :
  same_entries d ms ms' -> dec_pmap d (JObj ms) = dec_pmap d (JObj ms').
Proof. intros H. cbn [dec_pmap]. exact (dec_pmap_entries_same d ms ms' H []). Qed.

(** * 7. [judge_dec_spans] *)
Definition dec_spans_corr (doc : json) (impl : option json) (impl_len : N) : bool :=
  match dec_spans doc, impl with
  | Some m, Some t => json_perm_eqb (enc_spans m) t && (impl_len =? N.of_nat (List.length m))
  | None, None => true
  | _, _ => false
  end.
Definition dec_spans_ok (benign : bool) (expect : option (pmap span_data)) (impl : option json)
  : bool :=
  if benign then
    match expect, impl with
    | Some m, Some t => json_perm_eqb (enc_spans m) t && json_perm_eqb t (enc_spans m)
    | _, _ => false
    end
  else true.

Lemma judge_dec_spans_eq benign expect doc impl impl_len :
  judge_dec_spans benign expect doc impl impl_len
  = judge_of true (dec_spans_corr doc impl impl_len) (dec_spans_ok benign expect impl).
Proof. reflexivity. Qed.

(** here [corr] pins both outputs ([impl] up to member order, [impl_len]); [benign] and
    [expect] come from the generator.  [dec_pmap_expected]: the model accepts a benign document
    with the map [expect], up to the order of the entries *)
Definition dec_pmap_expected {A} (dec : json -> option (pmap A)) (benign : bool)
           (expect : option (pmap A)) (doc : json) : Prop :=
  benign = true -> exists m m', expect = Some m /\ dec doc = Some m' /\ Permutation m m'.

Theorem dec_spans_ok_of_corr benign expect doc impl impl_len :
  dec_spans_corr doc impl impl_len = true ->
  dec_pmap_expected dec_spans benign expect doc ->
  dec_spans_ok benign expect impl = true.
Proof.
  intros Hc Hb. unfold dec_spans_ok. destruct benign; [|reflexivity].
  destruct (Hb eq_refl) as (m & m' & -> & Hd & P).
  unfold dec_spans_corr in Hc. rewrite Hd in Hc. destruct impl as [t|]; [|discriminate Hc].
  apply andb_true_iff in Hc as [H1 _]. unfold enc_spans in H1.
  destruct (perm_eqb_enc_pmap_inv enc_span_data m' t H1) as (ts & -> & Pt & Nt).
  destruct (dec_spans_canonical doc m' Hd) as [Hwf' _].
  assert (Nm : NoDup (map fst m)).
  { eapply Permutation_NoDup; [apply Permutation_map; exact (Permutation_sym P)|].
    exact (wf_spans_nodup m' Hwf'). }
  assert (Pm : Permutation (members (enc_pmap enc_span_data m)) ts).
  { eapply Permutation_trans; [|exact Pt]. apply enc_pmap_members_perm. exact P. }
  unfold enc_spans.
  rewrite (perm_eqb_enc_pmap enc_span_data m ts Nm Pm).
  rewrite (perm_eqb_enc_pmap_rev enc_span_data m ts Nm Pm). reflexivity.
Qed.

Corollary judge_dec_spans_of_corr benign expect doc impl impl_len :
  dec_spans_corr doc impl impl_len = true ->
  dec_pmap_expected dec_spans benign expect doc ->
  judge_dec_spans benign expect doc impl impl_len = Agree.
Proof.
  intros Hc Hb. rewrite judge_dec_spans_eq.
  exact (judge_of_true _ _ Hc (dec_spans_ok_of_corr benign expect doc impl impl_len Hc Hb) true).
Qed.

Lemma dec_spans_corr_model doc :
  dec_spans_corr doc (option_map enc_spans (dec_spans doc)) (opt_len (dec_spans doc)) = true.
Proof.
  unfold dec_spans_corr. destruct (dec_spans doc) as [m|] eqn:Hd; cbn [option_map opt_len];
    [|reflexivity].
  destruct (dec_spans_canonical doc m Hd) as [Hwf _]. rewrite N.eqb_refl.
  unfold enc_spans. rewrite (enc_pmap_obj enc_span_data m) at 2.
  rewrite (perm_eqb_enc_pmap enc_span_data m _ (wf_spans_nodup m Hwf) (Permutation_refl _)).
  reflexivity.
Qed.

Theorem judge_dec_spans_model benign expect doc :
  dec_pmap_expected dec_spans benign expect doc ->
  judge_dec_spans benign expect doc (option_map enc_spans (dec_spans doc))
                  (opt_len (dec_spans doc)) = Agree.
Proof. apply judge_dec_spans_of_corr. apply dec_spans_corr_model. Qed.

Theorem judge_dec_spans_model_damaging expect doc :
  judge_dec_spans false expect doc (option_map enc_spans (dec_spans doc))
                  (opt_len (dec_spans doc)) = Agree.
Proof. apply judge_dec_spans_model. intros H. discriminate H. Qed.

(** the benign classes: the entries of the encoding of a well-formed [m] in any order, each
    entry replaced by one that [dec_span_data] reads alike *)
Theorem dec_spans_expected_benign m ms1 ms :
  wf_spans m = true ->
  Permutation ms1 (members (enc_spans m)) ->
  same_entries dec_span_data ms1 ms ->
  dec_pmap_expected dec_spans true (Some m) (JObj ms).
Proof.
  intros Hwf P S _. destruct (dec_enc_spans_perm m ms1 Hwf P) as (m' & Pm & _ & _ & Hd).
  exists m, m'. split; [reflexivity|]. split; [|exact Pm].
  unfold dec_spans in *. rewrite <- (dec_pmap_same dec_span_data ms1 ms S). exact Hd.
Qed.

Theorem judge_dec_spans_model_benign m ms1 ms :
  wf_spans m = true ->
  Permutation ms1 (members (enc_spans m)) ->
  same_entries dec_span_data ms1 ms ->
  judge_dec_spans true (Some m) (JObj ms) (option_map enc_spans (dec_spans (JObj ms)))
                  (opt_len (dec_spans (JObj ms))) = Agree.
Proof.
  intros Hwf P S. apply judge_dec_spans_model. exact (dec_spans_expected_benign m ms1 ms Hwf P S).
Qed.

Corollary judge_dec_spans_model_reordered m ms :
  wf_spans m = true -> Permutation ms (members (enc_spans m)) ->
  judge_dec_spans true (Some m) (JObj ms) (option_map enc_spans (dec_spans (JObj ms)))
                  (opt_len (dec_spans (JObj ms))) = Agree.
Proof.
  intros Hwf P. exact (judge_dec_spans_model_benign m ms ms Hwf P (same_entries_refl _ ms)).
Qed.

(** * 8. [judge_dec_metadata] *)
Definition dec_metadata_corr (doc : json) (impl : option (pmap cs_data)) : bool :=
  option_eqb (pmap_eqb cs_data_eqb) (option_map pm_sort (dec_metadata doc)) impl.
Definition dec_metadata_ok (benign : bool) (expect impl : option (pmap cs_data)) : bool :=
  if benign then
    match expect with
    | Some m => option_eqb (pmap_eqb cs_data_eqb) impl (Some (pm_sort m))
    | None => false
    end
  else true.

Lemma judge_dec_metadata_eq benign expect doc impl :
  judge_dec_metadata benign expect doc impl
  = judge_of true (dec_metadata_corr doc impl) (dec_metadata_ok benign expect impl).
Proof. reflexivity. Qed.

Theorem dec_metadata_ok_of_corr benign expect doc impl :
  dec_metadata_corr doc impl = true ->
  dec_pmap_expected dec_metadata benign expect doc ->
  dec_metadata_ok benign expect impl = true.
Proof.
  intros Hc Hb. unfold dec_metadata_ok. destruct benign; [|reflexivity].
  destruct (Hb eq_refl) as (m & m' & -> & Hd & P).
  apply (option_eqb_spec _ (pmap_eqb_spec cs_data_eqb cs_data_eqb_spec)) in Hc.
  rewrite Hd in Hc. cbn [option_map] in Hc. subst impl.
  destruct (dec_metadata_canonical doc m' Hd) as [Hwf' _].
  rewrite (pm_sort_perm_eq m' m (Permutation_sym P) (wf_metadata_nodup m' Hwf')).
  cbn [option_eqb]. apply pmap_eqb_refl. exact cs_data_eqb_spec.
Qed.

Corollary judge_dec_metadata_of_corr benign expect doc impl :
  dec_metadata_corr doc impl = true ->
  dec_pmap_expected dec_metadata benign expect doc ->
  judge_dec_metadata benign expect doc impl = Agree.
Proof.
  intros Hc Hb. rewrite judge_dec_metadata_eq.
  exact (judge_of_true _ _ Hc (dec_metadata_ok_of_corr benign expect doc impl Hc Hb) true).
Qed.

Theorem judge_dec_metadata_model benign expect doc :
  dec_pmap_expected dec_metadata benign expect doc ->
  judge_dec_metadata benign expect doc (option_map pm_sort (dec_metadata doc)) = Agree.
Proof.
  apply judge_dec_metadata_of_corr. apply option_eqb_refl.
  intros a. apply pmap_eqb_refl. exact cs_data_eqb_spec.
Qed.

Theorem judge_dec_metadata_model_damaging expect doc :
  judge_dec_metadata false expect doc (option_map pm_sort (dec_metadata doc)) = Agree.
Proof. apply judge_dec_metadata_model. intros H. discriminate H. Qed.

Theorem dec_metadata_expected_benign m ms1 ms :
  wf_metadata m = true ->
  Permutation ms1 (members (enc_metadata m)) ->
  same_entries dec_cs ms1 ms ->
  dec_pmap_expected dec_metadata true (Some m) (JObj ms).
Proof.
  intros Hwf P S _. destruct (dec_enc_metadata_perm m ms1 Hwf P) as (m' & Pm & _ & _ & Hd).
  exists m, m'. split; [reflexivity|]. split; [|exact Pm].
  unfold dec_metadata in *. rewrite <- (dec_pmap_same dec_cs ms1 ms S). exact Hd.
Qed.

Theorem judge_dec_metadata_model_benign m ms1 ms :
  wf_metadata m = true ->
  Permutation ms1 (members (enc_metadata m)) ->
  same_entries dec_cs ms1 ms ->
  judge_dec_metadata true (Some m) (JObj ms) (option_map pm_sort (dec_metadata (JObj ms)))
  = Agree.
Proof.
  intros Hwf P S. apply judge_dec_metadata_model.
  exact (dec_metadata_expected_benign m ms1 ms Hwf P S).
Qed.

Corollary judge_dec_metadata_model_reordered m ms :
  wf_metadata m = true -> Permutation ms (members (enc_metadata m)) ->
  judge_dec_metadata true (Some m) (JObj ms) (option_map pm_sort (dec_metadata (JObj ms)))
  = Agree.
Proof.
  intros Hwf P. exact (judge_dec_metadata_model_benign m ms ms Hwf P (same_entries_refl _ ms)).
Qed.

(** entries that the entry decoders read alike: a call site / span data object whose members are
    perturbed benignly *)
Lemma dec_cs_benign ms ms' :
  (forall f, In f cs_fields_known -> field_sim f ms ms') -> dec_cs (JObj ms) = dec_cs (JObj ms').
Proof. exact (dec_cs_members_benign ms ms'). Qed.

Lemma dec_span_data_benign ms ms' :
  (forall f, In f span_data_fields -> field_sim f ms ms') ->
  dec_span_data (JObj ms) = dec_span_data (JObj ms').
Proof.
  intros H. cbn [dec_span_data]. unfold req.
  rewrite (field_sim_req "metadata_id"%string ms ms' eq_refl (H "metadata_id"%string ltac:(cbn; tauto))).
  rewrite (field_sim_req "ref_count"%string ms ms' eq_refl (H "ref_count"%string ltac:(cbn; tauto))).
  rewrite (field_sim_req "values"%string ms ms' eq_refl (H "values"%string ltac:(cbn; tauto))).
  rewrite (field_sim_opt dec_u64 "parent_id"%string ms ms' eq_refl (H "parent_id"%string ltac:(cbn; tauto))).
  reflexivity.
Qed.

(** * The extra hypotheses cannot be dropped

    [corr] alone does not imply [ok] where [corr] leaves an input of [ok] free: witnesses. *)
Example enc_event_needs_floats_and_reenc :
  let e := ESpanEntered 1 in
  enc_event_corr e (enc_event e) (Some e) = true
  /\ enc_event_ok e (enc_event e) (Some e) (Some (enc_event e)) false = false
  /\ enc_event_ok e (enc_event e) (Some e) None true = false.
Proof. vm_compute. repeat split. Qed.

Example enc_spans_needs_len :
  enc_spans_corr [] (JObj []) (Some (JObj [])) = true
  /\ enc_spans_ok [] (JObj []) (Some (JObj [])) 1 = false.
Proof. vm_compute. repeat split. Qed.

Example real_spans_needs_reenc :
  conforms_spans (JObj []) = true /\ real_spans_ok (JObj []) None = false.
Proof. vm_compute. repeat split. Qed.

Example enc_metadata_needs_reenc :
  enc_metadata_corr [] (JObj []) (Some []) = true
  /\ enc_metadata_ok [] (JObj []) (Some []) None = false.
Proof. vm_compute. repeat split. Qed.

Example dec_judges_need_expected :
  let doc := JObj [("span_entered"%string, JObj [("id"%string, JInt 5)])] in
  dec_event_corr doc (dec_event doc) = true
  /\ dec_event_ok true (Some (ESpanEntered 6)) (dec_event doc) = false
  /\ dec_spans_corr (JObj []) (Some (JObj [])) 0 = true
  /\ dec_spans_ok true None (Some (JObj [])) = false
  /\ dec_metadata_corr (JObj []) (Some []) = true
  /\ dec_metadata_ok true None (Some []) = false.
Proof. vm_compute. repeat split. Qed.

(** * Assumptions *)
Print Assumptions enc_event_ok_of_corr.
Print Assumptions judge_enc_event_of_corr.
Print Assumptions judge_enc_event_model.
Print Assumptions nonfinite_ok_of_corr.
Print Assumptions judge_nonfinite_value_of_corr.
Print Assumptions judge_nonfinite_value_model.
Print Assumptions enc_spans_ok_of_corr.
Print Assumptions judge_enc_spans_of_corr.
Print Assumptions judge_enc_spans_model_any_order.
Print Assumptions judge_enc_spans_model.
Print Assumptions real_spans_ok_of_corr.
Print Assumptions judge_real_spans_of_corr.
Print Assumptions judge_real_spans_model_conforming.
Print Assumptions judge_real_spans_model_any_order.
Print Assumptions judge_real_spans_model.
Print Assumptions enc_metadata_ok_of_corr.
Print Assumptions judge_enc_metadata_of_corr.
Print Assumptions judge_enc_metadata_model_any_order.
Print Assumptions judge_enc_metadata_model.
Print Assumptions dec_event_benign.
Print Assumptions dec_event_ok_of_corr.
Print Assumptions judge_dec_event_of_corr.
Print Assumptions judge_dec_event_model.
Print Assumptions judge_dec_event_model_damaging.
Print Assumptions judge_dec_event_model_benign.
Print Assumptions judge_dec_event_model_none.
Print Assumptions judge_dec_event_model_reordered.
Print Assumptions judge_dec_event_model_unknown_member.
Print Assumptions judge_dec_event_model_optional_null.
Print Assumptions dec_spans_ok_of_corr.
Print Assumptions judge_dec_spans_of_corr.
Print Assumptions judge_dec_spans_model.
Print Assumptions judge_dec_spans_model_damaging.
Print Assumptions judge_dec_spans_model_benign.
Print Assumptions judge_dec_spans_model_reordered.
Print Assumptions dec_metadata_ok_of_corr.
Print Assumptions judge_dec_metadata_of_corr.
Print Assumptions judge_dec_metadata_model.
Print Assumptions judge_dec_metadata_model_damaging.
Print Assumptions judge_dec_metadata_model_benign.
Print Assumptions judge_dec_metadata_model_reordered.
Print Assumptions dec_cs_benign.
Print Assumptions dec_span_data_benign.
