(** The executable statements of the receiver judges C06, C07, C02 (state form), C08 hold on EVERY
    run of observations that the correspondence check accepts.

    [Judge/RecvOkProofs.v] and [Judge/C08.v] prove that the MODEL's own observations
    ([map iobs_of (hist_run ...)]) pass [ok_c06], [ok_abstract], [ok_c07], [ok_c08], [refs_ok].
    Here the stronger form ([Judge/C04Proofs.v] has it for C04): for an arbitrary [impl] with
    [corr_history steps impl = true] the executable statement holds, so that a [PropFail] verdict
    without a [Mismatch] is impossible for these judges.

    Method: [corr_history] relates every snapshot of the implementation to the model state by
    [snap_matches] (strictly ascending association lists denoting the state's maps).  Every
    quantity an ok-function reads from a snapshot ([a_of_snap], [alookup], [map_agrees],
    [refs_match], [exact_ok], [snap_eqb]) is determined by the model state; the host calls of a
    step are the model's up to [reorder], under which the strict tracker is invariant. *)
From TT Require Import Tunnel.TypesProofs Tunnel.ReceiverSpec Tunnel.ReceiverInv Tunnel.ReceiverHistInv
  Tunnel.ReceiverAbsProofs Tunnel.ReceiverTrack Tunnel.ReceiverOrder Tunnel.ReceiverOrderProofs
  Judge.Recv Judge.RecvProofs Judge.C08 Judge.RecvOk Judge.RecvOkProofs
  Judge.C06 Judge.C07 Judge.C02 Judge.C03.
From stdpp Require Import gmap sorting.
Arguments firstn : simpl never.
Arguments skipn : simpl never.
Arguments chunks : simpl never.
Arguments extend : simpl never.
Arguments host_vals : simpl never.

(** * Two snapshots that match the same state are the same lists *)

Definition key_lt {V} : relation (N * V) := λ a b, (a.1 < b.1)%N.

Local Instance key_lt_antisym {V} : AntiSymm (=) (@key_lt V).
Proof. intros x y H1 H2. unfold key_lt in *. lia. Qed.
Local Instance N_lt_antisym : AntiSymm (=) N.lt.
Proof. intros x y H1 H2. lia. Qed.

Lemma strictly_ascending_SS (l : list N) : strictly_ascending l = true → StronglySorted N.lt l.
Proof.
  induction l as [|a l IH]; intros H; [constructor|].
  constructor; [apply IH; by eapply strictly_ascending_tail|].
  exact (strictly_ascending_lt _ H).
Qed.

Lemma strictly_ascending_keys_SS {V} (l : list (N * V)) :
  strictly_ascending (map fst l) = true → StronglySorted key_lt l.
Proof.
  induction l as [|a l IH]; intros H; [constructor|]. cbn [map] in H.
  constructor; [apply IH; by eapply strictly_ascending_tail|].
  pose proof (strictly_ascending_lt _ H) as Hlt. cbn beta iota in Hlt.
  clear -Hlt. induction l as [|b l IHl]; [constructor|]. cbn [map] in Hlt.
  apply Forall_cons in Hlt as [Hb Hl]. constructor; [exact Hb | by apply IHl].
Qed.

Lemma map_matches_asc {V} (eqb : V → V → bool) (m : gmap N V) l :
  map_matches eqb m l = true → strictly_ascending (map fst l) = true.
Proof. unfold map_matches. rewrite !andb_true_iff. by intros [[_ H] _]. Qed.

Lemma map_matches_nodup {V} (eqb : V → V → bool) (m : gmap N V) l :
  map_matches eqb m l = true → NoDup l.*1.
Proof. intros H. apply map_matches_asc in H. by apply strictly_ascending_NoDup. Qed.

Lemma map_matches_perm {V} (eqb : V → V → bool) (m : gmap N V) l :
  (∀ a b, eqb a b = true ↔ a = b) → map_matches eqb m l = true → l ≡ₚ map_to_list m.
Proof.
  intros Heq H. rewrite (map_matches_sound _ _ _ Heq H). symmetry.
  apply map_to_list_to_map. by eapply map_matches_nodup.
Qed.

Lemma map_matches_unique {V} (eqb : V → V → bool) (m : gmap N V) l1 l2 :
  (∀ a b, eqb a b = true ↔ a = b) →
  map_matches eqb m l1 = true → map_matches eqb m l2 = true → l1 = l2.
Proof.
  intros Heq H1 H2. apply (StronglySorted_unique key_lt).
  - by eapply strictly_ascending_keys_SS, map_matches_asc.
  - by eapply strictly_ascending_keys_SS, map_matches_asc.
  - by rewrite (map_matches_perm _ _ _ Heq H1), (map_matches_perm _ _ _ Heq H2).
Qed.

Lemma set_matches_unique (s : gset N) l1 l2 :
  set_matches s l1 = true → set_matches s l2 = true → l1 = l2.
Proof.
  intros H1 H2.
  pose proof (set_matches_sound _ _ H1) as E1. pose proof (set_matches_sound _ _ H2) as E2.
  unfold set_matches in H1, H2. rewrite !andb_true_iff in H1, H2.
  destruct H1 as [[_ A1] _], H2 as [[_ A2] _].
  apply (StronglySorted_unique N.lt); [by apply strictly_ascending_SS..|].
  rewrite <- (elements_list_to_set (C:=gset N) l1) by (by apply strictly_ascending_NoDup).
  rewrite <- (elements_list_to_set (C:=gset N) l2) by (by apply strictly_ascending_NoDup).
  by rewrite <- E1, <- E2.
Qed.

Theorem snap_matches_unique st s1 s2 :
  snap_matches st s1 = true → snap_matches st s2 = true → s1 = s2.
Proof.
  unfold snap_matches. rewrite !andb_true_iff.
  intros [[[[A1 A2] A3] A4] A5] [[[[B1 B2] B3] B4] B5].
  destruct s1 as [a1 a2 a3 a4 a5], s2 as [b1 b2 b3 b4 b5]. cbn [sn_meta sn_spans sn_local sn_uncommitted sn_entered] in *.
  f_equal.
  - by apply (map_matches_unique _ _ _ _ cs_data_eqb_spec A1).
  - by apply (map_matches_unique _ _ _ _ span_data_eqb_sound A2).
  - by apply (map_matches_unique _ _ _ _ N.eqb_eq A3).
  - by apply (set_matches_unique _ _ _ A4).
  - by apply (map_matches_unique _ _ _ _ N.eqb_eq A5).
Qed.

Corollary snap_matches_eqb st s1 s2 :
  snap_matches st s1 = true → snap_matches st s2 = true → snap_eqb s1 s2 = true.
Proof. intros H1 H2. rewrite (snap_matches_unique _ _ _ H1 H2). apply snap_eqb_refl. Qed.

(** * What the ok-functions read from a matching snapshot *)

Lemma alookup_list_to_map {V} (l : list (N * V)) k : alookup k l = (list_to_map l : gmap N V) !! k.
Proof.
  induction l as [|[k' v] l IH]; cbn [alookup].
  - by rewrite list_to_map_nil, lookup_empty.
  - rewrite list_to_map_cons. destruct (N.eqb_spec k k') as [->|Hne].
    + by rewrite lookup_insert.
    + by rewrite lookup_insert_ne.
Qed.

Lemma a_of_snap_matches st s : snap_matches st s = true → a_of_snap s = abs st.
Proof.
  intros H. destruct (snap_matches_sound _ _ H) as (E1 & E2 & _).
  unfold a_of_snap, abs. by rewrite E1, E2.
Qed.

Lemma snap_matches_parts st s :
  snap_matches st s = true →
  map_matches cs_data_eqb (r_meta st) (sn_meta s) = true ∧
  map_matches span_data_eqb (r_spans st) (sn_spans s) = true ∧
  map_matches N.eqb (r_local st) (sn_local s) = true.
Proof. unfold snap_matches. rewrite !andb_true_iff. tauto. Qed.

Lemma alookup_spans st s k : snap_matches st s = true → alookup k (sn_spans s) = r_spans st !! k.
Proof. intros H. destruct (snap_matches_sound _ _ H) as (_ & E & _). by rewrite alookup_list_to_map, E. Qed.
Lemma alookup_local st s k : snap_matches st s = true → alookup k (sn_local s) = r_local st !! k.
Proof. intros H. destruct (snap_matches_sound _ _ H) as (_ & _ & E & _). by rewrite alookup_list_to_map, E. Qed.

Lemma snap_matches_empty : snap_matches rs_default snap_empty = true.
Proof. vm_compute. reflexivity. Qed.

Lemma strictly_ascending_nodup_N l : strictly_ascending l = true → nodup_N l = true.
Proof. intros H. by apply nodup_N_true, strictly_ascending_NoDup. Qed.

Lemma map_matches_agrees {V} (eqb : V → V → bool) (m : gmap N V) l :
  map_matches eqb m l = true → map_agrees eqb m l = true.
Proof.
  unfold map_matches, map_agrees. rewrite !andb_true_iff. intros [[H1 H2] H3].
  split_and!; [done | by apply strictly_ascending_nodup_N | done].
Qed.

(** * One step of an accepted run *)

Definition mobs_st (m : mobs) : rstate :=
  match m with MRecv _ _ st | MPersist _ _ _ _ st | MDrop _ _ st => st end.

Lemma hist_step_st h s : mobs_st (hist_step h s).2 = h_st (hist_step h s).1.
Proof.
  destruct s as [ev|keep|]; cbn [hist_step].
  - by destruct (try_receive (h_st h) (h_w h) ev) as [[[o st'] w'] calls].
  - unfold persist. by destruct (restore _ _ _ _) as [[st' w'] regs].
  - by destruct (restore _ _ _ _) as [[st' w'] regs].
Qed.

Lemma obs_matches_snap m i : obs_matches m i = true → snap_matches (mobs_st m) (iobs_snap i) = true.
Proof.
  destruct m, i; try done; cbn [obs_matches mobs_st iobs_snap]; rewrite !andb_true_iff; tauto.
Qed.

Lemma obs_matches_recv_inv o c st i :
  obs_matches (MRecv o c st) i = true → ∃ s, i = IRecv o c s ∧ snap_matches st s = true.
Proof.
  destruct i as [o' c' s| |]; try done. cbn [obs_matches]. rewrite !andb_true_iff.
  intros [[Ho Hc] Hs]. apply outcome_eqb_sound in Ho. apply calls_eqb_sound in Hc. subst. eauto.
Qed.

Lemma obs_matches_persist_inv e sp md rg st i :
  obs_matches (MPersist e sp md rg st) i = true →
  ∃ e' sp' md' rg' s, i = IPersist e' sp' md' rg' s ∧
    map_matches span_data_eqb sp sp' = true ∧ map_matches cs_data_eqb md md' = true ∧
    snap_matches st s = true.
Proof.
  destruct i as [|e' sp' md' rg' s|]; try done. cbn [obs_matches]. rewrite !andb_true_iff.
  intros [[[[_ H1] H2] _] H3]. do 5 eexists. eauto.
Qed.

Lemma obs_matches_drop_inv c rg st i :
  obs_matches (MDrop c rg st) i = true → ∃ c' rg' s, i = IDrop c' rg' s ∧ snap_matches st s = true.
Proof.
  destruct i as [| |c' rg' s]; try done. cbn [obs_matches]. rewrite !andb_true_iff.
  intros [_ H3]. do 3 eexists. eauto.
Qed.

Lemma corr_cons_inv h s r impl :
  all2 obs_matches (hist_run h (s :: r)) impl = true →
  ∃ i ii, impl = i :: ii ∧ obs_matches (hist_step h s).2 i = true ∧
    all2 obs_matches (if is_panic (hist_step h s).2 then [] else hist_run (hist_step h s).1 r) ii = true.
Proof.
  cbn [hist_run]. destruct (hist_step h s) as [h' o]. cbn [fst snd].
  destruct impl as [|i ii]; cbn [all2]; [done|]. intros H. apply andb_true_iff in H as [H1 H2]. eauto.
Qed.

Lemma all2_nil_inv {A B} (f : A → B → bool) (b : list B) : all2 f [] b = true → b = [].
Proof. by destruct b. Qed.

Lemma hist_step_no_panic h s : HInv h → step_scope h s → is_panic (hist_step h s).2 = false.
Proof.
  intros HH Hs. pose proof (hist_total [s] h HH (conj Hs I)) as Hp. cbn [hist_run] in Hp.
  destruct (hist_step h s) as [h' o]. by apply Forall_cons in Hp as [Hp _].
Qed.

(** a step in scope of an accepted run: the implementation's observation matches the model's, its
    snapshot matches the model's next state, the rest of the run is accepted *)
Lemma corr_step h s r impl :
  HInv h → step_scope h s → all2 obs_matches (hist_run h (s :: r)) impl = true →
  ∃ i ii, impl = i :: ii ∧ obs_matches (hist_step h s).2 i = true ∧
    snap_matches (h_st (hist_step h s).1) (iobs_snap i) = true ∧
    all2 obs_matches (hist_run (hist_step h s).1 r) ii = true.
Proof.
  intros HH Hs Hc. destruct (corr_cons_inv _ _ _ _ Hc) as (i & ii & -> & Hi & Hii).
  rewrite (hist_step_no_panic _ _ HH Hs) in Hii. exists i, ii. split_and!; try done.
  rewrite <- hist_step_st. by apply obs_matches_snap.
Qed.

(** * C06 *)
Theorem ok_c06_of_corr_from steps : ∀ h prev impl,
  HInv h → hist_scope h steps → a_of_snap prev = abs (h_st h) →
  all2 obs_matches (hist_run h steps) impl = true →
  ok_c06 prev steps impl = true.
Proof.
  induction steps as [|s r IH]; intros h prev impl HH Hsc Hprev Hc.
  - cbn [hist_run] in Hc. apply all2_nil_inv in Hc. by subst.
  - destruct Hsc as [Hs Hsc].
    pose proof (hist_step_HInv h s HH Hs) as HH'.
    pose proof (hist_step_no_panic h s HH Hs) as Hp.
    destruct (corr_step _ _ _ _ HH Hs Hc) as (i & ii & -> & Hi & Hsn & Hii).
    pose proof (IH _ (iobs_snap i) ii HH' Hsc (a_of_snap_matches _ _ Hsn) Hii) as IH'.
    clear IH Hc Hii Hsn HH' Hsc.
    destruct s as [ev|keep|]; cbn [hist_step] in *.
    + destruct (try_receive (h_st h) (h_w h) ev) as [[[o' st'] w'] calls] eqn:E'. cbn [fst snd] in *.
      apply obs_matches_recv_inv in Hi as (sn & -> & _). cbn [ok_c06 iobs_snap] in *.
      rewrite Hprev.
      pose proof (try_receive_refines _ _ _ _ _ _ _ (hinv_st _ HH) Hs E') as Hr.
      unfold astep in Hr. injection Hr as Ho _. rewrite Ho, outcome_eqb_refl, IH'.
      by destruct o'.
    + unfold persist in *. destruct (restore _ _ _ _) as [[st' w'] regs]. cbn [fst snd] in *.
      apply obs_matches_persist_inv in Hi as (e' & sp' & md' & rg' & sn & -> & _). exact IH'.
    + destruct (restore _ _ _ _) as [[st' w'] regs]. cbn [fst snd] in *.
      apply obs_matches_drop_inv in Hi as (c' & rg' & sn & -> & _). exact IH'.
Qed.

Theorem ok_c06_of_corr : ∀ steps impl,
  hist_scope hist_init steps → corr_history steps impl = true →
  ok_c06 snap_empty steps impl = true.
Proof.
  intros steps impl Hsc Hc.
  apply (ok_c06_of_corr_from steps hist_init); [apply HInv_init | done | | exact Hc].
  apply a_of_snap_matches, snap_matches_empty.
Qed.

(** * The abstract-refinement check *)
Theorem ok_abstract_of_corr_from steps : ∀ h impl,
  HInv h → hist_scope h steps →
  all2 obs_matches (hist_run h steps) impl = true →
  ok_abstract (absh h) steps impl = true.
Proof.
  induction steps as [|s r IH]; intros h impl HH Hsc Hc.
  - cbn [hist_run] in Hc. apply all2_nil_inv in Hc. by subst.
  - destruct Hsc as [Hs Hsc].
    pose proof (hist_step_HInv h s HH Hs) as HH'.
    pose proof (hist_step_refines h s HH Hs) as Href.
    destruct (corr_step _ _ _ _ HH Hs Hc) as (i & ii & -> & Hi & Hsn & Hii).
    pose proof (IH _ ii HH' Hsc Hii) as IH'.
    cbn [ok_abstract]. rewrite Href, IH', andb_true_r.
    clear IH Hc Hii HH' Hsc IH' Href.
    destruct s as [ev|keep|]; cbn [hist_step] in *.
    + destruct (try_receive (h_st h) (h_w h) ev) as [[[o' st'] w'] calls] eqn:E'. cbn [fst snd] in *.
      apply obs_matches_recv_inv in Hi as (sn & -> & _). cbn [iobs_snap outcome_of absh ah_cur abs a_spans a_meta h_st] in *.
      destruct (snap_matches_parts _ _ Hsn) as (M1 & M2 & _).
      rewrite outcome_eqb_refl, (map_matches_agrees _ _ _ M1), (map_matches_agrees _ _ _ M2). done.
    + unfold persist in *.
      pose proof (restore_spec (h_w h) (persist_metadata (h_st h) ∪ h_md h) (r_spans (h_st h))
                    (if keep then r_local (h_st h) else ∅)) as Hs'.
      destruct (restore _ _ _ _) as [[st' w'] regs]. cbn [fst snd] in *.
      apply obs_matches_persist_inv in Hi as (e' & sp' & md' & rg' & sn & -> & M2 & M1 & _).
      cbn [outcome_of absh ah_cur abs a_spans a_meta h_st]. destruct Hs' as (-> & -> & _).
      by rewrite (map_matches_agrees _ _ _ M1), (map_matches_agrees _ _ _ M2).
    + destruct (restore _ _ _ _) as [[st' w'] regs]. cbn [fst snd] in *.
      apply obs_matches_drop_inv in Hi as (c' & rg' & sn & -> & _).
      cbn [iobs_snap outcome_of absh ah_cur abs a_spans a_meta h_st] in *.
      destruct (snap_matches_parts _ _ Hsn) as (M1 & M2 & _).
      by rewrite (map_matches_agrees _ _ _ M1), (map_matches_agrees _ _ _ M2).
Qed.

Theorem ok_abstract_of_corr : ∀ steps impl,
  hist_scope hist_init steps → corr_history steps impl = true →
  ok_abstract ah_init steps impl = true.
Proof. intros steps impl Hsc Hc. by apply (ok_abstract_of_corr_from steps hist_init impl HInv_init). Qed.

(** * C07: no hypothesis on the history *)
Theorem ok_c07_of_corr_from steps : ∀ h prev impl,
  snap_matches (h_st h) prev = true →
  all2 obs_matches (hist_run h steps) impl = true →
  ok_c07 prev impl = true.
Proof.
  induction steps as [|s r IH]; intros h prev impl Hprev Hc.
  - cbn [hist_run] in Hc. apply all2_nil_inv in Hc. by subst.
  - destruct (corr_cons_inv _ _ _ _ Hc) as (i & ii & -> & Hi & Hii).
    pose proof (obs_matches_snap _ _ Hi) as Hsn. rewrite hist_step_st in Hsn.
    assert (is_panic (hist_step h s).2 = false → ok_c07 (iobs_snap i) ii = true) as IH'.
    { intros Hp. rewrite Hp in Hii. by apply (IH (hist_step h s).1). }
    clear IH Hc.
    destruct s as [ev|keep|]; cbn [hist_step] in *.
    + destruct (try_receive (h_st h) (h_w h) ev) as [[[o' st'] w'] calls] eqn:E'. cbn [fst snd] in *.
      apply obs_matches_recv_inv in Hi as (sn & -> & _). cbn [ok_c07 iobs_snap h_st is_panic] in *.
      destruct o' as [|e|]; cbn [is_rejected].
      * by rewrite IH'.
      * apply reject_no_effect in E' as (-> & -> & ->).
        by rewrite (snap_matches_eqb _ _ _ Hprev Hsn), IH'.
      * apply all2_nil_inv in Hii. by subst.
    + unfold persist in *. destruct (restore _ _ _ _) as [[st' w'] regs]. cbn [fst snd] in *.
      apply obs_matches_persist_inv in Hi as (e' & sp' & md' & rg' & sn & -> & _).
      cbn [ok_c07]. by apply IH'.
    + destruct (restore _ _ _ _) as [[st' w'] regs]. cbn [fst snd] in *.
      apply obs_matches_drop_inv in Hi as (c' & rg' & sn & -> & _).
      cbn [ok_c07]. by apply IH'.
Qed.

Theorem ok_c07_of_corr : ∀ steps impl,
  corr_history steps impl = true → ok_c07 snap_empty impl = true.
Proof.
  intros steps impl Hc. apply (ok_c07_of_corr_from steps hist_init); [apply snap_matches_empty | exact Hc].
Qed.

(** * C08 *)

(** ** the strict tracker on the calls the implementation made *)
Lemma iobs_calls_same i : RecvProofs.iobs_calls i = C08.iobs_calls i.
Proof. by destruct i. Qed.

Lemma track_all_matches opn m i :
  mobs_wf m → obs_matches m i = true →
  track_all opn (C08.iobs_calls i) = track_all opn (Tunnel.ReceiverTrack.mobs_calls m).
Proof.
  intros W H. destruct (obs_matches_reorder m i W H) as [R E].
  rewrite <- iobs_calls_same, <- E. symmetry. apply track_all_reorder.
  by destruct (obs_reorder_calls _ _ R) as [R1 _].
Qed.

(** ** [drop_ok] reads the snapshots through [alookup] only *)
Lemma drop_ok_matches st st' prev now s o calls :
  snap_matches st prev = true → snap_matches st' now = true →
  drop_ok prev s (IRecv o calls now) = drop_ok (C08.snap_of st) s (IRecv o calls (C08.snap_of st')).
Proof.
  intros Hp Hn. unfold drop_ok. destruct s as [ev| |]; [|done..].
  destruct ev; try done; destruct o; try done; unfold C08.snap_of; cbn [sn_spans sn_local];
    rewrite !alookup_map_to_list, ?(alookup_spans _ _ _ Hp), ?(alookup_local _ _ _ Hp),
      ?(alookup_spans _ _ _ Hn), ?(alookup_local _ _ _ Hn); done.
Qed.

(** ** [exact_ok] *)
Lemma exact_ok_matches st s opn :
  Inv st → Exact (r_local st) opn → snap_matches st s = true → exact_ok s opn = true.
Proof.
  intros HI HE Hs. destruct (snap_matches_sound _ _ Hs) as (_ & E2 & E3 & _).
  destruct (snap_matches_parts _ _ Hs) as (_ & _ & M3). apply map_matches_nodup in M3.
  unfold exact_ok.
  assert (opn = range_set (sn_local s)) as Hr.
  { apply set_eq. intros h. rewrite elem_of_range_set, (HE h), E3.
    split; intros [id Hid]; exists id; by apply (elem_of_list_to_map (sn_local s) id h M3). }
  rewrite bool_decide_eq_true_2 by done. cbn [andb].
  destruct (sn_spans s) as [|x l] eqn:Es; [|done].
  rewrite list_to_map_nil in E2.
  pose proof (Inv_no_spans_no_local _ HI E2) as El. rewrite El in HE.
  destruct (sn_local s) as [|[k v] l'] eqn:E'.
  - apply bool_decide_eq_true_2. by apply Exact_empty.
  - exfalso. rewrite El, list_to_map_cons in E3. symmetry in E3. by apply insert_non_empty in E3.
Qed.

Theorem walk_of_corr_from steps : ∀ h prev opn keep impl,
  HInv h → TInv (h_st h) (h_w h) opn → hist_scope h steps →
  (keep = true → Exact (r_local (h_st h)) opn) →
  snap_matches (h_st h) prev = true →
  all2 obs_matches (hist_run h steps) impl = true →
  C08.walk prev opn keep steps impl = true.
Proof.
  induction steps as [|s r IH]; intros h prev opn keep impl HH HT Hsc HE Hprev Hc.
  - cbn [hist_run] in Hc. apply all2_nil_inv in Hc. by subst.
  - destruct Hsc as [Hs Hsc].
    pose proof (hist_step_HInv h s HH Hs) as HH'.
    destruct (hist_step_track h s opn HH HT Hs) as (opn1 & Ht1 & HT1 & HE1).
    destruct (corr_step _ _ _ _ HH Hs Hc) as (i & ii & -> & Hi & Hsn & Hii).
    cbn [C08.walk]. rewrite (track_all_matches opn _ i (hist_step_wf h s) Hi), Ht1.
    assert (keep && keep_step_b s = true → Exact (r_local (h_st (hist_step h s).1)) opn1) as HE'.
    { intros Hk. apply andb_true_iff in Hk as [-> Hk]. apply keep_step_b_spec in Hk. eauto. }
    rewrite (IH _ (iobs_snap i) opn1 _ ii HH' HT1 Hsc HE' Hsn Hii), andb_true_r.
    apply andb_true_iff. split.
    + clear IH Hc Hii HE' HE1 HT1 Ht1 Hsc.
      destruct s as [ev|k|]; [|done..]. cbn [hist_step] in *.
      destruct (try_receive (h_st h) (h_w h) ev) as [[[o st'] w'] calls] eqn:E. cbn [fst snd h_st] in *.
      apply obs_matches_recv_inv in Hi as (sn & -> & _). cbn [iobs_snap] in Hsn.
      rewrite (drop_ok_matches _ _ _ _ _ _ _ Hprev Hsn).
      eapply drop_ok_model; [apply HH | exact E].
    + destruct (keep && keep_step_b s) eqn:Ek; [|done].
      apply (exact_ok_matches (h_st (hist_step h s).1)); [apply HH' | by apply HE' | done].
Qed.

Theorem ok_c08_of_corr : ∀ steps impl,
  hist_scope hist_init steps → corr_history steps impl = true → ok_c08 steps impl = true.
Proof.
  intros steps impl Hsc Hc. unfold ok_c08.
  apply (walk_of_corr_from steps hist_init);
    [apply HInv_init | apply TInv_init | done | intros _; apply Exact_init | apply snap_matches_empty | exact Hc].
Qed.

(** ** handle counts recomputed from the events *)
Lemma refs_match_matches refs st s :
  refs_rel refs (r_spans st) → snap_matches st s = true → refs_match refs s = true.
Proof.
  intros HR Hs. pose proof (refs_match_rel refs st HR) as Hm.
  destruct (snap_matches_parts _ _ Hs) as (_ & M2 & _).
  pose proof (map_matches_perm _ _ _ span_data_eqb_sound M2) as HP.
  unfold refs_match, C08.snap_of in *. cbn [sn_spans] in Hm.
  apply andb_true_iff in Hm as [H1 H2]. apply andb_true_iff. split.
  - by rewrite (Permutation_length HP).
  - eapply forallb_perm; [symmetry; exact HP | exact H2].
Qed.

Theorem refs_walk_of_corr_from steps : ∀ h refs committed impl,
  HInv h → hist_scope h steps → refs_rel refs (r_spans (h_st h)) → refs_rel committed (h_spans h) →
  all2 obs_matches (hist_run h steps) impl = true →
  refs_walk refs committed steps impl = true.
Proof.
  induction steps as [|s r IH]; intros h refs committed impl HH Hsc HR HC Hc.
  - cbn [hist_run] in Hc. apply all2_nil_inv in Hc. by subst.
  - destruct Hsc as [Hs Hsc].
    pose proof (hist_step_HInv h s HH Hs) as HH'.
    pose proof (hist_step_no_panic h s HH Hs) as Hp.
    destruct (corr_step _ _ _ _ HH Hs Hc) as (i & ii & -> & Hi & Hsn & Hii).
    cbn [refs_walk]. clear Hc.
    destruct s as [ev|keep|]; cbn [hist_step] in *.
    + destruct (try_receive (h_st h) (h_w h) ev) as [[[oc st'] w'] calls] eqn:Et. cbn [fst snd h_st] in *.
      apply obs_matches_recv_inv in Hi as (sn & -> & _). cbn [iobs_snap] in *.
      pose proof (try_receive_refines _ _ _ _ _ _ _ (hinv_st _ HH) Hs Et) as Href.
      unfold astep in Href. injection Href as Ho Ha.
      assert (Hsp : r_spans st' = match oc with Accepted => spec_step (r_spans (h_st h)) ev | _ => r_spans (h_st h) end).
      { rewrite Ho in Ha. unfold abs in Ha. cbn [a_spans a_meta] in Ha. destruct oc; injection Ha as _ Ha; by rewrite <- Ha. }
      destruct oc as [|e|]; [| |done].
      * assert (HR' : refs_rel (refs_event refs ev) (r_spans st')) by (rewrite Hsp; by apply refs_event_rel).
        rewrite (refs_match_matches _ _ _ HR' Hsn). cbn [andb].
        by apply (IH (mk_hist st' w' (h_md h) (h_spans h))).
      * assert (HR' : refs_rel refs (r_spans st')) by (by rewrite Hsp).
        rewrite (refs_match_matches _ _ _ HR' Hsn). cbn [andb].
        by apply (IH (mk_hist st' w' (h_md h) (h_spans h))).
    + unfold persist in *.
      pose proof (restore_spec (h_w h) (persist_metadata (h_st h) ∪ h_md h) (r_spans (h_st h))
                    (if keep then r_local (h_st h) else ∅)) as Hrs.
      destruct (restore _ _ _ _) as [[st' w'] regs]. cbn [fst snd h_st] in *.
      destruct Hrs as (_ & E2 & _).
      assert (HR' : refs_rel refs (r_spans st')) by (by rewrite E2).
      rewrite (refs_match_matches _ _ _ HR' Hsn). cbn [andb].
      by apply (IH (mk_hist st' w' (persist_metadata (h_st h) ∪ h_md h) (r_spans (h_st h)))).
    + pose proof (restore_spec (h_w h) (h_md h) (h_spans h) ∅) as Hrs.
      destruct (restore _ _ _ _) as [[st' w'] regs]. cbn [fst snd h_st] in *.
      destruct Hrs as (_ & E2 & _).
      assert (HR' : refs_rel committed (r_spans st')) by (by rewrite E2).
      rewrite (refs_match_matches _ _ _ HR' Hsn). cbn [andb].
      by apply (IH (mk_hist st' w' (h_md h) (h_spans h))).
Qed.

Theorem refs_ok_of_corr : ∀ steps impl,
  hist_scope hist_init steps → corr_history steps impl = true → refs_ok steps impl = true.
Proof.
  intros steps impl Hsc Hc. unfold refs_ok.
  apply (refs_walk_of_corr_from steps hist_init); [apply HInv_init | done | apply refs_rel_empty.. | exact Hc].
Qed.

(** the executable statement of [judge_c08] *)
Theorem judge_c08_ok_of_corr : ∀ steps impl,
  hist_scope hist_init steps → corr_history steps impl = true →
  ok_c08 steps impl && refs_ok steps impl = true.
Proof. intros steps impl Hsc Hc. by rewrite ok_c08_of_corr, refs_ok_of_corr. Qed.

(** * Verdicts: an implementation run that matches the model is judged [Agree] *)
Corollary judge_c06_agree_of_corr : ∀ steps impl,
  hist_scope hist_init steps → corr_history steps impl = true → judge_c06 steps impl = Agree.
Proof.
  intros steps impl Hsc Hc. unfold judge_c06.
  by rewrite (proj2 (hist_scope_b_spec _ _) Hsc), Hc, (ok_c06_of_corr _ _ Hsc Hc), (ok_abstract_of_corr _ _ Hsc Hc).
Qed.

(** C07, single-history form: no hypothesis on the history at all *)
Corollary judge_c07_agree_of_corr : ∀ steps impl,
  corr_history steps impl = true → judge_c07 steps impl = Agree.
Proof. intros steps impl Hc. unfold judge_c07. by rewrite Hc, (ok_c07_of_corr _ _ Hc). Qed.

Corollary judge_c02_state_agree_of_corr : ∀ steps impl,
  hist_scope hist_init steps → corr_history steps impl = true → judge_c02_state steps impl = Agree.
Proof.
  intros steps impl Hsc Hc. unfold judge_c02_state.
  by rewrite (proj2 (hist_scope_b_spec _ _) Hsc), Hc, (ok_abstract_of_corr _ _ Hsc Hc).
Qed.

Corollary judge_c08_agree_of_corr : ∀ steps impl,
  hist_scope hist_init steps → corr_history steps impl = true → judge_c08 steps impl = Agree.
Proof. intros steps impl Hsc Hc. unfold judge_c08. by rewrite Hc, (judge_c08_ok_of_corr _ _ Hsc Hc). Qed.

(** [judge_c02] (cut run vs uncut run) and [judge_c03] contain [ok_abstract] as one conjunct of their
    executable statement; the other conjuncts ([ok_c02] on the pair of runs, [ok_c03] and the
    [attached] flag of the Registry run) are not covered here and stay hypotheses: the
    [ok_abstract] conjunct can never be the cause of a [PropFail] when the correspondence holds. *)
Corollary judge_c02_ok_abstract_of_corr : ∀ steps impl_cut impl_uncut,
  hist_scope hist_init steps → corr_history steps impl_cut = true →
  judge_c02 steps impl_cut impl_uncut =
  judge_of (hist_scope_b hist_init steps && qcuts_b hist_init steps)
           (corr_history steps impl_cut
            && corr_history_arena (announced [] steps) (map SRecv (events_of steps)) impl_uncut)
           (ok_c02 impl_cut impl_uncut).
Proof.
  intros steps ic iu Hsc Hc. unfold judge_c02. by rewrite (ok_abstract_of_corr _ _ Hsc Hc), andb_true_r.
Qed.

Corollary judge_c02_agree_of_corr : ∀ steps impl_cut impl_uncut,
  hist_scope hist_init steps → qcuts_b hist_init steps = true →
  corr_history steps impl_cut = true →
  corr_history_arena (announced [] steps) (map SRecv (events_of steps)) impl_uncut = true →
  ok_c02 impl_cut impl_uncut = true →
  judge_c02 steps impl_cut impl_uncut = Agree.
Proof.
  intros steps ic iu Hsc Hq Hc Hu Hok. rewrite (judge_c02_ok_abstract_of_corr _ _ _ Hsc Hc).
  by rewrite (proj2 (hist_scope_b_spec _ _) Hsc), Hq, Hc, Hu, Hok.
Qed.

Corollary judge_c03_ok_abstract_of_corr : ∀ steps impl attached,
  hist_scope hist_init steps → corr_history steps impl = true →
  judge_c03 steps impl attached =
  judge_of (hist_scope_b hist_init steps && no_drop steps && stream_accepted steps)
           (corr_history steps impl) (ok_c03 snap_empty steps impl && attached).
Proof.
  intros steps impl att Hsc Hc. unfold judge_c03. by rewrite (ok_abstract_of_corr _ _ Hsc Hc), andb_true_r.
Qed.

Corollary judge_c03_agree_of_corr : ∀ steps impl attached,
  hist_scope hist_init steps → no_drop steps = true → stream_accepted steps = true →
  corr_history steps impl = true →
  ok_c03 snap_empty steps impl = true → attached = true →
  judge_c03 steps impl attached = Agree.
Proof.
  intros steps impl att Hsc Hn Ha Hc Hok ->. rewrite (judge_c03_ok_abstract_of_corr _ _ _ Hsc Hc).
  by rewrite (proj2 (hist_scope_b_spec _ _) Hsc), Hn, Ha, Hc, Hok.
Qed.

Print Assumptions ok_c06_of_corr.
Print Assumptions ok_abstract_of_corr.
Print Assumptions ok_c07_of_corr.
Print Assumptions ok_c08_of_corr.
Print Assumptions refs_ok_of_corr.
Print Assumptions judge_c08_ok_of_corr.
Print Assumptions snap_matches_unique.
Print Assumptions judge_c06_agree_of_corr.
Print Assumptions judge_c07_agree_of_corr.
Print Assumptions judge_c02_state_agree_of_corr.
Print Assumptions judge_c08_agree_of_corr.
Print Assumptions judge_c02_agree_of_corr.
Print Assumptions judge_c03_agree_of_corr.
