(** Correspondence judges for C19 (evaluated by [vm_compute] on cases written by the harness).

    [judge_registry_mt]: the Registry model with per-thread span stacks against a recording layer on
    the real Registry driven by several real threads under a turn-taking scheduler (the execution
    is the schedule, so model and implementation run the same sequence of calls).
    [judge_sched]: the captured storage of such a scheduled execution against the layer model
    ([corr]) and, on the implementation's own output ([ok]): equal to the specification's storage,
    and well-formed ([wf_b], the boolean form of [storage_wf]).
    [judge_free]: free-running threads (no scheduler: the callbacks really overlap).  The order in
    which items of different threads reach the storage is not determined, so storages are compared
    through their per-thread views ([views]): per thread its spans and events in storage order,
    with payloads, and with every link (parent, follows-from) named by the marker values the items
    carry instead of by storage ids.  The model and the specification are evaluated on one
    linearization of the same per-thread programs; that the views do not depend on the
    linearization for the programs the harness generates (threads use their own spans and, as
    explicit parents / follows-from targets / entered spans, spans the main thread created before
    they started) is an assumption of this judge, checked only by the runs themselves. *)
From TT Require Export Judge.C05 Capture.Concurrent.
From TT Require Export Capture.Solo.
From TT Require Import Capture.Queries Capture.QueriesProofs Tunnel.TypesProofs Capture.LayerProofs Guest.ProgramProofs Capture.SoloProofs Capture.SoloOpen Capture.Footprint.
From Coq Require Import Sorting.Sorted.

(** * [storage_wf], executable *)
Definition iotaN (n : nat) : list N := map N.of_nat (seq 0 n).
Definition memN (x : N) (l : list N) : bool := existsb (N.eqb x) l.
Definition optN_eqb : option N -> option N -> bool := option_eqb N.eqb.
Definition is_none {A} (x : option A) : bool := match x with None => true | Some _ => false end.
Fixpoint sortedb (l : list N) : bool :=
  match l with
  | a :: ((b :: _) as r) => (a <? b) && sortedb r
  | _ => true
  end.

Definition wf_b (st : cstorage) : bool :=
  let S := iotaN (List.length (st_spans st)) in
  let E := iotaN (List.length (st_events st)) in
  let par := parent_of st in
  let epar := ev_parent_of st in
  forallb (fun s => match get_span st s with Some r => sp_id r =? s | None => true end) S
  && forallb (fun e => match get_event st e with Some r => ev_id r =? e | None => true end) E
  && forallb (fun c => match par c with Some p => p <? c | None => true end) S
  && forallb (fun p =>
       match get_span st p with
       | Some r =>
           forallb (fun c => optN_eqb (par c) (Some p)) (sp_child_ids r)
           && forallb (fun c => negb (optN_eqb (par c) (Some p)) || memN c (sp_child_ids r)) S
           && sortedb (sp_child_ids r)
           && forallb (fun e => optN_eqb (epar e) (Some p)) (sp_event_ids r)
           && forallb (fun e => negb (optN_eqb (epar e) (Some p)) || memN e (sp_event_ids r)) E
           && sortedb (sp_event_ids r)
           && forallb (fun t => t <? nspans st) (sp_follows_from_ids r)
       | None => true
       end) S
  && forallb (fun s => memN s S && is_none (par s)) (st_root_span_ids st)
  && forallb (fun s => negb (is_none (par s)) || memN s (st_root_span_ids st)) S
  && sortedb (st_root_span_ids st)
  && forallb (fun e => match epar e with Some p => p <? nspans st | None => true end) E
  && forallb (fun e => memN e E && is_none (epar e)) (st_root_event_ids st)
  && forallb (fun e => negb (is_none (epar e)) || memN e (st_root_event_ids st)) E
  && sortedb (st_root_event_ids st).

Lemma iotaN_in n x : In x (iotaN n) <-> x < N.of_nat n.
Proof.
  unfold iotaN. rewrite in_map_iff. split.
  - intros (k & <- & Hk). apply in_seq in Hk. lia.
  - intros H. exists (N.to_nat x). split; [lia|]. apply in_seq. lia.
Qed.
Lemma memN_in x l : memN x l = true <-> In x l.
Proof.
  unfold memN. rewrite existsb_exists. split.
  - intros (y & Hy & E). apply N.eqb_eq in E. subst. exact Hy.
  - intros H. exists x. split; [exact H | apply N.eqb_refl].
Qed.
Lemma optN_eqb_eq a b : optN_eqb a b = true <-> a = b.
Proof. apply option_eqb_spec. apply N.eqb_eq. Qed.
Lemma is_none_eq {A} (x : option A) : is_none x = true <-> x = None.
Proof. destruct x; cbn; split; congruence. Qed.

Lemma sortedb_sound l : sortedb l = true -> StronglySorted N.lt l.
Proof.
  induction l as [|a l IH]; intros H; [constructor|].
  assert (Hl : sortedb l = true).
  { destruct l as [|b l]; [reflexivity|]. cbn [sortedb] in H. apply andb_true_iff in H as [_ H]. exact H. }
  specialize (IH Hl). constructor; [exact IH|].
  destruct l as [|b l]; [constructor|].
  cbn [sortedb] in H. apply andb_true_iff in H as [H _]. apply N.ltb_lt in H.
  constructor; [exact H|]. inversion IH as [|? ? _ Hb]; subst.
  eapply Forall_impl; [|exact Hb]. intros c Hc. lia.
Qed.

Lemma get_span_lt (st : cstorage) s r : get_span st s = Some r -> s < N.of_nat (List.length (st_spans st)).
Proof.
  unfold get_span. intros H. assert (N.to_nat s < List.length (st_spans st))%nat by (apply nth_error_Some; congruence). lia.
Qed.
Lemma get_event_lt (st : cstorage) e r : get_event st e = Some r -> e < N.of_nat (List.length (st_events st)).
Proof.
  unfold get_event. intros H. assert (N.to_nat e < List.length (st_events st))%nat by (apply nth_error_Some; congruence). lia.
Qed.
Lemma parent_of_lt (st : cstorage) c p : parent_of st c = Some p -> c < N.of_nat (List.length (st_spans st)).
Proof. unfold parent_of. destruct (get_span st c) as [r|] eqn:E; [|discriminate]. intros _. eapply get_span_lt; eauto. Qed.
Lemma ev_parent_of_lt (st : cstorage) e p : ev_parent_of st e = Some p -> e < N.of_nat (List.length (st_events st)).
Proof. unfold ev_parent_of. destruct (get_event st e) as [r|] eqn:E; [|discriminate]. intros _. eapply get_event_lt; eauto. Qed.

(** the boolean check is at least as strong as the invariant of C17 *)
Theorem wf_b_sound st : wf_b st = true -> storage_wf st.
Proof.
  unfold wf_b. intros H.
  repeat match type of H with (_ && _) = true => let H' := fresh "H" in apply andb_true_iff in H as [H H'] end.
  repeat match goal with X : forallb _ _ = true |- _ => rewrite forallb_forall in X end.
  assert (Hsp : forall p r, get_span st p = Some r ->
            (forall c, In c (sp_child_ids r) -> parent_of st c = Some p) /\
            (forall c, parent_of st c = Some p -> In c (sp_child_ids r)) /\
            StronglySorted N.lt (sp_child_ids r) /\
            (forall e, In e (sp_event_ids r) -> ev_parent_of st e = Some p) /\
            (forall e, ev_parent_of st e = Some p -> In e (sp_event_ids r)) /\
            StronglySorted N.lt (sp_event_ids r) /\
            (forall t, In t (sp_follows_from_ids r) -> t < nspans st)).
  { intros p r Hp.
    match goal with X : forall x, In x _ -> match get_span st x with _ => _ end = true |- _ =>
      pose proof (X p (proj2 (iotaN_in _ _) (get_span_lt _ _ _ Hp))) as Hq end.
    rewrite Hp in Hq.
    repeat match type of Hq with (_ && _) = true => let H' := fresh "Q" in apply andb_true_iff in Hq as [Hq H'] end.
    repeat match goal with X : forallb _ _ = true |- _ => rewrite forallb_forall in X end.
    split; [|split; [|split; [|split; [|split; [|split]]]]].
    - intros c Hc. apply optN_eqb_eq. auto.
    - intros c Hc. pose proof (parent_of_lt _ _ _ Hc) as Hlt. apply iotaN_in in Hlt.
      match goal with X : forall x, In x _ -> negb (optN_eqb (parent_of st x) (Some p)) || memN x (sp_child_ids r) = true |- _ =>
        specialize (X c Hlt); rewrite (proj2 (optN_eqb_eq _ _) Hc) in X; cbn in X; apply memN_in in X; exact X end.
    - apply sortedb_sound. assumption.
    - intros e He. apply optN_eqb_eq. auto.
    - intros e He. pose proof (ev_parent_of_lt _ _ _ He) as Hlt. apply iotaN_in in Hlt.
      match goal with X : forall x, In x _ -> negb (optN_eqb (ev_parent_of st x) (Some p)) || memN x (sp_event_ids r) = true |- _ =>
        specialize (X e Hlt); rewrite (proj2 (optN_eqb_eq _ _) He) in X; cbn in X; apply memN_in in X; exact X end.
    - apply sortedb_sound. assumption.
    - intros t Ht. apply N.ltb_lt. auto. }
  constructor.
  - intros s r Hs. pose proof (get_span_lt _ _ _ Hs) as Hlt. apply iotaN_in in Hlt.
    match goal with X : forall x, In x _ -> match get_span st x with Some r => sp_id r =? x | None => true end = true |- _ =>
      specialize (X s Hlt); rewrite Hs in X; apply N.eqb_eq in X; exact X end.
  - intros e r He. pose proof (get_event_lt _ _ _ He) as Hlt. apply iotaN_in in Hlt.
    match goal with X : forall x, In x _ -> match get_event st x with Some r => ev_id r =? x | None => true end = true |- _ =>
      specialize (X e Hlt); rewrite He in X; apply N.eqb_eq in X; exact X end.
  - intros c p Hc. pose proof (parent_of_lt _ _ _ Hc) as Hlt. apply iotaN_in in Hlt.
    match goal with X : forall x, In x _ -> match parent_of st x with Some p => p <? x | None => true end = true |- _ =>
      specialize (X c Hlt); rewrite Hc in X; apply N.ltb_lt in X; exact X end.
  - intros p r c Hp. destruct (Hsp p r Hp) as (A & B & _). split; auto.
  - intros p r Hp. destruct (Hsp p r Hp) as (_ & _ & A & _). exact A.
  - intros s. unfold is_span, nspans. split.
    + intros Hs.
      match goal with X : forall x, In x (st_root_span_ids st) -> _ && _ = true |- _ =>
        specialize (X s Hs); apply andb_true_iff in X as [X1 X2] end.
      apply memN_in, iotaN_in in X1. apply is_none_eq in X2. auto.
    + intros [Hlt Hn]. apply iotaN_in in Hlt.
      match goal with X : forall x, In x _ -> negb (is_none (parent_of st x)) || memN x (st_root_span_ids st) = true |- _ =>
        specialize (X s Hlt); rewrite Hn in X; cbn in X; apply memN_in in X; exact X end.
  - apply sortedb_sound. assumption.
  - intros e p He. unfold is_span. pose proof (ev_parent_of_lt _ _ _ He) as Hlt. apply iotaN_in in Hlt.
    match goal with X : forall x, In x _ -> match ev_parent_of st x with Some p => p <? nspans st | None => true end = true |- _ =>
      specialize (X e Hlt); rewrite He in X; apply N.ltb_lt in X; exact X end.
  - intros p r e Hp. destruct (Hsp p r Hp) as (_ & _ & _ & A & B & _). split; auto.
  - intros p r Hp. destruct (Hsp p r Hp) as (_ & _ & _ & _ & _ & A & _). exact A.
  - intros e. unfold is_event, nevents. split.
    + intros He.
      match goal with X : forall x, In x (st_root_event_ids st) -> _ && _ = true |- _ =>
        specialize (X e He); apply andb_true_iff in X as [X1 X2] end.
      apply memN_in, iotaN_in in X1. apply is_none_eq in X2. auto.
    + intros [Hlt Hn]. apply iotaN_in in Hlt.
      match goal with X : forall x, In x _ -> negb (is_none (ev_parent_of st x)) || memN x (st_root_event_ids st) = true |- _ =>
        specialize (X e Hlt); rewrite Hn in X; cbn in X; apply memN_in in X; exact X end.
  - apply sortedb_sound. assumption.
  - intros s r t Hs Ht. unfold is_span. destruct (Hsp s r Hs) as (_ & _ & _ & _ & _ & _ & A). auto.
Qed.

(** * Scheduled executions *)
Definition judge_registry_mt (p : prog) (ids : list N) (impl : option (list cb_obs)) : verdict :=
  judge_of (wf_prog_b p)
           (option_eqb (list_eqb cb_obs_eqb) (trace_of (reg_trace ids p)) impl)
           (match impl with Some t => forallb obs_consistent t | None => false end).

Definition judge_sched (p : prog) (ids : list N) (f : fexpr) (impl : option cstorage) : verdict :=
  judge_of (wf_prog_b p)
           (option_eqb cstorage_eqb (storage_of (layer_run (feval f) ids p)) impl)
           (match impl with
            | Some st => cstorage_eqb (spec_storage (feval f) ids p) st && wf_b st
            | None => false
            end).

(** * Free-running threads: per-thread views *)

(** the marker an item carries: its first two values, (thread, sequence number within the thread) *)
Definition marker (vs : tvalues) : option (Z * Z) :=
  match vs with
  | (_, VUInt t) :: (_, VUInt n) :: _ => Some (t, n)
  | _ => None
  end.
Definition span_marker (st : cstorage) (i : N) : option (Z * Z) :=
  match get_span st i with Some r => marker (spl_values (sp_payload r)) | None => None end.
Definition of_thread_m (t : Z) (m : option (Z * Z)) : bool :=
  match m with Some (t', _) => Z.eqb t' t | None => false end.

Definition nspan := (span_payload * (option (option (Z * Z)) * list (option (Z * Z))))%type.
Definition nevent := (event_payload * option (option (Z * Z)))%type.
Definition norm_span (st : cstorage) (r : Storage.span_rec span_payload) : nspan :=
  (sp_payload r, (option_map (span_marker st) (sp_parent_id r), map (span_marker st) (sp_follows_from_ids r))).
Definition norm_event (st : cstorage) (e : Storage.event_rec event_payload) : nevent :=
  (ev_payload e, option_map (span_marker st) (ev_parent_id e)).

Definition thread_view (st : cstorage) (t : Z) : list nspan * list nevent :=
  (map (norm_span st) (List.filter (fun r => of_thread_m t (marker (spl_values (sp_payload r)))) (st_spans st)),
   map (norm_event st) (List.filter (fun e => of_thread_m t (marker (epl_values (ev_payload e)))) (st_events st))).

(** the views of threads [0 .. T-1], and how many items are in none of them *)
Definition views (T : nat) (st : cstorage) : list (list nspan * list nevent) * N :=
  let vs := map (fun t => thread_view st (Z.of_nat t)) (seq 0 T) in
  let seen := fold_right (fun v acc => List.length (fst v) + List.length (snd v) + acc)%nat 0%nat vs in
  (vs, N.of_nat (List.length (st_spans st) + List.length (st_events st) - seen)).

Definition mark_eqb : option (Z * Z) -> option (Z * Z) -> bool := option_eqb (pair_eqb Z.eqb Z.eqb).
Definition nspan_eqb : nspan -> nspan -> bool :=
  pair_eqb spl_eqb (pair_eqb (option_eqb mark_eqb) (list_eqb mark_eqb)).
Definition nevent_eqb : nevent -> nevent -> bool := pair_eqb epl_eqb (option_eqb mark_eqb).
Definition views_eqb (a b : list (list nspan * list nevent) * N) : bool :=
  pair_eqb (list_eqb (pair_eqb (list_eqb nspan_eqb) (list_eqb nevent_eqb))) N.eqb a b.

Lemma mark_eqb_spec a b : mark_eqb a b = true <-> a = b.
Proof. apply option_eqb_spec, pair_eqb_spec; apply Z.eqb_eq. Qed.
Lemma nspan_eqb_spec a b : nspan_eqb a b = true <-> a = b.
Proof.
  apply pair_eqb_spec; [apply spl_eqb_spec|]. apply pair_eqb_spec.
  - apply option_eqb_spec, mark_eqb_spec.
  - apply list_eqb_spec, mark_eqb_spec.
Qed.
Lemma nevent_eqb_spec a b : nevent_eqb a b = true <-> a = b.
Proof. apply pair_eqb_spec; [apply epl_eqb_spec | apply option_eqb_spec, mark_eqb_spec]. Qed.
Lemma views_eqb_spec a b : views_eqb a b = true <-> a = b.
Proof.
  apply pair_eqb_spec; [|apply N.eqb_eq]. apply list_eqb_spec, pair_eqb_spec; apply list_eqb_spec.
  - apply nspan_eqb_spec.
  - apply nevent_eqb_spec.
Qed.

(** ** what the implementation's storage says about a worker thread, in the vocabulary of [tview]
    ([Capture/Solo.v]): the markers the harness hands out are (thread, rank among the thread's spans)
    for spans and (thread, rank among the thread's events) for events, i.e. the marker of a span is
    its [span_ref] *)
Definition tspan := (cs_data * tvalues * N * N * option (nat * nat) * list (nat * nat))%type.
Definition tevent := (cs_data * tvalues * option (nat * nat))%type.

Definition mark_nat (m : option (Z * Z)) : nat * nat :=
  match m with Some (a, b) => (Z.to_nat a, Z.to_nat b) | None => (0, 0)%nat end.   (* never used when nothing is unmarked, which [judge_free] checks *)
Definition impl_tview (st : cstorage) (t : nat) : list tspan * list tevent :=
  (map (fun r : Storage.span_rec span_payload =>
          (spl_meta (sp_payload r), spl_values (sp_payload r), spl_entered (sp_payload r), spl_exited (sp_payload r),
           option_map (fun q => mark_nat (span_marker st q)) (sp_parent_id r),
           map (fun q => mark_nat (span_marker st q)) (sp_follows_from_ids r)))
       (List.filter (fun r => of_thread_m (Z.of_nat t) (marker (spl_values (sp_payload r)))) (st_spans st)),
   map (fun e : Storage.event_rec event_payload =>
          (epl_meta (ev_payload e), epl_values (ev_payload e),
           option_map (fun q => mark_nat (span_marker st q)) (ev_parent_id e)))
       (List.filter (fun e => of_thread_m (Z.of_nat t) (marker (epl_values (ev_payload e)))) (st_events st))).

Definition ref_eqb : nat * nat -> nat * nat -> bool := pair_eqb Nat.eqb Nat.eqb.
Definition tspan_eqb : tspan -> tspan -> bool :=
  pair_eqb (pair_eqb (pair_eqb (pair_eqb (pair_eqb cs_data_eqb tvalues_eqb) N.eqb) N.eqb) (option_eqb ref_eqb))
           (list_eqb ref_eqb).
Definition tevent_eqb : tevent -> tevent -> bool :=
  pair_eqb (pair_eqb cs_data_eqb tvalues_eqb) (option_eqb ref_eqb).
Definition tview_eqb : list tspan * list tevent -> list tspan * list tevent -> bool :=
  pair_eqb (list_eqb tspan_eqb) (list_eqb tevent_eqb).

Lemma ref_eqb_spec a b : ref_eqb a b = true <-> a = b.
Proof. apply pair_eqb_spec; apply Nat.eqb_eq. Qed.
Lemma tview_eqb_spec a b : tview_eqb a b = true <-> a = b.
Proof.
  apply pair_eqb_spec; apply list_eqb_spec.
  - repeat apply pair_eqb_spec; try apply cs_data_eqb_spec; try apply tvalues_eqb_spec; try apply N.eqb_eq.
    + apply option_eqb_spec, ref_eqb_spec.
    + apply list_eqb_spec, ref_eqb_spec.
  - repeat apply pair_eqb_spec; try apply cs_data_eqb_spec; try apply tvalues_eqb_spec.
    apply option_eqb_spec, ref_eqb_spec.
Qed.

(** the hypotheses of the non-interference theorem ([Props/C19.v], [C19_worker_view_is_solo_view]),
    checked for every worker: its operations use only its own and the main thread's spans, nobody
    else uses its spans, and its solo execution is one the API permits *)
Definition workers (T : nat) : list nat := seq 1 (T - 1).
Definition free_scope (T : nat) (p : prog) : bool :=
  wf_prog_b p && forallb (fun t => isolated t p && wf_prog_b (solo t p)) (workers T).

(** the expected view of every worker - by the theorem the same for every schedule - against what
    the implementation's storage says *)
Definition tspan_meta (e : tspan) : cs_data := fst (fst (fst (fst (fst e)))).
(** the forest lists every span; the storage holds those the filter enables (events are filtered in the
    forest already) *)
Definition captured_view (f : cs_data -> bool) (v : list tspan * list tevent) : list tspan * list tevent :=
  (List.filter (fun e => f (tspan_meta e)) (fst v), snd v).
(** closed flags of the captured spans of [t]: a span is closed iff it is not open at the end of the
    execution ([oview]: the open flags of all spans of [t], in creation order) *)
Definition expected_closed (t : nat) (f : cs_data -> bool) (p : prog) : list bool :=
  map (fun x => negb (snd x))
      (List.filter (fun x => f (tspan_meta (fst x)))
                   (combine (fst (tview_of t f [] p))
                            (oview t (owners_of (p_sites p) (p_ops p)) (spec_run f [] p)))).
Definition impl_closed (st : cstorage) (t : nat) : list bool :=
  map (fun r : Storage.span_rec span_payload => spl_closed (sp_payload r))
      (List.filter (fun r => of_thread_m (Z.of_nat t) (marker (spl_values (sp_payload r)))) (st_spans st)).

Definition workers_ok (T : nat) (p : prog) (f : fexpr) (st : cstorage) : bool :=
  forallb (fun t => tview_eqb (captured_view (feval f) (tview_of t (feval f) [] p)) (impl_tview st t)
                    && list_eqb Bool.eqb (expected_closed t (feval f) p) (impl_closed st t)) (workers T).

Lemma forallb_ext_in' {A} (P Q : A -> bool) l : (forall x, In x l -> P x = Q x) -> forallb P l = forallb Q l.
Proof.
  induction l as [|a l IH]; intros H; [reflexivity|]. cbn. rewrite (H a (or_introl eq_refl)), IH; [reflexivity|].
  intros x Hx. apply H. right. exact Hx.
Qed.

(** ** the main thread's spans: their enter / exit counters are sums over all threads; by
    [C05_enter_exit_counts] they are the numbers of enter / exit operations on the span in the
    execution, which no reordering of the operations changes ([count_ops_perm]) *)
Fixpoint nth_owned (t : nat) (ow : list nat) (n : nat) (base : nat) : option nat :=
  match ow with
  | [] => None
  | o :: r => if Nat.eqb o t then (match n with O => Some base | S n' => nth_owned t r n' (S base) end)
              else nth_owned t r n (S base)
  end.
Definition main_counts_ok (p : prog) (st : cstorage) : bool :=
  let ow := owners_of (p_sites p) (p_ops p) in
  forallb (fun r : Storage.span_rec span_payload =>
             match marker (spl_values (sp_payload r)) with
             | Some (0%Z, n) =>
                 match nth_owned 0 ow (Z.to_nat n) 0 with
                 | Some k => (spl_entered (sp_payload r) =? count_ops (is_enter k) (p_ops p))
                             && (spl_exited (sp_payload r) =? count_ops (is_exit k) (p_ops p))
                 | None => false
                 end
             | _ => true
             end) (st_spans st).

Theorem main_counts_ok_order_independent p p' st :
  p_sites p' = p_sites p -> owners_of (p_sites p) (p_ops p') = owners_of (p_sites p) (p_ops p) ->
  Permutation.Permutation (p_ops p) (p_ops p') ->
  main_counts_ok p' st = main_counts_ok p st.
Proof.
  intros Es Eo Hperm. unfold main_counts_ok. rewrite Es, Eo. apply forallb_ext_in'. intros r _.
  destruct (marker (spl_values (sp_payload r))) as [[[|?|?] n]|]; try reflexivity.
  destruct (nth_owned 0 (owners_of (p_sites p) (p_ops p)) (Z.to_nat n) 0) as [k|]; [|reflexivity].
  rewrite (count_ops_perm (is_enter k) _ _ Hperm), (count_ops_perm (is_exit k) _ _ Hperm). reflexivity.
Qed.

(** [p]: one linearization of the per-thread programs (the harness uses: main's prelude, then each
    worker's whole program in turn, then main's postlude); [T]: number of threads *)
Definition judge_free (T : nat) (p : prog) (f : fexpr) (impl : option cstorage) : verdict :=
  judge_of (free_scope T p)
           (option_eqb views_eqb (option_map (views T) (storage_of (layer_run (feval f) [] p)))
                       (option_map (views T) impl))
           (match impl with
            | Some st => views_eqb (views T (spec_storage (feval f) [] p)) (views T st)
                         && (snd (views T st) =? 0) && wf_b st && workers_ok T p f st && main_counts_ok p st
            | None => false
            end).

(** the expected worker views do not depend on which linearization the harness picked: any other
    execution with the same solo executions (that is, any other interleaving of the same per-thread
    programs) has the same views *)
Theorem workers_ok_schedule_independent T p p' f st :
  free_scope T p = true -> free_scope T p' = true ->
  (forall t, In t (workers T) -> solo t p' = solo t p) ->
  workers_ok T p' f st = workers_ok T p f st.
Proof.
  intros H H' Hs. unfold workers_ok. apply forallb_ext_in'. intros t Ht.
  unfold free_scope in H, H'. apply andb_true_iff in H as [W F]. apply andb_true_iff in H' as [W' F'].
  rewrite forallb_forall in F, F'. specialize (F t Ht). specialize (F' t Ht).
  apply andb_true_iff in F as [I S]. apply andb_true_iff in F' as [I' S'].
  unfold expected_closed.
  rewrite (tview_solo t (feval f) [] [] p W S I), (tview_solo t (feval f) [] [] p' W' S' I').
  rewrite (oview_solo t (feval f) [] [] p W S I), (oview_solo t (feval f) [] [] p' W' S' I').
  assert (Esites : p_sites p' = p_sites p) by exact (f_equal p_sites (Hs t Ht)).
  rewrite (Hs t Ht), Esites. reflexivity.
Qed.

(** the model's own output passes [judge_sched]: for every execution the API permits, an
    implementation that does what the model says is judged [Agree] *)
Theorem judge_sched_ok_on_model p ids f :
  wf_prog_b p = true -> wf_b (spec_storage (feval f) ids p) = true ->
  judge_sched p ids f (storage_of (layer_run (feval f) ids p)) = Agree.
Proof.
  intros Hwf Hb. unfold judge_sched, judge_of. rewrite Hwf. cbn [negb].
  rewrite (capture_refines_spec (feval f) ids p (wf_prog_stale_of_wf p Hwf)).
  rewrite (proj2 (cstorage_eqb_spec _ _) eq_refl), Hb. cbn.
  rewrite (proj2 (cstorage_eqb_spec _ _) eq_refl). reflexivity.
Qed.

(** [Agree] pins the implementation's storage to the model's and to the specification's, and makes it
    well-formed *)
Theorem judge_sched_agree p ids f impl :
  judge_sched p ids f impl = Agree ->
  impl = storage_of (layer_run (feval f) ids p) /\ impl = Some (spec_storage (feval f) ids p) /\
  storage_wf (spec_storage (feval f) ids p).
Proof.
  unfold judge_sched, judge_of. destruct (wf_prog_b p); [|discriminate]. cbn [negb].
  destruct impl as [st|]; [|discriminate].
  destruct (cstorage_eqb (spec_storage (feval f) ids p) st && wf_b st) eqn:E; [|discriminate]. cbn [negb].
  destruct (option_eqb cstorage_eqb (storage_of (layer_run (feval f) ids p)) (Some st)) eqn:E2; [|discriminate].
  intros _. apply andb_true_iff in E as [E1 E3]. apply cstorage_eqb_spec in E1. subst st.
  apply (option_eqb_spec _ cstorage_eqb_spec) in E2. split; [congruence|]. split; [reflexivity|].
  apply wf_b_sound. exact E3.
Qed.
