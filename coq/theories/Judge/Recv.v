(** Correspondence between the receiver model and the implementation on whole histories
    (shared by C02-C08).  The harness prints what the implementation did after every step;
    [corr_history] replays the same steps on the model and compares. *)
From stdpp Require Import gmap.
From TT Require Export Tunnel.ReceiverHistory.

Record snap := mk_snap {
  sn_meta : list (N * cs_data);
  sn_spans : list (N * span_data);
  sn_local : list (N * N);
  sn_uncommitted : list N;
  sn_entered : list (N * N) }.

Inductive iobs :=
| IRecv (o : outcome) (calls : list hcall) (s : snap)
| IPersist (exits : list hcall) (spans : list (N * span_data)) (md : list (N * cs_data))
           (regs : list hcall) (s : snap)
| IDrop (calls : list hcall) (regs : list hcall) (s : snap).

Definition span_data_eqb (a b : span_data) : bool :=
  N.eqb (sd_meta a) (sd_meta b) && option_eqb N.eqb (sd_parent a) (sd_parent b)
  && N.eqb (sd_refs a) (sd_refs b) && tvalues_eqb (sd_values a) (sd_values b).

Definition rerror_eqb (a b : rerror) : bool :=
  match a, b with
  | UnknownMeta x, UnknownMeta y | UnknownSpan x, UnknownSpan y | TooMany x, TooMany y => N.eqb x y
  | _, _ => false
  end.
Definition outcome_eqb (a b : outcome) : bool :=
  match a, b with
  | Accepted, Accepted | Panicked, Panicked => true
  | Rejected x, Rejected y => rerror_eqb x y
  | _, _ => false
  end.
Definition pkind_eqb (a b : pkind) : bool :=
  match a, b with
  | PCtx, PCtx | PRoot, PRoot => true
  | PExplicit x, PExplicit y => N.eqb x y
  | _, _ => false
  end.
Definition hcall_eqb (a b : hcall) : bool :=
  match a, b with
  | HRegister x, HRegister y => cs_data_eqb x y
  | HNewSpan h m p v, HNewSpan h' m' p' v' =>
      N.eqb h h' && cs_data_eqb m m' && pkind_eqb p p' && tvalues_eqb v v'
  | HRecord h v, HRecord h' v' => N.eqb h h' && tvalues_eqb v v'
  | HFollows a1 b1, HFollows a2 b2 => N.eqb a1 a2 && N.eqb b1 b2
  | HEvent m p v, HEvent m' p' v' => cs_data_eqb m m' && pkind_eqb p p' && tvalues_eqb v v'
  | HEnter x, HEnter y | HExit x, HExit y | HTryClose x, HTryClose y => N.eqb x y
  | _, _ => false
  end.
Definition calls_eqb := list_eqb hcall_eqb.

(** multiset equality of two batches whose order the implementation does not fix *)
Fixpoint remove_first {A} (eqb : A -> A -> bool) (x : A) (l : list A) : option (list A) :=
  match l with
  | [] => None
  | y :: r => if eqb x y then Some r
              else match remove_first eqb x r with Some r' => Some (y :: r') | None => None end
  end.
Fixpoint perm_eqb {A} (eqb : A -> A -> bool) (a b : list A) : bool :=
  match a with
  | [] => match b with [] => true | _ => false end
  | x :: r => match remove_first eqb x b with Some b' => perm_eqb eqb r b' | None => false end
  end.

Definition is_exit (c : hcall) := match c with HExit _ => true | _ => false end.
Definition is_close (c : hcall) := match c with HTryClose _ => true | _ => false end.
(** exits followed by closes, nothing else *)
Fixpoint exits_before_closes (seen_close : bool) (F : list hcall) : bool :=
  match F with
  | [] => true
  | HExit _ :: r => negb seen_close && exits_before_closes false r
  | HTryClose _ :: r => exits_before_closes true r
  | _ => false
  end.
(** a finalize batch: exits (any order) followed by closes (any order); [b] is the implementation's
    batch in the order in which the calls were made ([batch_eqb_fin_reorder] in RecvProofs.v: the
    relation checked is [fin_reorder] of Tunnel/ReceiverOrder.v, for which C04 and C08 are proved) *)
Definition batch_eqb (a b : list hcall) : bool :=
  perm_eqb hcall_eqb (List.filter is_exit a) (List.filter is_exit b)
  && perm_eqb hcall_eqb (List.filter is_close a) (List.filter is_close b)
  && N.eqb (N.of_nat (List.length a)) (N.of_nat (List.length b))
  && forallb (fun c => is_exit c || is_close c) b
  && exits_before_closes false b.

Fixpoint strictly_ascending (l : list N) : bool :=
  match l with
  | a :: ((b :: _) as r) => (a <? b)%N && strictly_ascending r
  | _ => true
  end.

Definition map_matches {V} (eqb : V -> V -> bool) (m : gmap N V) (l : list (N * V)) : bool :=
  N.eqb (N.of_nat (size m)) (N.of_nat (List.length l))
  && strictly_ascending (map fst l)
  && forallb (fun kv => match m !! fst kv with Some v => eqb v (snd kv) | None => false end) l.

Definition set_matches (s : gset N) (l : list N) : bool :=
  N.eqb (N.of_nat (size s)) (N.of_nat (List.length l))
  && strictly_ascending l
  && forallb (fun k => bool_decide (k ∈ s)) l.

Definition snap_matches (st : rstate) (s : snap) : bool :=
  map_matches cs_data_eqb (r_meta st) (sn_meta s)
  && map_matches span_data_eqb (r_spans st) (sn_spans s)
  && map_matches N.eqb (r_local st) (sn_local s)
  && set_matches (r_uncommitted st) (sn_uncommitted s)
  && map_matches N.eqb (r_entered st) (sn_entered s).

Definition obs_matches (m : mobs) (i : iobs) : bool :=
  match m, i with
  | MRecv o calls st, IRecv o' calls' s =>
      outcome_eqb o o' && calls_eqb calls calls' && snap_matches st s
  | MPersist exits spans md regs st, IPersist exits' spans' md' regs' s =>
      batch_eqb exits exits' && map_matches span_data_eqb spans spans'
      && map_matches cs_data_eqb md md' && perm_eqb hcall_eqb regs regs' && snap_matches st s
  | MDrop calls regs st, IDrop calls' regs' s =>
      batch_eqb calls calls' && perm_eqb hcall_eqb regs regs' && snap_matches st s
  | _, _ => false
  end.

Fixpoint all2 {A B} (f : A -> B -> bool) (a : list A) (b : list B) : bool :=
  match a, b with
  | [], [] => true
  | x :: a', y :: b' => f x y && all2 f a' b'
  | _, _ => false
  end.

Definition corr_history (steps : list hstep) (impl : list iobs) : bool :=
  all2 obs_matches (hist_run hist_init steps) impl.

(** index of the first disagreeing step, for replays *)
Fixpoint first_mismatch (m : list mobs) (i : list iobs) (n : N) : option N :=
  match m, i with
  | [], [] => None
  | x :: m', y :: i' => if obs_matches x y then first_mismatch m' i' (n + 1) else Some n
  | _, _ => Some n
  end.
