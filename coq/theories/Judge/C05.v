(** Correspondence judges for C05 (evaluated by [vm_compute] on cases written by the harness).

    [judge_registry]: the Registry model's callback trace, with what [Context] answers inside each
    callback, against a recording [Layer] on the real [tracing_subscriber::Registry]
    (environment model; there is no property statement to evaluate, so [ok] only checks that the
    implementation's trace is internally consistent with its own answers).
    [judge_capture]: the storage of [Registry + CaptureLayer (+ with_filter)] dumped through the
    public API against the model ([corr]) and against the reference specification ([ok]). *)
From TT Require Export Base.Worst Capture.LayerSpec.
From TT Require Import Tunnel.TypesProofs.

(** * Boolean equalities *)
Definition cb_obs_eqb (a b : cb_obs) : bool :=
  N.eqb (ob_tag a) (ob_tag b) && opt_nat_eqb (ob_id a) (ob_id b)
  && Bool.eqb (ob_present a) (ob_present b) && list_eqb Nat.eqb (ob_scope a) (ob_scope b)
  && opt_nat_eqb (ob_target a) (ob_target b) && opt_nat_eqb (ob_current a) (ob_current b).

Definition spl_eqb (a b : span_payload) : bool :=
  cs_data_eqb (spl_meta a) (spl_meta b) && tvalues_eqb (spl_values a) (spl_values b)
  && N.eqb (spl_entered a) (spl_entered b) && N.eqb (spl_exited a) (spl_exited b)
  && Bool.eqb (spl_closed a) (spl_closed b).
Definition epl_eqb (a b : event_payload) : bool :=
  cs_data_eqb (epl_meta a) (epl_meta b) && tvalues_eqb (epl_values a) (epl_values b).

Definition span_rec_eqb (a b : span_rec span_payload) : bool :=
  spl_eqb (sp_payload a) (sp_payload b) && N.eqb (sp_id a) (sp_id b)
  && option_eqb N.eqb (sp_parent_id a) (sp_parent_id b)
  && list_eqb N.eqb (sp_child_ids a) (sp_child_ids b)
  && list_eqb N.eqb (sp_event_ids a) (sp_event_ids b)
  && list_eqb N.eqb (sp_follows_from_ids a) (sp_follows_from_ids b).
Definition event_rec_eqb (a b : event_rec event_payload) : bool :=
  epl_eqb (ev_payload a) (ev_payload b) && N.eqb (ev_id a) (ev_id b)
  && option_eqb N.eqb (ev_parent_id a) (ev_parent_id b).

Definition cstorage_eqb (a b : cstorage) : bool :=
  list_eqb span_rec_eqb (st_spans a) (st_spans b)
  && list_eqb event_rec_eqb (st_events a) (st_events b)
  && list_eqb N.eqb (st_root_span_ids a) (st_root_span_ids b)
  && list_eqb N.eqb (st_root_event_ids a) (st_root_event_ids b).

Ltac split_andb H :=
  repeat match type of H with
         | (_ && _) = true => let H1 := fresh H in apply andb_true_iff in H as [H H1]
         end.

Lemma nat_eqb_spec a b : Nat.eqb a b = true <-> a = b.
Proof. apply Nat.eqb_eq. Qed.
Lemma n_eqb_spec a b : N.eqb a b = true <-> a = b.
Proof. apply N.eqb_eq. Qed.
Lemma bool_eqb_spec a b : Bool.eqb a b = true <-> a = b.
Proof. destruct a, b; simpl; split; congruence. Qed.
Lemma opt_nat_eqb_spec a b : opt_nat_eqb a b = true <-> a = b.
Proof. apply option_eqb_spec, nat_eqb_spec. Qed.

Lemma cb_obs_eqb_spec a b : cb_obs_eqb a b = true <-> a = b.
Proof.
  destruct a as [t1 i1 p1 s1 g1 c1], b as [t2 i2 p2 s2 g2 c2]; unfold cb_obs_eqb; cbn.
  rewrite !andb_true_iff, n_eqb_spec, !opt_nat_eqb_spec, bool_eqb_spec,
    (list_eqb_spec Nat.eqb nat_eqb_spec).
  split.
  - intros [[[[[-> ->] ->] ->] ->] ->]. reflexivity.
  - intros E. injection E as -> -> -> -> -> ->. repeat split.
Qed.

Lemma spl_eqb_spec a b : spl_eqb a b = true <-> a = b.
Proof.
  destruct a as [m1 v1 e1 x1 c1], b as [m2 v2 e2 x2 c2]; unfold spl_eqb; cbn.
  rewrite !andb_true_iff, cs_data_eqb_spec, tvalues_eqb_spec, !n_eqb_spec, bool_eqb_spec.
  split.
  - intros [[[[-> ->] ->] ->] ->]. reflexivity.
  - intros E. injection E as -> -> -> -> ->. repeat split.
Qed.
Lemma epl_eqb_spec a b : epl_eqb a b = true <-> a = b.
Proof.
  destruct a as [m1 v1], b as [m2 v2]; unfold epl_eqb; cbn.
  rewrite !andb_true_iff, cs_data_eqb_spec, tvalues_eqb_spec.
  split.
  - intros [-> ->]. reflexivity.
  - intros E. injection E as -> ->. repeat split.
Qed.
Lemma span_rec_eqb_spec a b : span_rec_eqb a b = true <-> a = b.
Proof.
  destruct a as [p1 i1 q1 c1 e1 f1], b as [p2 i2 q2 c2 e2 f2]; unfold span_rec_eqb; cbn.
  rewrite !andb_true_iff, spl_eqb_spec, n_eqb_spec, (option_eqb_spec N.eqb n_eqb_spec),
    !(list_eqb_spec N.eqb n_eqb_spec).
  split.
  - intros [[[[[-> ->] ->] ->] ->] ->]. reflexivity.
  - intros E. injection E as -> -> -> -> -> ->. repeat split.
Qed.
Lemma event_rec_eqb_spec a b : event_rec_eqb a b = true <-> a = b.
Proof.
  destruct a as [p1 i1 q1], b as [p2 i2 q2]; unfold event_rec_eqb; cbn.
  rewrite !andb_true_iff, epl_eqb_spec, n_eqb_spec, (option_eqb_spec N.eqb n_eqb_spec).
  split.
  - intros [[-> ->] ->]. reflexivity.
  - intros E. injection E as -> -> ->. repeat split.
Qed.
Lemma cstorage_eqb_spec a b : cstorage_eqb a b = true <-> a = b.
Proof.
  destruct a as [s1 e1 r1 q1], b as [s2 e2 r2 q2]; unfold cstorage_eqb; cbn.
  rewrite !andb_true_iff, (list_eqb_spec _ span_rec_eqb_spec), (list_eqb_spec _ event_rec_eqb_spec),
    !(list_eqb_spec N.eqb n_eqb_spec).
  split.
  - intros [[[-> ->] ->] ->]. reflexivity.
  - intros E. injection E as -> -> -> ->. repeat split.
Qed.

(** * Registry model against the real Registry *)

(** what must hold of any trace of a Registry, whatever the program: a span's scope starts with the
    span itself, and a callback about a span the Registry has no data for has an empty scope *)
Definition obs_consistent (o : cb_obs) : bool :=
  match ob_id o with
  | Some id => if ob_present o then match ob_scope o with j :: _ => Nat.eqb j id | [] => false end
               else match ob_scope o with [] => true | _ => false end
  | None => true
  end.

Definition trace_of (x : result (reg * list cb_obs)) : option (list cb_obs) :=
  match x with ROk (_, t) => Some t | _ => None end.

(** [impl = None]: the real run panicked *)
Definition judge_registry (stale_ok : bool) (p : prog) (ids : list N) (impl : option (list cb_obs))
  : verdict :=
  judge_of (wf_prog_gen_b stale_ok p && single_threaded p)
           (option_eqb (list_eqb cb_obs_eqb) (trace_of (reg_trace ids p)) impl)
           (match impl with Some t => forallb obs_consistent t | None => false end).

(** * Captured storage against model and specification *)
Definition judge_capture (p : prog) (ids : list N) (f : fexpr) (impl : option cstorage) : verdict :=
  judge_of (wf_prog_b p && single_threaded p)
           (option_eqb cstorage_eqb (storage_of (layer_run (feval f) ids p)) impl)
           (option_eqb cstorage_eqb (Some (spec_storage (feval f) ids p)) impl).
