(** Correspondence judges for C11 (evaluated by [vm_compute] on cases written by the harness).

    JSON trees are produced by the harness's own parser from the text written / read by
    [serde_json]; model terms of implementation values by the printers of [harness/src/coq.rs]. *)
From TT Require Export Wire.Codec.
From TT Require Import Wire.CodecProofs Tunnel.TypesProofs.

Definition is_some {A} (o : option A) : bool := match o with Some _ => true | None => false end.

Definition keys_eqb : option (list string) -> option (list string) -> bool :=
  option_eqb (list_eqb String.eqb).

Definition pmap_eqb {A} (eqb : A -> A -> bool) : pmap A -> pmap A -> bool :=
  list_eqb (pair_eqb N.eqb eqb).

(** equality of persisted maps as finite maps: compare the canonical (id-sorted) forms *)
Definition pmap_same {A} (eqb : A -> A -> bool) (a b : pmap A) : bool :=
  pmap_eqb eqb (pm_sort a) (pm_sort b).

(** ** (a) encode conformance *)

(** [e]: the value handed to [serde_json::to_string]; [impl]: tree of the text it wrote;
    [redec]: [from_str] of that text printed as a model term; [reenc]: tree of [to_string] of the
    re-decoded value; [floats_ok]: every finite float of [e] survived text -> bits exactly
    (trusted ryu / float_roundtrip, exercised directly by the harness). *)
Definition judge_enc_event (e : event) (impl : json) (redec : option event) (reenc : option json)
           (floats_ok : bool) : verdict :=
  judge_of (wf_event e)
    (json_eqb (enc_event e) impl && option_eqb event_eqb (dec_event impl) redec)
    (floats_ok
     && option_eqb event_eqb redec (Some e)                               (* decodes to itself *)
     && option_eqb json_eqb reenc (Some impl)                             (* re-encodes identically *)
     && keys_eqb (event_value_keys impl) (option_map (map fst) (event_values e))   (* order *)
     && conforms_event impl).                                             (* frozen format *)

(** outside the property: a non-finite float is written as [null] and is not read back *)
Definition judge_nonfinite_value (bits : N) (impl : json) (impl_dec : option tvalue) : verdict :=
  judge_of (negb (f64_finite bits) && (bits <? 2 ^ 64))
    (json_eqb (enc_value (VFloat bits)) impl && option_eqb tvalue_eqb (dec_value impl) impl_dec)
    (json_eqb impl (JObj [("float"%string, JNull)]) && negb (is_some impl_dec)).

(** Persisted spans have no constructor and no accessor: the value is obtained by reading the
    document [doc] that the harness wrote for the model term [m] ([corr] checks that the harness
    wrote what the model encodes), and is observed through its own serialisation [impl]. *)
Definition judge_enc_spans (m : pmap span_data) (doc : json) (impl : option json) (impl_len : N)
  : verdict :=
  judge_of (wf_spans m)
    (json_perm_eqb (enc_spans m) doc
     && match impl with Some t => json_perm_eqb (enc_spans m) t | None => false end)
    (match impl with
     | Some t => json_perm_eqb t doc && conforms_spans t
                 && option_eqb (pmap_eqb span_data_eqb) (option_map pm_sort (dec_spans t))
                               (Some (pm_sort m))
                 && (impl_len =? N.of_nat (List.length m))
     | None => false
     end).

(** spans persisted by a real receiver: [t] = tree of [to_string(persist())], [reenc] = tree of
    [to_string(from_str(that text))] *)
Definition judge_real_spans (t : json) (reenc : option json) : verdict :=
  judge_of true
    (conforms_spans t)
    (match reenc with Some t' => json_perm_eqb t t' && json_perm_eqb t' t | None => false end).

(** persisted metadata can be listed ([iter()]): [m] = the listing, sorted by id, of the value
    handed to [to_string]; [impl] = tree written; [redec] = listing of [from_str] of that text;
    [reenc] = tree of its serialisation *)
Definition judge_enc_metadata (m : pmap cs_data) (impl : json) (redec : option (pmap cs_data))
           (reenc : option json) : verdict :=
  judge_of (wf_metadata m)
    (json_perm_eqb (enc_metadata m) impl
     && option_eqb (pmap_eqb cs_data_eqb) (option_map pm_sort (dec_metadata impl)) redec)
    (option_eqb (pmap_eqb cs_data_eqb) redec (Some (pm_sort m))
     && match reenc with Some t => json_perm_eqb t impl && json_perm_eqb impl t | None => false end
     && conforms_metadata impl).

(** ** (b) decoding of model-encoded, then perturbed documents *)

(** [benign]: the generator's classification of the perturbation (none, members reordered, unknown
    members added, absent/null optional members): for those the document must be accepted with the
    value [expect].  For the damaging classes (duplicate fields, out-of-range numbers, wrong types,
    missing required members, duplicate map keys) only agreement with the model is judged. *)
Definition judge_dec_event (benign : bool) (expect : option event) (doc : json)
           (impl : option event) : verdict :=
  judge_of true
    (option_eqb event_eqb (dec_event doc) impl)
    (if benign then is_some expect && option_eqb event_eqb impl expect else true).

(** the only observations of a decoded [PersistedSpans] are its serialisation and [len()] *)
Definition judge_dec_spans (benign : bool) (expect : option (pmap span_data)) (doc : json)
           (impl : option json) (impl_len : N) : verdict :=
  judge_of true
    (match dec_spans doc, impl with
     | Some m, Some t => json_perm_eqb (enc_spans m) t && (impl_len =? N.of_nat (List.length m))
     | None, None => true
     | _, _ => false
     end)
    (if benign then
       match expect, impl with
       | Some m, Some t => json_perm_eqb (enc_spans m) t && json_perm_eqb t (enc_spans m)
       | _, _ => false
       end
     else true).

Definition judge_dec_metadata (benign : bool) (expect : option (pmap cs_data)) (doc : json)
           (impl : option (pmap cs_data)) : verdict :=
  judge_of true
    (option_eqb (pmap_eqb cs_data_eqb) (option_map pm_sort (dec_metadata doc)) impl)
    (if benign then
       match expect with
       | Some m => option_eqb (pmap_eqb cs_data_eqb) impl (Some (pm_sort m))
       | None => false
       end
     else true).

(** trusted library functions exercised directly by the harness (float text <-> bits) *)
Definition judge_trusted (ok : bool) : verdict := judge_of true true ok.

(** ** Soundness of the equalities used above *)
Lemma json_eqb_sound a b : json_eqb a b = true <-> a = b.
Proof. apply json_eqb_spec. Qed.

Lemma json_perm_eqb_sound x y :
  json_perm_eqb (JObj x) (JObj y) = true -> forall k, find_field k x = find_field k y.
Proof. apply json_perm_eqb_lookup. Qed.

Lemma span_data_eqb_sound a b : span_data_eqb a b = true <-> a = b.
Proof. apply span_data_eqb_spec. Qed.

Lemma pmap_eqb_spec {A} (eqb : A -> A -> bool) :
  (forall a b, eqb a b = true <-> a = b) -> forall x y, pmap_eqb eqb x y = true <-> x = y.
Proof.
  intros H. apply list_eqb_spec. apply pair_eqb_spec; [apply N.eqb_eq | exact H].
Qed.

Lemma keys_eqb_spec a b : keys_eqb a b = true <-> a = b.
Proof. apply option_eqb_spec. apply list_eqb_spec. apply String.eqb_eq. Qed.

Lemma pmap_same_sound {A} (eqb : A -> A -> bool) :
  (forall a b, eqb a b = true <-> a = b) ->
  forall x y, pmap_same eqb x y = true -> pm_sort x = pm_sort y.
Proof. intros H x y E. apply (pmap_eqb_spec eqb H). exact E. Qed.
