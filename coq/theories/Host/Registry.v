(** Layer L3: an executable model of [tracing_subscriber::Registry] (0.3.19) as seen by the layers
    stacked on it, driven by the subscriber calls the [tracing] front-end makes for a guest program.
    Definitions only.

    Sources transcribed: [registry/sharded.rs] ([new_span], [clone_span], [try_close], [enter],
    [exit], [current_span], [CloseGuard], [DataInner::clear]), [registry/stack.rs] ([SpanStack]),
    [registry/mod.rs] ([Scope], [SpanRef]), [layer/layered.rs] (dispatch order of the callbacks),
    [layer/context.rs] ([Context::span], [span_scope], [event_scope], [lookup_current]).

    Spans are named by creation index (position in the span table, never reused).  The Registry's own
    ids are slab keys that are reused after a span has closed; the id it issued for each span is kept
    in [rs_raw] (supplied by an oracle list, i.e. observed on the implementation) and is consulted
    only to resolve [FStale raw] follows-from targets.  Every other front-end call goes through a
    live [Span] handle, a stack entry or a parent link, all of which hold a reference; the Registry
    guarantees that the ids of simultaneously open spans are distinct, so such a call denotes the
    span the id was issued for.  That guarantee is environment (validated by the correspondence run,
    which canonicalises the real ids by order of [on_new_span]).

    Subscriber-level (global) filtering is out of scope: every call site is enabled by the subscriber,
    which is what [Registry] plus layers without per-layer filters does. *)
From TT Require Export Guest.Program.

(** * Outcomes *)
Inductive panic_site :=
| PRegCloneMissing    (* Registry::clone_span: "tried to clone .., but no span exists with that ID" *)
| PRegCloneClosed     (* Registry::clone_span: "tried to clone a span (..) that already closed" *)
| PRegCloseMissing    (* Registry::try_close: "tried to drop a ref to .., but no such span exists!" *)
| PLayerNewSpan       (* ctx.span(id).unwrap() in CaptureLayer::on_new_span *)
| PLayerRecord        (* .. in on_record *)
| PLayerEnter         (* .. in on_enter *)
| PLayerExit          (* .. in on_exit *)
| PLayerClose         (* .. in on_close *)
| PStorage.           (* Option::unwrap on a missing arena entry inside Storage *)

(** [RNoFuel] is the model's own artefact for the close cascade, which is run with fuel; [RStuck]
    marks an op that names a call site outside the program's pool (not expressible in Rust).
    The theorems exclude both. *)
Inductive result (A : Type) := ROk (a : A) | RPanic (s : panic_site) | RNoFuel | RStuck.
Arguments ROk {A} a.
Arguments RPanic {A} s.
Arguments RNoFuel {A}.
Arguments RStuck {A}.

Definition rbind {A B} (x : result A) (f : A -> result B) : result B :=
  match x with
  | ROk a => f a
  | RPanic s => RPanic s
  | RNoFuel => RNoFuel
  | RStuck => RStuck
  end.
Notation "'let*' x ':=' e 'in' k" := (rbind e (fun x => k))
  (at level 200, x pattern, e at level 100, k at level 200, right associativity).

(** * State *)

(** [DataInner]: metadata, parent id, reference count, extensions.  The only extension any layer
    of this development stores is the capture layers' [CapturedSpanIds(Vec<(usize, CapturedSpanId)>)]:
    (storage address, id in that storage), in insertion order. *)
Record rspan := mk_rspan {
  rs_meta : cs_data;
  rs_raw : N;
  rs_parent : option nat;
  rs_refs : N;
  rs_ext : list (N * N) }.

(** [rg_spans]: position = creation index; [None] = the slot has been cleared (span closed).
    [rg_stacks]: per thread the [SpanStack], top of the stack first, each entry with its
    [duplicate] flag. *)
Record reg := mk_reg {
  rg_spans : list (option rspan);
  rg_stacks : list (nat * list (nat * bool)) }.

Definition reg_init : reg := mk_reg [] [].
Definition reg_next (r : reg) : nat := List.length (rg_spans r).

(** [Registry::get] / [LookupSpan::span_data] *)
Definition reg_get (r : reg) (id : nat) : option rspan :=
  match nth_error (rg_spans r) id with Some (Some s) => Some s | _ => None end.
Definition reg_present (r : reg) (id : nat) : bool :=
  match reg_get r id with Some _ => true | None => false end.

Fixpoint set_nth {A} (l : list A) (i : nat) (x : A) : list A :=
  match l, i with
  | [], _ => []
  | _ :: t, O => x :: t
  | h :: t, S j => h :: set_nth t j x
  end.
Definition reg_set (r : reg) (id : nat) (s : rspan) : reg :=
  mk_reg (set_nth (rg_spans r) id (Some s)) (rg_stacks r).
Definition reg_remove (r : reg) (id : nat) : reg :=
  mk_reg (set_nth (rg_spans r) id None) (rg_stacks r).

Definition with_refs (s : rspan) (n : N) : rspan :=
  mk_rspan (rs_meta s) (rs_raw s) (rs_parent s) n (rs_ext s).
Definition with_ext (s : rspan) (e : list (N * N)) : rspan :=
  mk_rspan (rs_meta s) (rs_raw s) (rs_parent s) (rs_refs s) e.

(** [ExtensionsMut] of a span: replace the [CapturedSpanIds] vector *)
Definition reg_set_ext (r : reg) (id : nat) (e : list (N * N)) : reg :=
  match reg_get r id with
  | Some s => reg_set r id (with_ext s e)
  | None => r
  end.

(** the id the Registry issued for the k-th span: taken from the oracle, [k + 1] beyond it *)
Definition raw_of (ids : list N) (k : nat) : N := nth k ids (N.of_nat k + 1).

(** * [SpanStack] ([registry/stack.rs]) *)
Definition sstack := list (nat * bool).

Fixpoint rstack_of (stacks : list (nat * sstack)) (tid : nat) : sstack :=
  match stacks with
  | [] => []
  | (t, s) :: r => if Nat.eqb t tid then s else rstack_of r tid
  end.
Fixpoint rset_stack (stacks : list (nat * sstack)) (tid : nat) (s : sstack) : list (nat * sstack) :=
  match stacks with
  | [] => [(tid, s)]
  | (t, s') :: r => if Nat.eqb t tid then (t, s) :: r else (t, s') :: rset_stack r tid s
  end.

(** [push]: duplicate iff the id is already anywhere on the stack; returns [!duplicate] *)
Definition stack_push (s : sstack) (id : nat) : sstack * bool :=
  let dup := existsb (fun e => Nat.eqb (fst e) id) s in
  ((id, dup) :: s, negb dup).

(** [pop]: remove the entry with this id nearest to the top; returns [!duplicate] of the removed
    entry, [false] if there is none *)
Fixpoint stack_pop (s : sstack) (id : nat) : sstack * bool :=
  match s with
  | [] => ([], false)
  | (j, dup) :: r =>
      if Nat.eqb j id then (r, negb dup)
      else let '(r', b) := stack_pop r id in ((j, dup) :: r', b)
  end.

(** [iter]: from the top, entries that are not duplicates; [current] = first of them *)
Definition stack_iter (s : sstack) : list nat :=
  map fst (filter (fun e => negb (snd e)) s).
Definition stack_current (s : sstack) : option nat := hd_error (stack_iter s).

(** * Registry as a [Subscriber] *)

(** [clone_span] *)
Definition reg_clone_span (r : reg) (id : nat) : result reg :=
  match reg_get r id with
  | None => RPanic PRegCloneMissing
  | Some s => if rs_refs s =? 0 then RPanic PRegCloneClosed
              else ROk (reg_set r id (with_refs s (rs_refs s + 1)))
  end.

(** [current_span]: top non-duplicate stack entry, if the Registry still has data for it *)
Definition reg_current_span (r : reg) (tid : nat) : option nat :=
  match stack_current (rstack_of (rg_stacks r) tid) with
  | Some id => if reg_present r id then Some id else None
  | None => None
  end.

(** [new_span]: the parent (explicit, or the current span if contextual, none for an explicit root) is
    cloned; the new span starts with one reference *)
Definition reg_new_span (r : reg) (tid : nat) (meta : cs_data) (pk : parent_kind) (raw : N)
  : result (reg * nat) :=
  let* (r1, parent) :=
    match pk with
    | PKRoot => ROk (r, None)
    | PKCtx => match reg_current_span r tid with
               | Some c => let* r1 := reg_clone_span r c in ROk (r1, Some c)
               | None => ROk (r, None)
               end
    | PKExplicit k => let* r1 := reg_clone_span r k in ROk (r1, Some k)
    end in
  ROk (mk_reg (rg_spans r1 ++ [Some (mk_rspan meta raw parent 1 [])]) (rg_stacks r1), reg_next r1).

(** [enter]: push; clone unless duplicate *)
Definition reg_enter (r : reg) (tid : nat) (id : nat) : result reg :=
  let '(s', fresh) := stack_push (rstack_of (rg_stacks r) tid) id in
  let r1 := mk_reg (rg_spans r) (rset_stack (rg_stacks r) tid s') in
  if fresh then reg_clone_span r1 id else ROk r1.

(** first half of [exit]: pop; the result says whether [try_close] follows *)
Definition reg_exit_pop (r : reg) (tid : nat) (id : nat) : reg * bool :=
  let '(s', fresh) := stack_pop (rstack_of (rg_stacks r) tid) id in
  (mk_reg (rg_spans r) (rset_stack (rg_stacks r) tid s'), fresh).

(** [try_close]: decrement; [true] iff this was the last reference.  The slot itself is cleared later,
    by the [CloseGuard], after the layers' [on_close]. *)
Definition reg_try_close (r : reg) (id : nat) : result (reg * bool) :=
  match reg_get r id with
  | None => RPanic PRegCloseMissing
  | Some s => ROk (reg_set r id (with_refs s (rs_refs s - 1)), rs_refs s <=? 1)
  end.

(** * What [Context] answers ([layer/context.rs], [registry/mod.rs]) *)

(** [Scope::next]: the span itself, then its [parent()] links while the Registry has the data *)
Fixpoint scope_from (fuel : nat) (r : reg) (id : nat) : list nat :=
  match fuel with
  | O => []
  | S f =>
      match reg_get r id with
      | None => []
      | Some s => id :: match rs_parent s with Some p => scope_from f r p | None => [] end
      end
  end.
(** a parent is always created before its child, so [S id] steps suffice (shown in the proofs) *)
Definition scope_of (r : reg) (id : nat) : list nat := scope_from (S id) r id.

Definition ctx_span (r : reg) (id : nat) : option rspan := reg_get r id.
Definition ctx_span_scope (r : reg) (id : nat) : option (list nat) :=
  match reg_get r id with Some _ => Some (scope_of r id) | None => None end.
Definition ctx_lookup_current (r : reg) (tid : nat) : option nat := reg_current_span r tid.
(** [event_span]: none for an explicit root, the current span if contextual, the explicit parent *)
Definition ctx_event_span (r : reg) (tid : nat) (pk : parent_kind) : option nat :=
  match pk with
  | PKRoot => None
  | PKCtx => ctx_lookup_current r tid
  | PKExplicit k => if reg_present r k then Some k else None
  end.
Definition ctx_event_scope (r : reg) (tid : nat) (pk : parent_kind) : option (list nat) :=
  option_map (scope_of r) (ctx_event_span r tid pk).

(** [ctx.span(&Id::from_u64(raw))] for an id that does not come from a handle *)
Fixpoint find_raw (spans : list (option rspan)) (base : nat) (raw : N) : option nat :=
  match spans with
  | [] => None
  | Some s :: t => if rs_raw s =? raw then Some base else find_raw t (S base) raw
  | None :: t => find_raw t (S base) raw
  end.
Definition ctx_span_raw (r : reg) (raw : N) : option nat := find_raw (rg_spans r) 0 raw.
Definition resolve_target (r : reg) (t : follow_target) : option nat :=
  match t with
  | FLive j => if reg_present r j then Some j else None
  | FStale raw => ctx_span_raw r raw
  end.

(** * Layer callbacks *)
Inductive lcallback :=
| CbNewSpan (id : nat) (meta : cs_data) (vals : valset)     (* on_new_span(attrs, id, ctx) *)
| CbRecord (id : nat) (vals : valset)                       (* on_record(id, values, ctx) *)
| CbEnter (id : nat)
| CbExit (id : nat)
| CbClose (id : nat)
| CbFollows (id : nat) (t : follow_target)                  (* on_follows_from(id, follows, ctx) *)
| CbEvent (meta : cs_data) (pk : parent_kind) (vals : valset).   (* on_event(event, ctx) *)

(** * The subscriber [Layered<.., Layered<.., Registry>>]

    [L] is the state of the whole stack of layers; [deliver r tid cb l] runs callback [cb] of every
    layer, innermost first, on thread [tid] with the Registry in state [r] (the layers may only
    touch extensions). *)
Section Driver.
  Variable L : Type.
  Variable deliver : reg -> nat -> lcallback -> L -> result (reg * L).

  (** [Layered::try_close]: the Registry decrements; if the span is closing every layer gets [on_close]
      while the data is still there; when the outermost [CloseGuard] drops, the slot is cleared, and
      [DataInner::clear] drops the reference held on the parent through the whole subscriber
      again. *)
  Fixpoint sub_try_close (fuel : nat) (r : reg) (l : L) (tid id : nat) : result (reg * L) :=
    match fuel with
    | O => RNoFuel
    | S fuel' =>
        let* (r1, closing) := reg_try_close r id in
        if closing : bool then
          let* (r2, l2) := deliver r1 tid (CbClose id) l in
          match reg_get r2 id with
          | Some s =>
              let r3 := reg_remove r2 id in
              match rs_parent s with
              | Some p => sub_try_close fuel' r3 l2 tid p
              | None => ROk (r3, l2)
              end
          | None => ROk (r2, l2)
          end
        else ROk (r1, l)
    end.

  Definition close_fuel (r : reg) : nat := S (reg_next r).

  (** one front-end call *)
  Definition sub_step (sites : list cs_data) (ids : list N) (st : reg * L) (o : nat * Program.op)
    : result (reg * L) :=
    let '(r, l) := st in
    let tid := fst o in
    match snd o with
    | ONewSpan cs pk vals =>                               (* Subscriber::new_span *)
        match nth_error sites cs with
        | None => RStuck
        | Some meta =>
            let* (r1, id) := reg_new_span r tid meta pk (raw_of ids (reg_next r)) in
            deliver r1 tid (CbNewSpan id meta vals) l
        end
    | ORecord k vals => deliver r tid (CbRecord k vals) l  (* Subscriber::record: Registry no-op *)
    | OEnter k =>                                          (* Subscriber::enter *)
        let* r1 := reg_enter r tid k in
        deliver r1 tid (CbEnter k) l
    | OExit k =>                                           (* Subscriber::exit *)
        let '(r1, fresh) := reg_exit_pop r tid k in
        let* (r2, l2) := if fresh then sub_try_close (close_fuel r1) r1 l tid k else ROk (r1, l) in
        deliver r2 tid (CbExit k) l2
    | OClone k =>                                          (* Subscriber::clone_span *)
        let* r1 := reg_clone_span r k in ROk (r1, l)
    | ODrop k => sub_try_close (close_fuel r) r l tid k    (* Subscriber::try_close *)
    | OFollows k t => deliver r tid (CbFollows k t) l      (* record_follows_from: Registry no-op *)
    | OEvent cs pk vals =>                                 (* Subscriber::event *)
        match nth_error sites cs with
        | None => RStuck
        | Some meta => deliver r tid (CbEvent meta pk vals) l
        end
    end.

  Fixpoint sub_steps (sites : list cs_data) (ids : list N) (st : reg * L)
           (ops : list (nat * Program.op)) : result (reg * L) :=
    match ops with
    | [] => ROk st
    | o :: rest => let* st' := sub_step sites ids st o in sub_steps sites ids st' rest
    end.

  Definition sub_run (ids : list N) (p : prog) (l0 : L) : result (reg * L) :=
    sub_steps (p_sites p) ids (reg_init, l0) (p_ops p).
End Driver.
Arguments sub_try_close {L}.
Arguments sub_step {L}.
Arguments sub_steps {L}.
Arguments sub_run {L}.

(** * The recording layer: the callback trace together with what [Context] answers inside each
    callback.  This is what the correspondence run compares with a recording [Layer] on the real
    [Registry]. *)
Record cb_obs := mk_obs {
  ob_tag : N;                  (* 0 new_span, 1 record, 2 enter, 3 exit, 4 close, 5 follows_from, 6 event *)
  ob_id : option nat;          (* the span the callback is about *)
  ob_present : bool;           (* ctx.span(id).is_some() *)
  ob_scope : list nat;         (* ctx.span_scope(id) / ctx.event_scope(event), as ids; [] if none *)
  ob_target : option nat;      (* follows_from: ctx.span(follows) *)
  ob_current : option nat }.   (* ctx.lookup_current() *)

Definition opt_scope (o : option (list nat)) : list nat := match o with Some l => l | None => [] end.

Definition observe (r : reg) (tid : nat) (cb : lcallback) : cb_obs :=
  let cur := ctx_lookup_current r tid in
  let span_obs tag id :=
    mk_obs tag (Some id) (reg_present r id) (opt_scope (ctx_span_scope r id)) None cur in
  match cb with
  | CbNewSpan id _ _ => span_obs 0 id
  | CbRecord id _ => span_obs 1 id
  | CbEnter id => span_obs 2 id
  | CbExit id => span_obs 3 id
  | CbClose id => span_obs 4 id
  | CbFollows id t =>
      mk_obs 5 (Some id) (reg_present r id) (opt_scope (ctx_span_scope r id)) (resolve_target r t) cur
  | CbEvent _ pk _ => mk_obs 6 None true (opt_scope (ctx_event_scope r tid pk)) None cur
  end.

Definition rec_deliver (r : reg) (tid : nat) (cb : lcallback) (log : list cb_obs)
  : result (reg * list cb_obs) := ROk (r, log ++ [observe r tid cb]).

Definition reg_trace (ids : list N) (p : prog) : result (reg * list cb_obs) :=
  sub_run rec_deliver ids p [].
