(** Proofs about the Registry model ([Host/Registry.v]).

    Part 1: lists, the span table, the span stack.
    Part 2: the invariant [reg_inv] tying the Registry to the program's own bookkeeping
            ([sym_state] of [Guest/Program.v]): reference count = live handles + (non-duplicate)
            stack entry + open children; a span is in the table iff one of the three is non-zero;
            parents precede children; and the effect of every Registry operation the front-end makes
            for a well-formed single-threaded program.
    Part 3: simulations between runs of the generic subscriber driver under different layer stacks
            (what a layer does to the Registry is confined to its own extension entries). *)
From TT Require Export Host.Registry Guest.ProgramProofs.

(** * Part 1: lists *)
Lemma list_ext {A} (l1 l2 : list A) :
  (forall i, nth_error l1 i = nth_error l2 i) -> l1 = l2.
Proof.
  revert l2; induction l1 as [|a l1 IH]; intros [|b l2] H.
  - reflexivity.
  - specialize (H O); discriminate.
  - specialize (H O); discriminate.
  - pose proof (H O) as H0. cbn in H0. injection H0 as ->. f_equal.
    apply IH. intros i. exact (H (S i)).
Qed.

Lemma set_nth_length {A} (l : list A) i x : List.length (set_nth l i x) = List.length l.
Proof. revert i; induction l as [|a l IH]; intros [|i]; cbn; auto. Qed.

Lemma set_nth_nth {A} (l : list A) i x j :
  nth_error (set_nth l i x) j =
  if Nat.eqb j i then (if Nat.ltb i (List.length l) then Some x else None) else nth_error l j.
Proof.
  revert i j; induction l as [|a l IH]; intros i j.
  - cbn. destruct i, j; cbn; try reflexivity. destruct (Nat.eqb j i); reflexivity.
  - destruct i as [|i], j as [|j]; cbn [set_nth nth_error Nat.eqb]; try reflexivity.
    rewrite IH. cbn [List.length]. change (Nat.ltb (S i) (S (List.length l))) with (Nat.ltb i (List.length l)).
    reflexivity.
Qed.

Lemma set_nth_same {A} (l : list A) i x : nth_error l i = Some x -> set_nth l i x = l.
Proof.
  intros H. apply list_ext. intros j. rewrite set_nth_nth.
  destruct (Nat.eqb_spec j i) as [->|]; [|reflexivity].
  assert (i < List.length l)%nat by (apply nth_error_Some; congruence).
  destruct (Nat.ltb_spec i (List.length l)); [congruence | lia].
Qed.

Lemma set_nth_app_l {A} (l l' : list A) i x :
  (i < List.length l)%nat -> set_nth (l ++ l') i x = set_nth l i x ++ l'.
Proof.
  revert i; induction l as [|a l IH]; intros i H; cbn in *; [lia|].
  destruct i; cbn; [reflexivity|]. f_equal. apply IH. lia.
Qed.

Lemma set_nth_out {A} (l : list A) i x : (List.length l <= i)%nat -> set_nth l i x = l.
Proof.
  revert i; induction l as [|a l IH]; intros i H; cbn in *; [destruct i; reflexivity|].
  destruct i; [lia|]. cbn. f_equal. apply IH. lia.
Qed.

Lemma nth_error_snoc' {A} (l : list A) (x : A) (j : nat) :
  nth_error (l ++ [x]) j =
  if Nat.ltb j (List.length l) then nth_error l j
  else if Nat.eqb j (List.length l) then Some x else None.
Proof.
  destruct (Nat.ltb_spec j (List.length l)) as [H|H].
  - apply nth_error_app1. exact H.
  - rewrite nth_error_app2 by exact H.
    destruct (Nat.eqb_spec j (List.length l)) as [->|Hne].
    + rewrite Nat.sub_diag. reflexivity.
    + destruct (j - List.length l)%nat as [|k] eqn:E; [lia|]. cbn. destruct k; reflexivity.
Qed.

(** * The span table *)
Lemma reg_get_lt r id s : reg_get r id = Some s -> (id < reg_next r)%nat.
Proof.
  unfold reg_get, reg_next. destruct (nth_error (rg_spans r) id) as [o|] eqn:E; [|discriminate].
  intros _. apply nth_error_Some. congruence.
Qed.

Lemma reg_get_set r id s j :
  reg_get (reg_set r id s) j =
  if Nat.eqb j id then (if Nat.ltb id (reg_next r) then Some s else None) else reg_get r j.
Proof.
  unfold reg_get, reg_set, reg_next. cbn [rg_spans]. rewrite set_nth_nth.
  destruct (Nat.eqb j id); [|reflexivity]. destruct (Nat.ltb id (List.length (rg_spans r))); reflexivity.
Qed.

Lemma reg_get_set_present r id s0 s j :
  reg_get r id = Some s0 ->
  reg_get (reg_set r id s) j = if Nat.eqb j id then Some s else reg_get r j.
Proof.
  intros H. rewrite reg_get_set. apply reg_get_lt in H.
  destruct (Nat.ltb_spec id (reg_next r)); [reflexivity | lia].
Qed.

Lemma reg_get_remove r id j :
  reg_get (reg_remove r id) j = if Nat.eqb j id then None else reg_get r j.
Proof.
  unfold reg_get, reg_remove. cbn [rg_spans]. rewrite set_nth_nth.
  destruct (Nat.eqb j id); [|reflexivity]. destruct (Nat.ltb id (List.length (rg_spans r))); reflexivity.
Qed.

Lemma reg_next_set r id s : reg_next (reg_set r id s) = reg_next r.
Proof. unfold reg_next, reg_set. cbn. apply set_nth_length. Qed.
Lemma reg_next_remove r id : reg_next (reg_remove r id) = reg_next r.
Proof. unfold reg_next, reg_remove. cbn. apply set_nth_length. Qed.

Lemma reg_present_get r id : reg_present r id = true <-> exists s, reg_get r id = Some s.
Proof.
  unfold reg_present. destruct (reg_get r id); split; intros H; eauto; try discriminate.
  destruct H; discriminate.
Qed.
Lemma reg_absent_get r id : reg_present r id = false <-> reg_get r id = None.
Proof. unfold reg_present. destruct (reg_get r id); split; intros H; congruence. Qed.

(** appending a span *)
Definition reg_app (r : reg) (s : rspan) : reg := mk_reg (rg_spans r ++ [Some s]) (rg_stacks r).
Lemma reg_get_app r s j :
  reg_get (reg_app r s) j = if Nat.eqb j (reg_next r) then Some s else reg_get r j.
Proof.
  unfold reg_get, reg_app, reg_next. cbn [rg_spans]. rewrite nth_error_snoc'.
  destruct (Nat.ltb_spec j (List.length (rg_spans r))) as [H|H].
  - destruct (Nat.eqb_spec j (List.length (rg_spans r))); [lia | reflexivity].
  - destruct (Nat.eqb_spec j (List.length (rg_spans r))) as [->|]; [reflexivity|].
    assert (E : nth_error (rg_spans r) j = None) by (apply nth_error_None; lia).
    rewrite E. reflexivity.
Qed.
Lemma reg_next_app r s : reg_next (reg_app r s) = S (reg_next r).
Proof. unfold reg_next, reg_app. cbn. rewrite app_length. cbn. lia. Qed.

(** * Stacks *)
Lemma rstack_of_set stacks tid s t :
  rstack_of (rset_stack stacks tid s) t = if Nat.eqb t tid then s else rstack_of stacks t.
Proof.
  induction stacks as [|[t' s'] rest IH]; cbn.
  - rewrite Nat.eqb_sym. destruct (Nat.eqb t tid); reflexivity.
  - destruct (Nat.eqb_spec t' tid) as [->|Hne]; cbn.
    + rewrite (Nat.eqb_sym tid t). destruct (Nat.eqb_spec t tid); reflexivity.
    + destruct (Nat.eqb_spec t' t) as [->|Hne2].
      * destruct (Nat.eqb_spec t tid); [congruence | reflexivity].
      * exact IH.
Qed.

Lemma stack_of_set stacks tid s t :
  stack_of (set_stack stacks tid s) t = if Nat.eqb t tid then s else stack_of stacks t.
Proof.
  induction stacks as [|[t' s'] rest IH]; cbn.
  - rewrite Nat.eqb_sym. destruct (Nat.eqb t tid); reflexivity.
  - destruct (Nat.eqb_spec t' tid) as [->|Hne]; cbn.
    + rewrite (Nat.eqb_sym tid t). destruct (Nat.eqb_spec t tid); reflexivity.
    + destruct (Nat.eqb_spec t' t) as [->|Hne2].
      * destruct (Nat.eqb_spec t tid); [congruence | reflexivity].
      * exact IH.
Qed.

(** the Registry's stack for a program stack [s] (most recent first, with repetitions): an entry
    is a duplicate iff the span also occurs below it *)
Fixpoint flag_stack (s : list nat) : sstack :=
  match s with
  | [] => []
  | k :: t => (k, on_stack t k) :: flag_stack t
  end.

(** the innermost entry that is the outermost enter of its span *)
Fixpoint first_outer (s : list nat) : option nat :=
  match s with
  | [] => None
  | k :: r => if on_stack r k then first_outer r else Some k
  end.

Lemma on_stack_in s k : on_stack s k = true <-> In k s.
Proof.
  unfold on_stack. rewrite existsb_exists. split.
  - intros (x & Hx & E). apply Nat.eqb_eq in E. subst. exact Hx.
  - intros H. exists k. split; [exact H | apply Nat.eqb_refl].
Qed.

Lemma flag_stack_ids s : map fst (flag_stack s) = s.
Proof. induction s as [|k t IH]; cbn; congruence. Qed.

Lemma flag_stack_has s id :
  existsb (fun e => Nat.eqb (fst e) id) (flag_stack s) = on_stack s id.
Proof.
  unfold on_stack. induction s as [|k t IH]; cbn; [reflexivity|].
  rewrite IH, (Nat.eqb_sym k id). reflexivity.
Qed.

Lemma stack_push_flag s id : stack_push (flag_stack s) id = (flag_stack (id :: s), negb (on_stack s id)).
Proof. unfold stack_push. rewrite flag_stack_has. reflexivity. Qed.

Lemma on_stack_remove_first_other s k j : j <> k -> on_stack (remove_first s k) j = on_stack s j.
Proof.
  intros Hne. unfold on_stack. induction s as [|x t IH]; cbn; [reflexivity|].
  destruct (Nat.eqb_spec x k) as [->|Hx].
  - destruct (Nat.eqb_spec j k); [contradiction | reflexivity].
  - cbn. rewrite IH. reflexivity.
Qed.

Lemma stack_pop_flag s id :
  on_stack s id = true ->
  stack_pop (flag_stack s) id = (flag_stack (remove_first s id), negb (on_stack (remove_first s id) id)).
Proof.
  induction s as [|k t IH]; intros H; [discriminate|].
  cbn [flag_stack stack_pop remove_first]. destruct (Nat.eqb_spec k id) as [->|Hne].
  - reflexivity.
  - assert (Ht : on_stack t id = true).
    { unfold on_stack in *. cbn in H. destruct (Nat.eqb_spec id k); [congruence | exact H]. }
    rewrite (IH Ht). cbn [flag_stack]. rewrite (on_stack_remove_first_other t id k) by congruence.
    f_equal. unfold on_stack at 2. cbn [existsb]. destruct (Nat.eqb_spec id k); [congruence|]. reflexivity.
Qed.

Lemma stack_current_flag s : stack_current (flag_stack s) = first_outer s.
Proof.
  unfold stack_current, stack_iter. induction s as [|k t IH]; cbn; [reflexivity|].
  destruct (on_stack t k); cbn; [exact IH | reflexivity].
Qed.

Lemma first_outer_on_stack s k : first_outer s = Some k -> on_stack s k = true.
Proof.
  induction s as [|x t IH]; cbn; [discriminate|].
  destruct (on_stack t x) eqn:E.
  - intros H. apply IH in H. unfold on_stack in *. cbn. rewrite H. apply orb_true_r.
  - intros H. injection H as ->. unfold on_stack. cbn. rewrite Nat.eqb_refl. reflexivity.
Qed.

(** * Part 2: the Registry and the program's own bookkeeping *)

(** ** [sym_state] helpers.  [stk sym t]: the spans thread [t] has entered; [sref sym k]: the number
    of threads that have span [k] on their stack (each holds one reference on it, whatever the number
    of times it entered the span) *)
Definition stk (sym : sym_state) (t : nat) : list nat := stack_of (ss_stacks sym) t.
Definition b2n (b : bool) : N := if b then 1 else 0.
Fixpoint nrefs (stacks : list (nat * list nat)) (k : nat) : N :=
  match stacks with
  | [] => 0
  | (_, s) :: r => b2n (on_stack s k) + nrefs r k
  end.
Definition sref (sym : sym_state) (k : nat) : N := nrefs (ss_stacks sym) k.

Lemma nrefs_set_stack stacks t s k :
  nrefs (set_stack stacks t s) k + b2n (on_stack (stack_of stacks t) k) = nrefs stacks k + b2n (on_stack s k).
Proof.
  induction stacks as [|[t' s'] rest IH]; cbn [set_stack stack_of nrefs].
  - cbn. lia.
  - destruct (Nat.eqb t' t); cbn [nrefs]; lia.
Qed.

Lemma on_any_stack_nrefs sym k : on_any_stack sym k = (0 <? sref sym k).
Proof.
  unfold on_any_stack, sref. induction (ss_stacks sym) as [|[t s] rest IH]; cbn [existsb nrefs snd]; [reflexivity|].
  rewrite IH. destruct (on_stack s k); cbn [b2n orb].
  - symmetry. apply N.ltb_lt. lia.
  - destruct (N.ltb_spec 0 (nrefs rest k)), (N.ltb_spec 0 (0 + nrefs rest k)); try reflexivity; lia.
Qed.

Lemma on_stack_any sym t k : on_stack (stk sym t) k = true -> on_any_stack sym k = true.
Proof.
  unfold stk, on_any_stack. induction (ss_stacks sym) as [|[t' s] rest IH]; cbn [stack_of existsb snd].
  - discriminate.
  - destruct (Nat.eqb t' t).
    + intros ->. reflexivity.
    + intros H. rewrite (IH H). apply orb_true_r.
Qed.

Lemma sref_zero_any sym k : sref sym k = 0 <-> on_any_stack sym k = false.
Proof.
  rewrite on_any_stack_nrefs. destruct (N.ltb_spec 0 (sref sym k)); split; intros; try congruence; lia.
Qed.

Lemma set_handles_length spans k h : List.length (set_handles spans k h) = List.length spans.
Proof. revert k; induction spans as [|s t IH]; intros [|k]; cbn; auto. Qed.

Lemma set_handles_nth spans k h j :
  nth_error (set_handles spans k h) j =
  if Nat.eqb j k then option_map (fun s => mk_sspan (sp_site s) h) (nth_error spans j)
  else nth_error spans j.
Proof.
  revert k j; induction spans as [|s t IH]; intros k j.
  - cbn. destruct k, j; cbn; try reflexivity. destruct (Nat.eqb j k); reflexivity.
  - destruct k as [|k], j as [|j]; cbn [set_handles nth_error Nat.eqb option_map]; try reflexivity.
    apply IH.
Qed.

Lemma handles_set sym stacks k h j :
  handles (mk_sym (set_handles (ss_spans sym) k h) stacks) j =
  if Nat.eqb j k then (if Nat.ltb k (n_spans sym) then h else 0) else handles sym j.
Proof.
  unfold handles, n_spans. cbn [ss_spans]. rewrite set_handles_nth.
  destruct (Nat.eqb_spec j k) as [->|]; [|reflexivity].
  destruct (nth_error (ss_spans sym) k) as [s|] eqn:E; cbn [option_map sp_handles].
  - assert (k < List.length (ss_spans sym))%nat by (apply nth_error_Some; congruence).
    destruct (Nat.ltb_spec k (List.length (ss_spans sym))); [reflexivity | lia].
  - apply nth_error_None in E. destruct (Nat.ltb_spec k (List.length (ss_spans sym))); [lia | reflexivity].
Qed.

Lemma handles_stacks sym stacks j : handles (mk_sym (ss_spans sym) stacks) j = handles sym j.
Proof. reflexivity. Qed.

Lemma handles_pos_lt sym k : 0 < handles sym k -> (k < n_spans sym)%nat.
Proof.
  unfold handles, n_spans. destruct (nth_error (ss_spans sym) k) eqn:E; [|lia].
  intros _. apply nth_error_Some. congruence.
Qed.

Lemma live_pos sym k : live sym k = true <-> 0 < handles sym k.
Proof. unfold live. apply N.ltb_lt. Qed.

Lemma handles_app sym s stacks j :
  handles (mk_sym (ss_spans sym ++ [s]) stacks) j =
  if Nat.eqb j (n_spans sym) then sp_handles s else handles sym j.
Proof.
  unfold handles, n_spans. cbn [ss_spans]. rewrite nth_error_snoc'.
  destruct (Nat.ltb_spec j (List.length (ss_spans sym))) as [H|H].
  - destruct (Nat.eqb_spec j (List.length (ss_spans sym))); [lia | reflexivity].
  - destruct (Nat.eqb_spec j (List.length (ss_spans sym))) as [->|]; [reflexivity|].
    assert (E : nth_error (ss_spans sym) j = None) by (apply nth_error_None; lia).
    rewrite E. reflexivity.
Qed.

(** ** children counts *)
Definition is_child (k : nat) (o : option rspan) : bool :=
  match o with
  | Some s => match rs_parent s with Some p => Nat.eqb p k | None => false end
  | None => false
  end.
Definition nchild (r : reg) (k : nat) : N :=
  N.of_nat (List.length (List.filter (is_child k) (rg_spans r))).

Lemma count_set_nth {A} (P : A -> bool) (l : list A) i x y :
  nth_error l i = Some y ->
  (List.length (List.filter P (set_nth l i x)) + (if P y then 1 else 0) =
   List.length (List.filter P l) + (if P x then 1 else 0))%nat.
Proof.
  revert i; induction l as [|a l IH]; intros [|i] H; cbn in H; try discriminate.
  - injection H as ->. cbn. destruct (P x), (P y); cbn; lia.
  - cbn. specialize (IH i H). destruct (P a); cbn; lia.
Qed.

Lemma nchild_set r id s0 s k :
  reg_get r id = Some s0 -> rs_parent s = rs_parent s0 -> nchild (reg_set r id s) k = nchild r k.
Proof.
  intros Hg Hp. unfold nchild, reg_set. cbn [rg_spans].
  assert (E : nth_error (rg_spans r) id = Some (Some s0)).
  { unfold reg_get in Hg. destruct (nth_error (rg_spans r) id) as [[x|]|]; congruence. }
  pose proof (count_set_nth (is_child k) _ _ (Some s) _ E) as H.
  assert (is_child k (Some s) = is_child k (Some s0)) by (cbn; rewrite Hp; reflexivity).
  rewrite H0 in H. destruct (is_child k (Some s0)); lia.
Qed.

Lemma nchild_remove r id s k :
  reg_get r id = Some s ->
  nchild (reg_remove r id) k + (if is_child k (Some s) then 1 else 0) = nchild r k.
Proof.
  intros Hg. unfold nchild, reg_remove. cbn [rg_spans].
  assert (E : nth_error (rg_spans r) id = Some (Some s)).
  { unfold reg_get in Hg. destruct (nth_error (rg_spans r) id) as [[x|]|]; congruence. }
  pose proof (count_set_nth (is_child k) _ _ None _ E) as H.
  change (is_child k None) with false in H.
  destruct (is_child k (Some s)); lia.
Qed.

Lemma nchild_app r s k :
  nchild (reg_app r s) k = nchild r k + (if is_child k (Some s) then 1 else 0).
Proof.
  unfold nchild, reg_app. cbn [rg_spans]. rewrite filter_app, app_length. cbn [List.filter].
  destruct (is_child k (Some s)); cbn; lia.
Qed.

Lemma nchild_stacks r stacks k : nchild (mk_reg (rg_spans r) stacks) k = nchild r k.
Proof. reflexivity. Qed.

Lemma nchild_zero r k :
  (forall c s, reg_get r c = Some s -> rs_parent s <> Some k) -> nchild r k = 0.
Proof.
  intros H. unfold nchild.
  assert (E : forall o, In o (rg_spans r) -> is_child k o = false).
  { intros [s|] Hin; [|reflexivity]. cbn.
    destruct (rs_parent s) as [p|] eqn:Ep; [|reflexivity].
    destruct (Nat.eqb_spec p k) as [->|]; [|reflexivity]. exfalso.
    apply In_nth_error in Hin as [c Hc]. apply (H c s); [|exact Ep].
    unfold reg_get. rewrite Hc. reflexivity. }
  induction (rg_spans r) as [|o l IH]; [reflexivity|].
  cbn. rewrite (E o (or_introl eq_refl)). apply IH. intros o' Ho'. apply E. right. exact Ho'.
Qed.

(** ** The invariant

    [excess x k]: one reference on span [x] is held by a front-end call that is under way (the
    reference a [try_close] is about to drop). *)
Definition excess (x : option nat) (k : nat) : N :=
  match x with Some j => if Nat.eqb j k then 1 else 0 | None => 0 end.

Record reg_inv_ex (sym : sym_state) (r : reg) (x : option nat) : Prop := mk_reg_inv {
  ri_len : reg_next r = n_spans sym;
  ri_parent : forall k s p, reg_get r k = Some s -> rs_parent s = Some p -> (p < k)%nat;
  ri_refs : forall k s, reg_get r k = Some s ->
      rs_refs s = handles sym k + sref sym k + nchild r k + excess x k /\ 0 < rs_refs s;
  ri_absent : forall k, reg_get r k = None ->
      handles sym k = 0 /\ on_any_stack sym k = false /\ nchild r k = 0;
  ri_stack : forall t, rstack_of (rg_stacks r) t = flag_stack (stk sym t) }.
Definition reg_inv (sym : sym_state) (r : reg) : Prop := reg_inv_ex sym r None.

Lemma inv_init : reg_inv sym_init reg_init.
Proof.
  constructor; cbn; auto.
  - intros k s p H. unfold reg_get in H. cbn in H. destruct k; discriminate.
  - intros k s H. unfold reg_get in H. cbn in H. destruct k; discriminate.
  - intros k _. unfold handles. cbn. destruct k; auto.
Qed.

Lemma inv_live_present sym r x k : reg_inv_ex sym r x -> live sym k = true -> exists s, reg_get r k = Some s.
Proof.
  intros I H. destruct (reg_get r k) as [s|] eqn:E; [eauto|].
  apply (ri_absent _ _ _ I) in E as (E & _ & _). apply live_pos in H. lia.
Qed.
Lemma inv_stack_present sym r x t k :
  reg_inv_ex sym r x -> on_stack (stk sym t) k = true -> exists s, reg_get r k = Some s.
Proof.
  intros I H. destruct (reg_get r k) as [s|] eqn:E; [eauto|].
  apply (ri_absent _ _ _ I) in E as (_ & E & _). apply on_stack_any in H. congruence.
Qed.
Lemma inv_parent_present sym r x k s p :
  reg_inv_ex sym r x -> reg_get r k = Some s -> rs_parent s = Some p -> exists ps, reg_get r p = Some ps.
Proof.
  intros I Hk Hp. destruct (reg_get r p) as [ps|] eqn:E; [eauto|].
  apply (ri_absent _ _ _ I) in E as (_ & _ & E). exfalso.
  pose proof (nchild_remove r k s p Hk) as H. cbn [is_child] in H. rewrite Hp, Nat.eqb_refl in H. lia.
Qed.

(** a change of one span that keeps its parent link, together with any change of the handle counts
    and of the stack that leaves the other spans' summands alone *)
Lemma inv_update sym sym' r x x' k s s' stacks' :
  reg_inv_ex sym r x ->
  reg_get r k = Some s -> rs_parent s' = rs_parent s ->
  n_spans sym' = n_spans sym ->
  (forall j, j <> k -> handles sym' j = handles sym j /\ sref sym' j = sref sym j
                       /\ excess x' j = excess x j) ->
  (rs_refs s' = handles sym' k + sref sym' k + nchild r k + excess x' k /\ 0 < rs_refs s') ->
  (forall t, rstack_of stacks' t = flag_stack (stk sym' t)) ->
  reg_inv_ex sym' (mk_reg (rg_spans (reg_set r k s')) stacks') x'.
Proof.
  intros I Hk Hp Hn Hoth Hrefs Hst.
  set (r' := mk_reg (rg_spans (reg_set r k s')) stacks').
  assert (Hget : forall j, reg_get r' j = if Nat.eqb j k then Some s' else reg_get r j).
  { intros j. change (reg_get r' j) with (reg_get (reg_set r k s') j).
    apply (reg_get_set_present _ _ _ _ _ Hk). }
  assert (Hnc : forall j, nchild r' j = nchild r j).
  { intros j. change (nchild r' j) with (nchild (reg_set r k s') j). apply (nchild_set _ _ _ _ _ Hk Hp). }
  constructor.
  - change (reg_next r') with (reg_next (reg_set r k s')). rewrite reg_next_set, Hn. apply (ri_len _ _ _ I).
  - intros j sj p Hj Hpj. rewrite Hget in Hj. destruct (Nat.eqb_spec j k) as [->|Hne].
    + injection Hj as <-. rewrite Hp in Hpj. eapply (ri_parent _ _ _ I); eauto.
    + eapply (ri_parent _ _ _ I); eauto.
  - intros j sj Hj. rewrite Hget in Hj. rewrite Hnc. destruct (Nat.eqb_spec j k) as [->|Hne].
    + injection Hj as <-. exact Hrefs.
    + destruct (Hoth j Hne) as (H1 & H2 & H3). rewrite H1, H2, H3.
      apply (ri_refs _ _ _ I). exact Hj.
  - intros j Hj. rewrite Hget in Hj. rewrite Hnc. destruct (Nat.eqb_spec j k) as [E|Hne]; [discriminate|].
    destruct (Hoth j Hne) as (H1 & H2 & _). rewrite H1, !on_any_stack_nrefs, H2, <- on_any_stack_nrefs.
    apply (ri_absent _ _ _ I). exact Hj.
  - exact Hst.
Qed.

(** removing a span whose last reference is gone: the reference it held on its parent is now in
    excess *)
Lemma inv_remove sym r k s :
  reg_inv_ex sym r (Some k) -> reg_get r k = Some s -> rs_refs s = 1 ->
  handles sym k = 0 /\ on_any_stack sym k = false /\ nchild r k = 0 /\
  reg_inv_ex sym (reg_remove r k) (rs_parent s).
Proof.
  intros I Hk H1.
  destruct (ri_refs _ _ _ I k s Hk) as [Hr _]. cbn [excess] in Hr. rewrite Nat.eqb_refl in Hr.
  assert (Hh : handles sym k = 0) by lia.
  assert (Hs : on_any_stack sym k = false) by (apply sref_zero_any; lia).
  assert (Hc : nchild r k = 0) by lia.
  split; [exact Hh|]. split; [exact Hs|]. split; [exact Hc|].
  constructor.
  - rewrite reg_next_remove. apply (ri_len _ _ _ I).
  - intros j sj p Hj Hp. rewrite reg_get_remove in Hj. destruct (Nat.eqb j k); [discriminate|].
    eapply (ri_parent _ _ _ I); eauto.
  - intros j sj Hj. rewrite reg_get_remove in Hj. destruct (Nat.eqb_spec j k) as [E|Hne]; [discriminate|].
    destruct (ri_refs _ _ _ I j sj Hj) as [Hrj Hpos]. split; [|exact Hpos].
    pose proof (nchild_remove r k s j Hk) as Hn. cbn [excess] in Hrj.
    destruct (Nat.eqb_spec k j); [congruence|].
    unfold excess. cbn [is_child] in Hn. destruct (rs_parent s) as [p|]; lia.
  - intros j Hj. rewrite reg_get_remove in Hj. pose proof (nchild_remove r k s j Hk) as Hn.
    destruct (Nat.eqb_spec j k) as [E|Hne].
    + subst j. split; [exact Hh|]. split; [exact Hs|]. lia.
    + destruct (ri_absent _ _ _ I j Hj) as (A & B & C). split; [exact A|]. split; [exact B|]. lia.
  - exact (ri_stack _ _ _ I).
Qed.

(** appending a span whose parent reference is already accounted for as an excess *)
Lemma inv_app sym r lp cs meta raw :
  reg_inv_ex sym r lp ->
  (forall p, lp = Some p -> exists ps, reg_get r p = Some ps) ->
  reg_inv (mk_sym (ss_spans sym ++ [mk_sspan cs 1]) (ss_stacks sym))
          (reg_app r (mk_rspan meta raw lp 1 [])).
Proof.
  intros I Hlp. set (new := mk_rspan meta raw lp 1 []).
  set (sym' := mk_sym (ss_spans sym ++ [mk_sspan cs 1]) (ss_stacks sym)).
  assert (Hlen := ri_len _ _ _ I).
  assert (Hnone : reg_get r (reg_next r) = None).
  { destruct (reg_get r (reg_next r)) eqn:E; [|reflexivity]. apply reg_get_lt in E. lia. }
  destruct (ri_absent _ _ _ I _ Hnone) as (_ & Hns & Hnc).
  assert (Hh : forall j, handles sym' j = if Nat.eqb j (reg_next r) then 1 else handles sym j).
  { intros j. unfold sym'. rewrite handles_app, Hlen. reflexivity. }
  constructor.
  - rewrite reg_next_app, Hlen. unfold n_spans, sym'. cbn. rewrite app_length. cbn. lia.
  - intros j sj p Hj Hp. rewrite reg_get_app in Hj. destruct (Nat.eqb_spec j (reg_next r)) as [->|Hne].
    + injection Hj as <-. cbn in Hp. destruct (Hlp p Hp) as [ps Hps]. eapply reg_get_lt; eauto.
    + eapply (ri_parent _ _ _ I); eauto.
  - intros j sj Hj. rewrite reg_get_app in Hj. rewrite nchild_app, Hh.
    change (sref sym' j) with (sref sym j).
    destruct (Nat.eqb_spec j (reg_next r)) as [->|Hne].
    + injection Hj as <-. cbn [rs_refs new]. apply sref_zero_any in Hns. rewrite Hns, Hnc. cbn [excess is_child rs_parent new].
      destruct lp as [p|]; [|lia].
      destruct (Hlp p eq_refl) as [ps Hps]. apply reg_get_lt in Hps.
      destruct (Nat.eqb_spec p (reg_next r)); lia.
    + destruct (ri_refs _ _ _ I j sj Hj) as [Hr Hpos]. split; [|exact Hpos].
      rewrite Hr. unfold excess. cbn [is_child rs_parent new]. destruct lp as [p|]; lia.
  - intros j Hj. rewrite reg_get_app in Hj. destruct (Nat.eqb_spec j (reg_next r)) as [E|Hne]; [discriminate|].
    destruct (ri_absent _ _ _ I j Hj) as (A & B & C). rewrite Hh, nchild_app.
    destruct (Nat.eqb_spec j (reg_next r)); [contradiction|].
    split; [exact A|]. split; [exact B|]. cbn [is_child rs_parent new].
    destruct lp as [p|]; [|lia]. destruct (Nat.eqb_spec p j) as [->|]; [|lia].
    destruct (Hlp j eq_refl) as [ps Hps]. congruence.
  - exact (ri_stack _ _ _ I).
Qed.

(** ** Everything of a span but its reference count *)
Definition shape (s : rspan) := (rs_meta s, rs_raw s, rs_parent s, rs_ext s).
Definition same_shape (r r' : reg) : Prop :=
  reg_next r' = reg_next r /\ forall j, option_map shape (reg_get r' j) = option_map shape (reg_get r j).

Lemma same_shape_refl r : same_shape r r.
Proof. split; auto. Qed.
Lemma same_shape_trans r1 r2 r3 : same_shape r1 r2 -> same_shape r2 r3 -> same_shape r1 r3.
Proof. intros [A B] [C D]. split; [congruence|]. intros j. rewrite D. apply B. Qed.
Lemma same_shape_stacks r stacks : same_shape r (mk_reg (rg_spans r) stacks).
Proof. split; reflexivity. Qed.
Lemma same_shape_refs r k s n : reg_get r k = Some s -> same_shape r (reg_set r k (with_refs s n)).
Proof.
  intros H. split; [apply reg_next_set|]. intros j. rewrite (reg_get_set_present _ _ _ _ _ H).
  destruct (Nat.eqb_spec j k) as [->|]; [|reflexivity]. rewrite H. reflexivity.
Qed.
Lemma same_shape_get r r' j s :
  same_shape r r' -> reg_get r j = Some s ->
  exists s', reg_get r' j = Some s' /\ shape s' = shape s.
Proof.
  intros [_ H] Hj. specialize (H j). rewrite Hj in H. destruct (reg_get r' j) as [s'|]; [|discriminate].
  exists s'. split; [reflexivity|]. cbn in H. congruence.
Qed.
Lemma same_shape_none r r' j : same_shape r r' -> reg_get r j = None -> reg_get r' j = None.
Proof. intros [_ H] Hj. specialize (H j). rewrite Hj in H. destruct (reg_get r' j); [discriminate | reflexivity]. Qed.
Lemma same_shape_present r r' j : same_shape r r' -> reg_present r' j = reg_present r j.
Proof.
  intros [_ H]. specialize (H j). unfold reg_present.
  destruct (reg_get r' j), (reg_get r j); cbn in H; congruence.
Qed.

Lemma reg_remove_set r k s : reg_remove (reg_set r k s) k = reg_remove r k.
Proof.
  unfold reg_remove, reg_set. cbn [rg_spans rg_stacks]. f_equal.
  apply list_ext. intros j. rewrite !set_nth_nth, set_nth_length.
  destruct (Nat.eqb j k); reflexivity.
Qed.

(** ** The Registry operations of a well-formed program; [tid]: the thread that issues the operation *)

Lemma current_ok sym r tid : reg_inv sym r -> reg_current_span r tid = first_outer (stk sym tid).
Proof.
  intros I. unfold reg_current_span. rewrite (ri_stack _ _ _ I), stack_current_flag.
  destruct (first_outer (stk sym tid)) as [c|] eqn:E; [|reflexivity].
  apply first_outer_on_stack in E. destruct (inv_stack_present _ _ _ _ _ I E) as [s Hs].
  unfold reg_present. rewrite Hs. reflexivity.
Qed.

Lemma clone_excess sym r p s :
  reg_inv sym r -> reg_get r p = Some s ->
  reg_clone_span r p = ROk (reg_set r p (with_refs s (rs_refs s + 1))) /\
  reg_inv_ex sym (reg_set r p (with_refs s (rs_refs s + 1))) (Some p).
Proof.
  intros I Hp. destruct (ri_refs _ _ _ I p s Hp) as [Hr Hpos]. split.
  - unfold reg_clone_span. rewrite Hp. destruct (N.eqb_spec (rs_refs s) 0); [lia | reflexivity].
  - change (reg_set r p (with_refs s (rs_refs s + 1)))
      with (mk_reg (rg_spans (reg_set r p (with_refs s (rs_refs s + 1)))) (rg_stacks r)).
    eapply inv_update; eauto.
    + intros j Hne. repeat split. cbn. destruct (Nat.eqb_spec p j); [congruence | reflexivity].
    + cbn [rs_refs with_refs excess] in *. rewrite Nat.eqb_refl. lia.
    + exact (ri_stack _ _ _ I).
Qed.

Lemma clone_ok sym r k :
  reg_inv sym r -> live sym k = true ->
  exists s, reg_get r k = Some s /\
    reg_clone_span r k = ROk (reg_set r k (with_refs s (rs_refs s + 1))) /\
    reg_inv (mk_sym (set_handles (ss_spans sym) k (handles sym k + 1)) (ss_stacks sym))
            (reg_set r k (with_refs s (rs_refs s + 1))).
Proof.
  intros I Hl. destruct (inv_live_present _ _ _ _ I Hl) as [s Hs]. exists s. split; [exact Hs|].
  destruct (ri_refs _ _ _ I k s Hs) as [Hr Hpos]. split.
  - unfold reg_clone_span. rewrite Hs. destruct (N.eqb_spec (rs_refs s) 0); [lia | reflexivity].
  - apply live_pos in Hl. pose proof (handles_pos_lt _ _ Hl) as Hlt.
    change (reg_set r k (with_refs s (rs_refs s + 1)))
      with (mk_reg (rg_spans (reg_set r k (with_refs s (rs_refs s + 1)))) (rg_stacks r)).
    eapply inv_update; eauto.
    + unfold n_spans. cbn. apply set_handles_length.
    + intros j Hne. rewrite handles_set. destruct (Nat.eqb_spec j k); [contradiction|]. repeat split.
    + rewrite handles_set, Nat.eqb_refl. destruct (Nat.ltb_spec k (n_spans sym)); [|lia].
      cbn [rs_refs with_refs excess] in *. change (sref (mk_sym _ (ss_stacks sym)) k) with (sref sym k). lia.
    + exact (ri_stack _ _ _ I).
Qed.

Lemma new_span_ok sym r tid cs meta pk raw :
  reg_inv sym r -> wf_parent sym pk = true ->
  let lp := match pk with
            | PKRoot => None
            | PKExplicit j => Some j
            | PKCtx => first_outer (stk sym tid)
            end in
  exists r1,
    reg_new_span r tid meta pk raw = ROk (reg_app r1 (mk_rspan meta raw lp 1 []), reg_next r) /\
    same_shape r r1 /\
    (forall p, lp = Some p -> exists ps, reg_get r p = Some ps) /\
    reg_inv (mk_sym (ss_spans sym ++ [mk_sspan cs 1]) (ss_stacks sym))
            (reg_app r1 (mk_rspan meta raw lp 1 [])).
Proof.
  intros I Hwf lp.
  assert (Hsome : forall p s, lp = Some p -> reg_get r p = Some s ->
            exists r1, (let* (r1, parent) := (let* r1 := reg_clone_span r p in ROk (r1, Some p)) in
                        ROk (mk_reg (rg_spans r1 ++ [Some (mk_rspan meta raw parent 1 [])]) (rg_stacks r1), reg_next r1))
                       = ROk (reg_app r1 (mk_rspan meta raw lp 1 []), reg_next r) /\
              same_shape r r1 /\
              reg_inv (mk_sym (ss_spans sym ++ [mk_sspan cs 1]) (ss_stacks sym))
                      (reg_app r1 (mk_rspan meta raw lp 1 []))).
  { intros p s Elp Hp. destruct (clone_excess _ _ _ _ I Hp) as [Hc Hi].
    exists (reg_set r p (with_refs s (rs_refs s + 1))). rewrite Hc. cbn [rbind]. rewrite reg_next_set, Elp.
    split; [reflexivity|]. split; [apply same_shape_refs; exact Hp|].
    apply inv_app; [exact Hi|]. intros q Eq. injection Eq as <-.
    rewrite (reg_get_set_present _ _ _ _ _ Hp), Nat.eqb_refl. eauto. }
  unfold reg_new_span. destruct pk as [| |j]; cbn [wf_parent] in Hwf.
  - (* contextual *)
    rewrite (current_ok _ _ tid I). subst lp. destruct (first_outer (stk sym tid)) as [c|] eqn:Ec.
    + apply first_outer_on_stack in Ec as Hon. destruct (inv_stack_present _ _ _ _ _ I Hon) as [s Hs].
      destruct (Hsome c s eq_refl Hs) as (r1 & E1 & E2 & E3). exists r1. split; [exact E1|].
      split; [exact E2|]. split; [|exact E3]. intros p Ep. injection Ep as <-. eauto.
    + exists r. split; [reflexivity|]. split; [apply same_shape_refl|]. split; [discriminate|].
      apply inv_app; [exact I | discriminate].
  - (* explicit root *)
    exists r. split; [reflexivity|]. split; [apply same_shape_refl|]. split; [discriminate|].
    apply inv_app; [exact I | discriminate].
  - (* explicit parent *)
    destruct (inv_live_present _ _ _ _ I Hwf) as [s Hs].
    destruct (Hsome j s eq_refl Hs) as (r1 & E1 & E2 & E3). exists r1. split; [exact E1|].
    split; [exact E2|]. split; [|exact E3]. intros p Ep. injection Ep as <-. eauto.
Qed.

Lemma sym_stk_set sym spans tid s t :
  stk (mk_sym spans (set_stack (ss_stacks sym) tid s)) t = if Nat.eqb t tid then s else stk sym t.
Proof. unfold stk. cbn [ss_stacks]. apply stack_of_set. Qed.

Lemma sref_set_stack sym spans tid s k :
  sref (mk_sym spans (set_stack (ss_stacks sym) tid s)) k + b2n (on_stack (stk sym tid) k)
  = sref sym k + b2n (on_stack s k).
Proof. unfold sref, stk. cbn [ss_stacks]. apply nrefs_set_stack. Qed.

(** the Registry's stacks after thread [tid]'s stack has been replaced *)
Lemma stacks_set_ok sym r spans tid s :
  (forall t, rstack_of (rg_stacks r) t = flag_stack (stk sym t)) ->
  forall t, rstack_of (rset_stack (rg_stacks r) tid (flag_stack s)) t
            = flag_stack (stk (mk_sym spans (set_stack (ss_stacks sym) tid s)) t).
Proof.
  intros H t. rewrite rstack_of_set, sym_stk_set. destruct (Nat.eqb t tid); [reflexivity | apply H].
Qed.

Lemma on_stack_cons s k j : on_stack (k :: s) j = Nat.eqb j k || on_stack s j.
Proof. reflexivity. Qed.

Lemma enter_ok sym r tid k :
  reg_inv sym r -> live sym k = true ->
  exists r1, reg_enter r tid k = ROk r1 /\ same_shape r r1 /\
    reg_inv (mk_sym (ss_spans sym) (set_stack (ss_stacks sym) tid (k :: stk sym tid))) r1.
Proof.
  intros I Hl. destruct (inv_live_present _ _ _ _ I Hl) as [s Hs].
  destruct (ri_refs _ _ _ I k s Hs) as [Hr Hpos]. cbn [excess] in Hr.
  set (sym' := mk_sym (ss_spans sym) (set_stack (ss_stacks sym) tid (k :: stk sym tid))).
  pose proof (fun j => sref_set_stack sym (ss_spans sym) tid (k :: stk sym tid) j) as Hsref.
  fold sym' in Hsref.
  unfold reg_enter. rewrite (ri_stack _ _ _ I), stack_push_flag.
  set (stacks' := rset_stack (rg_stacks r) tid (flag_stack (k :: stk sym tid))).
  assert (Hst : forall t, rstack_of stacks' t = flag_stack (stk sym' t)).
  { apply stacks_set_ok. exact (ri_stack _ _ _ I). }
  assert (Hoth : forall j, j <> k -> handles sym' j = handles sym j
                   /\ sref sym' j = sref sym j /\ excess None j = excess None j).
  { intros j Hne. specialize (Hsref j). rewrite on_stack_cons in Hsref.
    destruct (Nat.eqb_spec j k); [contradiction|]. cbn [orb] in Hsref. repeat split. lia. }
  specialize (Hsref k). rewrite on_stack_cons, Nat.eqb_refl in Hsref. cbn [orb b2n] in Hsref.
  destruct (on_stack (stk sym tid) k) eqn:Eon; cbn [negb b2n] in *.
  - (* duplicate: no clone *)
    exists (mk_reg (rg_spans r) stacks'). split; [reflexivity|]. split; [apply same_shape_stacks|].
    rewrite <- (set_nth_same (rg_spans r) k (Some s)) at 1.
    2:{ unfold reg_get in Hs. destruct (nth_error (rg_spans r) k) as [[x|]|]; congruence. }
    change (set_nth (rg_spans r) k (Some s)) with (rg_spans (reg_set r k s)).
    eapply inv_update; eauto.
    cbn [excess]. change (handles sym' k) with (handles sym k). split; [lia | exact Hpos].
  - (* first enter: clone *)
    assert (Hs' : reg_get (mk_reg (rg_spans r) stacks') k = Some s) by exact Hs.
    unfold reg_clone_span. rewrite Hs'. destruct (N.eqb_spec (rs_refs s) 0); [lia|].
    eexists. split; [reflexivity|]. split.
    { eapply same_shape_trans; [apply (same_shape_stacks r stacks')|]. apply same_shape_refs. exact Hs'. }
    change (reg_set (mk_reg (rg_spans r) stacks') k (with_refs s (rs_refs s + 1)))
      with (mk_reg (rg_spans (reg_set r k (with_refs s (rs_refs s + 1)))) stacks').
    eapply inv_update; eauto.
    cbn [excess rs_refs with_refs]. change (handles sym' k) with (handles sym k). lia.
Qed.

(** [Layered::try_close] on a span that keeps other references: no callback *)
Lemma sub_try_close_keep {L} (deliver : reg -> nat -> lcallback -> L -> result (reg * L))
      fuel r l tid k s :
  reg_get r k = Some s -> 1 < rs_refs s ->
  sub_try_close deliver (S fuel) r l tid k = ROk (reg_set r k (with_refs s (rs_refs s - 1)), l).
Proof.
  intros Hs Hr. cbn [sub_try_close]. unfold reg_try_close. rewrite Hs. cbn [rbind].
  destruct (N.leb_spec (rs_refs s) 1); [lia | reflexivity].
Qed.

Lemma exit_ok {L} (deliver : reg -> nat -> lcallback -> L -> result (reg * L)) sym r l tid k :
  reg_inv sym r -> live sym k = true -> on_stack (stk sym tid) k = true ->
  exists r2,
    (let '(r1, fresh) := reg_exit_pop r tid k in
     if fresh then sub_try_close deliver (close_fuel r1) r1 l tid k else ROk (r1, l)) = ROk (r2, l) /\
    same_shape r r2 /\
    reg_inv (mk_sym (ss_spans sym) (set_stack (ss_stacks sym) tid (remove_first (stk sym tid) k))) r2.
Proof.
  intros I Hl Hon. destruct (inv_live_present _ _ _ _ I Hl) as [s Hs].
  destruct (ri_refs _ _ _ I k s Hs) as [Hr Hpos]. cbn [excess] in Hr.
  apply live_pos in Hl.
  set (sym' := mk_sym (ss_spans sym) (set_stack (ss_stacks sym) tid (remove_first (stk sym tid) k))).
  pose proof (fun j => sref_set_stack sym (ss_spans sym) tid (remove_first (stk sym tid) k) j) as Hsref.
  fold sym' in Hsref.
  unfold reg_exit_pop. rewrite (ri_stack _ _ _ I), (stack_pop_flag _ _ Hon).
  set (stacks' := rset_stack (rg_stacks r) tid (flag_stack (remove_first (stk sym tid) k))).
  assert (Hst : forall t, rstack_of stacks' t = flag_stack (stk sym' t)).
  { apply stacks_set_ok. exact (ri_stack _ _ _ I). }
  assert (Hoth : forall j, j <> k -> handles sym' j = handles sym j
                   /\ sref sym' j = sref sym j /\ excess None j = excess None j).
  { intros j Hne. specialize (Hsref j). rewrite on_stack_remove_first_other in Hsref by exact Hne.
    repeat split. lia. }
  specialize (Hsref k). rewrite Hon in Hsref. cbn [b2n] in Hsref.
  assert (Hs' : reg_get (mk_reg (rg_spans r) stacks') k = Some s) by exact Hs.
  destruct (on_stack (remove_first (stk sym tid) k) k) eqn:Eon; cbn [negb b2n] in *.
  - (* the removed entry was a duplicate *)
    exists (mk_reg (rg_spans r) stacks'). split; [reflexivity|]. split; [apply same_shape_stacks|].
    rewrite <- (set_nth_same (rg_spans r) k (Some s)) at 1.
    2:{ unfold reg_get in Hs. destruct (nth_error (rg_spans r) k) as [[x|]|]; congruence. }
    change (set_nth (rg_spans r) k (Some s)) with (rg_spans (reg_set r k s)).
    eapply inv_update; eauto.
    cbn [excess]. change (handles sym' k) with (handles sym k). split; [lia | exact Hpos].
  - (* last stack entry of the span: its reference is dropped; the handle keeps the span open *)
    unfold close_fuel. rewrite (sub_try_close_keep deliver _ _ _ _ _ _ Hs') by lia.
    eexists. split; [reflexivity|]. split.
    { eapply same_shape_trans; [apply (same_shape_stacks r stacks')|]. apply same_shape_refs. exact Hs'. }
    change (reg_set (mk_reg (rg_spans r) stacks') k (with_refs s (rs_refs s - 1)))
      with (mk_reg (rg_spans (reg_set r k (with_refs s (rs_refs s - 1)))) stacks').
    eapply inv_update; eauto.
    cbn [excess rs_refs with_refs].
    change (handles sym' k) with (handles sym k). lia.
Qed.

(** dropping a handle: the reference it held is in excess until [try_close] has run *)
Lemma drop_start sym r k :
  reg_inv sym r -> live sym k = true ->
  reg_inv_ex (mk_sym (set_handles (ss_spans sym) k (handles sym k - 1)) (ss_stacks sym)) r (Some k).
Proof.
  intros I Hl. destruct (inv_live_present _ _ _ _ I Hl) as [s Hs].
  destruct (ri_refs _ _ _ I k s Hs) as [Hr Hpos]. cbn [excess] in Hr.
  apply live_pos in Hl. pose proof (handles_pos_lt _ _ Hl) as Hlt.
  replace r with (mk_reg (rg_spans (reg_set r k s)) (rg_stacks r)) at 1.
  2:{ destruct r as [sp stx]. unfold reg_set. cbn. f_equal. apply set_nth_same.
      unfold reg_get in Hs. cbn in Hs. destruct (nth_error sp k) as [[x|]|]; congruence. }
  eapply inv_update; eauto.
  - unfold n_spans. cbn. apply set_handles_length.
  - intros j Hne. rewrite handles_set. destruct (Nat.eqb_spec j k); [contradiction|].
    cbn [excess]. destruct (Nat.eqb_spec k j); [congruence|]. repeat split.
  - rewrite handles_set, Nat.eqb_refl. destruct (Nat.ltb_spec k (n_spans sym)); [|lia].
    cbn [excess]. rewrite Nat.eqb_refl.
    change (sref (mk_sym _ (ss_stacks sym)) k) with (sref sym k). split; [lia | exact Hpos].
  - exact (ri_stack _ _ _ I).
Qed.

(** [try_close] on the span whose reference is in excess *)
Lemma try_close_keep sym r k s :
  reg_inv_ex sym r (Some k) -> reg_get r k = Some s -> 1 < rs_refs s ->
  reg_inv sym (reg_set r k (with_refs s (rs_refs s - 1))).
Proof.
  intros I Hs Hr. destruct (ri_refs _ _ _ I k s Hs) as [Hrr Hpos]. cbn [excess] in Hrr.
  rewrite Nat.eqb_refl in Hrr.
  change (reg_set r k (with_refs s (rs_refs s - 1)))
    with (mk_reg (rg_spans (reg_set r k (with_refs s (rs_refs s - 1)))) (rg_stacks r)).
  eapply inv_update; eauto.
  - intros j Hne. cbn [excess]. destruct (Nat.eqb_spec k j); [congruence|]. repeat split.
  - cbn [excess rs_refs with_refs]. lia.
  - exact (ri_stack _ _ _ I).
Qed.

Lemma try_close_last_refs sym r k s :
  reg_inv_ex sym r (Some k) -> reg_get r k = Some s -> rs_refs s <= 1 -> rs_refs s = 1.
Proof. intros I Hs Hr. destruct (ri_refs _ _ _ I k s Hs) as [_ Hpos]. lia. Qed.
