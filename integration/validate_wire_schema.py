#!/usr/bin/env python3
"""Optional cross-check: validates sample documents written by the C11 harness against
/verif/wire-0.2.schema.json (JSON Schema draft 2020-12).

    python3-vt integration/validate_wire_schema.py [run/C11/main/wire_samples.json]

The Coq judge (conforms_event / conforms_spans / conforms_metadata of Wire/Codec.v) decides the
property; this script only ties the schema file to what the implementation writes, and checks that
a few documents a 0.2 writer never produces are rejected by the schema.  Exit 0 = all as expected.
"""
import json
import os
import sys

import jsonschema

ROOT = os.path.dirname(os.path.dirname(os.path.abspath(__file__)))


def validator(schema, name):
    sub = {"$schema": schema["$schema"], "$defs": schema["$defs"], "$ref": f"#/$defs/{name}"}
    cls = jsonschema.validators.validator_for(sub)
    cls.check_schema(sub)
    return cls(sub)


def main():
    schema = json.load(open(os.path.join(ROOT, "wire-0.2.schema.json")))
    path = sys.argv[1] if len(sys.argv) > 1 else os.path.join(ROOT, "run", "C11", "main", "wire_samples.json")
    samples = json.load(open(path))
    bad = 0
    counts = {}
    for key, name in (("events", "TracingEvent"), ("spans", "PersistedSpans"), ("metadata", "PersistedMetadata")):
        v = validator(schema, name)
        counts[key] = len(samples.get(key, []))
        for doc in samples.get(key, []):
            errs = list(v.iter_errors(doc))
            if errs:
                bad += 1
                print(f"NOT VALID as {name}: {json.dumps(doc, ensure_ascii=False)[:300]}\n   {errs[0].message[:300]}")
            if name != "TracingEvent":
                for k in doc:
                    if int(k) >= 2 ** 64:
                        bad += 1
                        print(f"id key out of u64 range: {k}")
    # documents outside the format must be rejected
    ev = validator(schema, "TracingEvent")
    negatives = [
        {"span_entered": {"id": 2 ** 64}},
        {"span_entered": {"id": -1}},
        {"span_entered": {"id": 1, "extra": 1}},
        {"span_entered": {"id": 1}, "span_exited": {"id": 1}},
        {"new_span": {"id": 1, "parent_id": None, "metadata_id": 1, "values": {}}},
        {"new_span": {"id": 1, "metadata_id": 1}},
        {"values_recorded": {"id": 1, "values": {"x": {"float": None}}}},
        {"values_recorded": {"id": 1, "values": {"x": {"int": 2 ** 127}}}},
        {"values_recorded": {"id": 1, "values": {"x": {"u_int": -1}}}},
        {"values_recorded": {"id": 1, "values": {"x": {"error": {"message": "m"}}}}},
        {"values_recorded": {"id": 1, "values": {"x": {"uint": 1}}}},
        {"new_call_site": {"id": 1, "kind": "Span", "name": "n", "target": "t", "level": "info", "fields": []}},
        {"new_call_site": {"id": 1, "kind": "span", "name": "n", "target": "t", "level": "info", "fields": [], "line": 2 ** 32}},
        {"SpanEntered": {"id": 1}},
    ]
    for doc in negatives:
        if ev.is_valid(doc):
            bad += 1
            print(f"schema accepts a non-0.2 document: {json.dumps(doc)}")
    sp = validator(schema, "PersistedSpans")
    for doc in ({"01": {"metadata_id": 1, "ref_count": 1, "values": {}}}, {"": {"metadata_id": 1, "ref_count": 1, "values": {}}},
                {"1": {"metadata_id": 1, "values": {}}}, []):
        if sp.is_valid(doc):
            bad += 1
            print(f"schema accepts a non-0.2 document: {json.dumps(doc)}")
    print(f"validated {counts} sample documents and {len(negatives) + 4} negative documents against wire-0.2.schema.json: "
          + ("all as expected" if not bad else f"{bad} problems"))
    return 1 if bad else 0


if __name__ == "__main__":
    sys.exit(main())
