#!/bin/sh
# Builds the framework offline: full .vo build of the Coq development, then the Rust harness.
set -e
cd "$(dirname "$0")"
export CARGO_NET_OFFLINE=true
cd coq
coq_makefile -f _CoqProject $(find theories -name '*.v' | sort) -o Makefile > /dev/null
timeout 3000 make -j16
cd ../harness
timeout 3000 cargo build --release --offline
