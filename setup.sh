#!/bin/sh
# Builds the framework offline: full .vo build (no -vos) of the Coq files every registered check
# needs, then the Rust harness.
set -e
cd "$(dirname "$0")"
export CARGO_NET_OFFLINE=true
TARGETS=$(python3 -c "
import json
m = json.load(open('MANIFEST.json'))
import os
def t(p):
    link = ' theories/Props/%sLink.vo' % p if os.path.exists('coq/theories/Props/%sLink.v' % p) else ''
    return 'theories/Props/%s.vo theories/Judge/%s.vo%s' % (p, p, link)
print(' '.join(t(c['property_id']) for c in m['checks']))")
cd coq
coq_makefile -f _CoqProject $(find theories -name '*.v' | sort) -o Makefile > /dev/null
timeout 3000 make -j16 $TARGETS
cd ../harness
timeout 3000 cargo build --release --offline
