"""Texts for MANIFEST.json."""
HOOK_COMMITS = ["782740f"]

# properties whose check is registered in MANIFEST.json
CLAIMED = ["C01", "C02", "C03", "C04", "C05", "C06", "C07", "C08", "C09", "C10", "C11", "C12", "C13", "C14", "C15", "C16", "C17", "C18", "C19", "C20"]

NOT_YET = "not claimed yet: model, theorems and correspondence check for this property are still under construction (see DESIGN.md section 7); no check is registered, so nothing is asserted about it"

NOT_APPLICABLE = {f"C{n:02d}": NOT_YET for n in range(1, 21)}

LEVEL_TEXT = {
    "C15": {
        "text": "Theorems in Coq over the vector model of TracedValues and the conversion tables of TracedValue: every reachable collection is the denotation of its insertion history (distinct names, first-insertion order, latest value); insert/get/len/extend/collect/deserialize refine that specification; v == x iff the typed accessor succeeds with an equal result; 64-bit views succeed exactly when the number fits. Proved for all operation sequences and all values, unbounded. The model is tied to tunnel/src/values.rs and value.rs by a correspondence run on every check. Every op sequence is also run with borrowed keys (TracedValues<&str>) cut from one buffer so that a name that is a prefix of another starts at the same address; a deviating run is the one judged. Whenever two runs that must behave alike differ (owned / borrowed keys), both are judged and the case gets the worse verdict.",
        "design_ref": "DESIGN.md section 7, C15",
        "note": "Trusted: Coq kernel + vm_compute; the hand-written model (tied by correspondence on ~8k cases per quick run: exhaustive short insert sequences, random op sequences incl. duplicate-key JSON, full boundary grid of values x typed constants); harness; f64 hardware comparison modelled on bit patterns. No axioms.",
        "technique": "Coq proof (induction over histories, refinement to a history specification) + vm_compute correspondence against the Rust implementation",
    },
}

# Entries delivered with a property live in integration/Cxx.manifest.json.
import glob as _glob, json as _json, os as _os
for _p in sorted(_glob.glob(_os.path.join(_os.path.dirname(_os.path.abspath(__file__)), "integration", "C*.manifest.json"))):
    _id = _os.path.basename(_p).split(".")[0]
    LEVEL_TEXT.setdefault(_id, _json.load(open(_p)))
