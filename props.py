"""Per-property configuration of the check driver."""

COMMON_TRUSTED = [
    "Coq 8.16.1 kernel incl. the vm_compute machine (used to evaluate the model on correspondence cases); native_compute not used; no extraction",
    "Coq standard library and std++ 1.8.0 as compiled on this image; no axioms declared by this development",
    "hand-written Gallina model as a transcription of the Rust code, tied to /repo only by the correspondence run of this check",
    "Rust harness (generators, execution of the implementation, canonicalisation, Gallina printer) and the Python driver",
    "rustc / cargo and the crates pinned by /repo's Cargo.lock",
]

PROPS = {
    "C15": {
        "correspondence": "corr_values_ops / corr_value_conv (Judge/C15.v: model_obs, eq_vc/eq_cv/as_type vs tunnel/src/values.rs, value.rs)",
        "trusted": ["hardware f64 comparison is modelled by f64_eq on bit patterns (validated on boundary floats)",
                    "serde_json tokenisation of the duplicate-key documents fed to Deserialize"],
        "assumptions": ["integers/strings of the model are unbounded; Rust ranges enter through wf_value/wf_const",
                        "no axioms: every theorem of Props/C15.v is closed under the global context"],
    },
}

# Entries under construction live in integration/Cxx.props.json until they are merged here.
import glob as _glob, json as _json, os as _os
for _p in sorted(_glob.glob(_os.path.join(_os.path.dirname(_os.path.abspath(__file__)), "integration", "C*.props.json"))):
    _id = _os.path.basename(_p).split(".")[0]
    if _id not in PROPS:
        PROPS[_id] = _json.load(open(_p))
