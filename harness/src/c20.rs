//! C20: `TracingEvent::normalize` is a canonical, collision-free renaming of call-site ids.
//!
//! Streams are built directly (all fields of `TracingEvent` / `CallSiteData` are public):
//! sender-shaped streams (announce before first use) with duplicate announcements injected at
//! arbitrary positions, references to never-announced ids, both kinds of call sites, lines
//! `Some`/`None`, big ids (up to `u64::MAX`) and small ids that coincide with normalized values.
use crate::{coq::*, out::Sink, rng::Rng, Opts};
use std::borrow::Cow;
use std::collections::{BTreeMap, BTreeSet};
use tracing_tunnel::{CallSiteData, CallSiteKind, TracedValue, TracedValues, TracingEvent, TracingLevel};

type Ev = TracingEvent;

const NAMES: &[&str] = &["a", "b", "compute", "event", "event src/lib.rs:7", "event tunnel/src/x.rs:120", "", "fib"];
const TARGETS: &[&str] = &["t", "app::module", "tracing_tunnel", ""];
const FILES: &[&str] = &["src/lib.rs", "tunnel/src/x.rs", "C:\\src\\main.rs", "a/b\\c.rs"];
const FIELD_NAMES: &[&str] = &["message", "x", "y", "approx"];
const LEVELS: &[TracingLevel] =
    &[TracingLevel::Error, TracingLevel::Warn, TracingLevel::Info, TracingLevel::Debug, TracingLevel::Trace];

fn cs(kind: CallSiteKind, name: &str, line: Option<u32>) -> CallSiteData {
    CallSiteData {
        kind,
        name: Cow::Owned(name.to_owned()),
        target: Cow::Borrowed("t"),
        level: TracingLevel::Info,
        module_path: None,
        file: None,
        line,
        fields: vec![],
    }
}
fn span_cs(name: &str, line: Option<u32>) -> CallSiteData {
    cs(CallSiteKind::Span, name, line)
}
fn event_cs(name: &str, line: Option<u32>) -> CallSiteData {
    cs(CallSiteKind::Event, name, line)
}
fn announce(id: u64, data: CallSiteData) -> Ev {
    Ev::NewCallSite { id, data }
}
fn new_span(id: u64, parent_id: Option<u64>, metadata_id: u64) -> Ev {
    Ev::NewSpan { id, parent_id, metadata_id, values: TracedValues::new() }
}
fn new_event(metadata_id: u64, parent: Option<u64>) -> Ev {
    Ev::NewEvent { metadata_id, parent, values: TracedValues::new() }
}

fn cevents(evs: &[Ev]) -> String {
    clist(evs.iter(), cevent)
}

/// call-site id carried by an event
fn cs_id(e: &Ev) -> Option<u64> {
    match e {
        Ev::NewCallSite { id, .. } => Some(*id),
        Ev::NewSpan { metadata_id, .. } | Ev::NewEvent { metadata_id, .. } => Some(*metadata_id),
        _ => None,
    }
}
fn cs_ids(evs: &[Ev]) -> Vec<u64> {
    evs.iter().filter_map(cs_id).collect()
}

fn stats(sink: &mut Sink, evs: &[Ev]) -> bool {
    let mut announced = BTreeSet::new();
    let mut all_announced = BTreeSet::new();
    for e in evs {
        if let Ev::NewCallSite { id, .. } = e {
            all_announced.insert(*id);
        }
    }
    for e in evs {
        let label = match e {
            Ev::NewCallSite { id, data } => {
                if !announced.insert(*id) {
                    sink.bump("shape:re-announcement");
                }
                if data.line.is_some() {
                    sink.bump("cs:line-some");
                } else {
                    sink.bump("cs:line-none");
                }
                match data.kind {
                    CallSiteKind::Span => "ev:new_call_site(span)",
                    CallSiteKind::Event => "ev:new_call_site(event)",
                }
            }
            Ev::NewSpan { metadata_id, .. } => {
                if !all_announced.contains(metadata_id) {
                    sink.bump("shape:reference-never-announced");
                } else if !announced.contains(metadata_id) {
                    sink.bump("shape:reference-before-announcement");
                }
                "ev:new_span"
            }
            Ev::NewEvent { metadata_id, .. } => {
                if !all_announced.contains(metadata_id) {
                    sink.bump("shape:reference-never-announced");
                } else if !announced.contains(metadata_id) {
                    sink.bump("shape:reference-before-announcement");
                }
                "ev:new_event"
            }
            Ev::FollowsFrom { .. } => "ev:follows_from",
            Ev::SpanEntered { .. } => "ev:span_entered",
            Ev::SpanExited { .. } => "ev:span_exited",
            Ev::SpanCloned { .. } => "ev:span_cloned",
            Ev::SpanDropped { .. } => "ev:span_dropped",
            Ev::ValuesRecorded { .. } => "ev:values_recorded",
            _ => "ev:other",
        };
        sink.bump(label);
    }
    let ids = cs_ids(evs);
    for id in &ids {
        if *id >= u64::MAX - 16 {
            sink.bump("id:near-u64-max");
        } else if *id < 8 {
            sink.bump("id:small(<8)");
        } else {
            sink.bump("id:other");
        }
    }
    sink.bump(match evs.len() {
        0 => "len:0",
        1..=4 => "len:1-4",
        5..=15 => "len:5-15",
        16..=40 => "len:16-40",
        _ => "len:41+",
    });
    let distinct: BTreeSet<u64> = ids.iter().copied().collect();
    // non-trivial: at least two different call sites, and some call site occurs at two positions
    distinct.len() >= 2 && distinct.len() < ids.len()
}

/// Shrinks a judge term printed with `crate::coq::cevent`: repeated `(mk_cs ...)` sub-terms and
/// repeated string literals are bound once by `let` (elaboration of string literals dominates the
/// cost of a case; a stream, its normal form and its relabelled copy share almost all of them).
/// Purely textual and printer-agnostic; `cstr` never emits a quote inside a literal.
fn compress(term: &str) -> String {
    fn literal_end(b: &[u8], start: usize) -> usize {
        // b[start] == '"'; returns the index just past the closing quote
        let mut i = start + 1;
        while b[i] != b'"' {
            i += 1;
        }
        i + 1
    }
    fn intern(table: &mut Vec<(String, String)>, prefix: &str, text: &str) -> String {
        if let Some(pos) = table.iter().position(|(_, t)| t == text) {
            return table[pos].0.clone();
        }
        let name = format!("{prefix}{}_", table.len());
        table.push((name.clone(), text.to_owned()));
        name
    }
    // balanced-parenthesis groups starting with one of `heads` are replaced by let-bound names
    fn groups(term: &str, heads: &[&str], min_len: usize, prefix: &str, table: &mut Vec<(String, String)>) -> String {
        let b = term.as_bytes();
        let mut body = String::with_capacity(term.len());
        let mut i = 0;
        while i < b.len() {
            if b[i] == b'"' {
                let e = literal_end(b, i);
                body.push_str(&term[i..e]);
                i = e;
            } else if b[i] == b'(' && heads.iter().any(|h| term[i + 1..].starts_with(h)) {
                let mut depth = 0usize;
                let mut j = i;
                loop {
                    match b[j] {
                        b'"' => {
                            j = literal_end(b, j);
                            continue;
                        }
                        b'(' => depth += 1,
                        b')' => {
                            depth -= 1;
                            if depth == 0 {
                                break;
                            }
                        }
                        _ => {}
                    }
                    j += 1;
                }
                if j + 1 - i >= min_len {
                    body.push_str(&intern(table, prefix, &term[i..=j]));
                } else {
                    body.push_str(&term[i..=j]);
                }
                i = j + 1;
            } else {
                // plain ASCII outside literals
                body.push(b[i] as char);
                i += 1;
            }
        }
        body
    }
    // pass 1: call-site records, then whole events (a stream and its images share most events)
    let mut cs_table: Vec<(String, String)> = vec![];
    let body = groups(term, &["mk_cs "], 0, "d", &mut cs_table);
    let mut ev_table: Vec<(String, String)> = vec![];
    let body = groups(&body, &["ENew", "EValuesRecorded "], 24, "e", &mut ev_table);
    // pass 2: string literals, in the call-site records and in the body
    let mut str_table: Vec<(String, String)> = vec![];
    let mut strings = |text: &str| -> String {
        let b = text.as_bytes();
        let mut out = String::with_capacity(text.len());
        let mut i = 0;
        while i < b.len() {
            if b[i] == b'"' {
                let e = literal_end(b, i);
                if e - i > 3 {
                    out.push_str(&intern(&mut str_table, "s", &text[i..e]));
                } else {
                    out.push_str(&text[i..e]);
                }
                i = e;
            } else {
                out.push(b[i] as char);
                i += 1;
            }
        }
        out
    };
    let cs_table: Vec<(String, String)> = cs_table.into_iter().map(|(n, t)| (n, strings(&t))).collect();
    let ev_table: Vec<(String, String)> = ev_table.into_iter().map(|(n, t)| (n, strings(&t))).collect();
    let body = strings(&body);
    let mut out = String::new();
    for (n, t) in str_table.iter().chain(cs_table.iter()).chain(ev_table.iter()) {
        out.push_str(&format!("let {n} := {t} in "));
    }
    out.push_str(&body);
    out
}

fn describe(evs: &[Ev]) -> serde_json::Value {
    serde_json::to_value(evs).unwrap_or(serde_json::Value::Null)
}

fn normalize_case(sink: &mut Sink, idx: u64, kind: &str, input: &[Ev]) {
    if !sink.wants(idx) {
        return;
    }
    let mut out = input.to_vec();
    TracingEvent::normalize(&mut out);
    let input_txt = cevents(input);
    let judge = compress(&format!("judge_normalize {input_txt} {}", cevents(&out)));
    let nontrivial = stats(sink, input);
    sink.case(idx, kind, &judge, &input_txt, nontrivial, || {
        serde_json::json!({ "input": describe(input), "impl_output": describe(&out) })
    });
}

fn relabel_case(sink: &mut Sink, idx: u64, kind: &str, input: &[Ev], relabelled: &[Ev], how: &str) {
    if !sink.wants(idx) {
        return;
    }
    let mut out1 = input.to_vec();
    TracingEvent::normalize(&mut out1);
    let mut out2 = relabelled.to_vec();
    TracingEvent::normalize(&mut out2);
    let in1 = cevents(input);
    let in2 = cevents(relabelled);
    let judge = compress(&format!("judge_relabel {in1} {in2} {} {}", cevents(&out1), cevents(&out2)));
    let nontrivial = stats(sink, input) && in1 != in2;
    sink.bump(&format!("relabel:{how}"));
    let key = format!("{in1} ~ {in2}");
    sink.case(idx, kind, &judge, &key, nontrivial, || {
        serde_json::json!({
            "input": describe(input), "relabelled": describe(relabelled), "relabelling": how,
            "impl_output_1": describe(&out1), "impl_output_2": describe(&out2),
        })
    });
}

// ---- generators -------------------------------------------------------------------------------

fn gen_value(r: &mut Rng) -> TracedValue {
    match r.below(6) {
        0 => TracedValue::Bool(r.chance(50)),
        1 => TracedValue::Int(i128::from(r.next() as i64) >> r.below(60)),
        2 => TracedValue::UInt(u128::from(r.next()) >> r.below(60)),
        3 => TracedValue::Float(f64::from_bits(0x3FF0_0000_0000_0000 | (r.next() >> 12))),
        4 => TracedValue::String((*r.pick(NAMES)).to_owned()),
        _ => mk_object(*r.pick(NAMES)),
    }
}
fn gen_values(r: &mut Rng) -> TracedValues<String> {
    let n = r.below(3);
    (0..n).map(|_| ((*r.pick(FIELD_NAMES)).to_owned(), gen_value(r))).collect()
}

fn gen_cs_data(r: &mut Rng) -> CallSiteData {
    let kind = if r.chance(50) { CallSiteKind::Span } else { CallSiteKind::Event };
    let nf = r.below(3) as usize;
    CallSiteData {
        kind,
        name: Cow::Owned((*r.pick(NAMES)).to_owned()),
        target: Cow::Borrowed(*r.pick(TARGETS)),
        level: *r.pick(LEVELS),
        module_path: if r.chance(50) { Some(Cow::Borrowed(*r.pick(TARGETS))) } else { None },
        file: if r.chance(60) { Some(Cow::Borrowed(*r.pick(FILES))) } else { None },
        line: gen_line(r),
        fields: FIELD_NAMES[..nf].iter().map(|f| Cow::Borrowed(*f)).collect(),
    }
}
fn gen_line(r: &mut Rng) -> Option<u32> {
    match r.below(5) {
        0 => None,
        1 => Some(0),
        2 => Some(u32::MAX),
        _ => Some(r.below(500) as u32),
    }
}

/// distinct call-site ids from a pool chosen per case: small ids colliding with normalized
/// values, ids at the top of the u64 range, arbitrary ids, or a mixture
fn gen_ids(r: &mut Rng, n: usize) -> Vec<u64> {
    let pool = r.below(5);
    let mut out: Vec<u64> = vec![];
    while out.len() < n {
        let id = match pool {
            0 => r.below(n as u64 + 1),                 // 0..=n: coincide with normalized ids
            1 => u64::MAX - r.below(n as u64 + 2),      // top of the range
            2 => r.next(),                              // anything
            3 => 0x5555_0000_0000 + 0x10 * r.below(64), // address-like, as a sender produces
            _ => match r.below(3) {
                0 => r.below(4),
                1 => u64::MAX - r.below(3),
                _ => r.next() >> r.below(64),
            },
        };
        if !out.contains(&id) {
            out.push(id);
        }
    }
    out
}

/// A stream shaped like sender output: every call site is announced before its first use.
/// Returns the stream and the call sites (id, data).
fn gen_sender_stream(r: &mut Rng) -> (Vec<Ev>, Vec<(u64, CallSiteData)>) {
    let n_sites = r.range(1, 6);
    let ids = gen_ids(r, n_sites);
    let sites: Vec<(u64, CallSiteData)> = ids.iter().map(|id| (*id, gen_cs_data(r))).collect();
    let mut announced = vec![false; n_sites];
    let mut spans: Vec<u64> = vec![];
    let mut next_span = 1 + r.below(3);
    let mut evs = vec![];
    let steps = if r.chance(8) { r.range(15, 60) } else { r.range(0, 14) };
    for _ in 0..steps {
        let choice = if spans.is_empty() { r.below(4) } else { r.below(10) };
        match choice {
            0..=3 => {
                let s = r.range(0, n_sites - 1);
                if !announced[s] {
                    announced[s] = true;
                    evs.push(announce(sites[s].0, sites[s].1.clone()));
                }
                let parent = if !spans.is_empty() && r.chance(40) { Some(*r.pick(&spans)) } else { None };
                if choice < 2 {
                    let id = next_span;
                    next_span += 1 + r.below(2);
                    spans.push(id);
                    evs.push(Ev::NewSpan { id, parent_id: parent, metadata_id: sites[s].0, values: gen_values(r) });
                } else {
                    evs.push(Ev::NewEvent { metadata_id: sites[s].0, parent, values: gen_values(r) });
                }
            }
            4 => evs.push(Ev::SpanEntered { id: *r.pick(&spans) }),
            5 => evs.push(Ev::SpanExited { id: *r.pick(&spans) }),
            6 => evs.push(Ev::SpanCloned { id: *r.pick(&spans) }),
            7 => evs.push(Ev::SpanDropped { id: *r.pick(&spans) }),
            8 => evs.push(Ev::ValuesRecorded { id: *r.pick(&spans), values: gen_values(r) }),
            _ => evs.push(Ev::FollowsFrom { id: *r.pick(&spans), follows_from: *r.pick(&spans) }),
        }
    }
    (evs, sites)
}

/// Injects what a second subscriber / a lossy transport adds: re-announcements of known call sites
/// at arbitrary positions (possibly before the original announcement, possibly with different
/// data), and references to ids that are never announced.
fn perturb(r: &mut Rng, evs: &mut Vec<Ev>, sites: &[(u64, CallSiteData)]) {
    let dups = match r.below(4) {
        0 => 0,
        1 => 1,
        2 => 2,
        _ => r.range(1, 5),
    };
    for _ in 0..dups {
        let (id, data) = r.pick(sites).clone();
        let data = if r.chance(15) { gen_cs_data(r) } else { data };
        let pos = r.range(0, evs.len());
        evs.insert(pos, announce(id, data));
    }
    if r.chance(35) {
        let n = r.range(1, 3);
        let used: Vec<u64> = sites.iter().map(|s| s.0).collect();
        for _ in 0..n {
            // never-announced id, possibly equal to a value that normalization hands out
            let mut id = if r.chance(50) { r.below(6) } else { u64::MAX - r.below(4) };
            while used.contains(&id) {
                id = id.wrapping_add(1);
            }
            let pos = r.range(0, evs.len());
            let ev = if r.chance(50) {
                Ev::NewSpan { id: 900 + r.below(5), parent_id: None, metadata_id: id, values: gen_values(r) }
            } else {
                Ev::NewEvent { metadata_id: id, parent: None, values: gen_values(r) }
            };
            evs.insert(pos, ev);
        }
    }
}

/// Arbitrary events in arbitrary order over a tiny id alphabet (not sender-shaped at all).
fn gen_wild_stream(r: &mut Rng) -> Vec<Ev> {
    let alphabet: Vec<u64> = match r.below(3) {
        0 => vec![0, 1, 2],
        1 => vec![2, 1, 0, u64::MAX],
        _ => vec![u64::MAX, u64::MAX - 1, 1],
    };
    let n = r.range(0, 12);
    (0..n)
        .map(|_| {
            let id = *r.pick(&alphabet);
            match r.below(9) {
                0 | 1 | 2 => announce(id, gen_cs_data(r)),
                3 | 4 => Ev::NewSpan { id: r.below(3), parent_id: if r.chance(30) { Some(r.below(3)) } else { None }, metadata_id: id, values: gen_values(r) },
                5 | 6 => Ev::NewEvent { metadata_id: id, parent: if r.chance(30) { Some(r.below(3)) } else { None }, values: gen_values(r) },
                7 => Ev::SpanEntered { id },
                _ => Ev::FollowsFrom { id, follows_from: *r.pick(&alphabet) },
            }
        })
        .collect()
}

/// A random injective relabelling of the ids that occur, random line changes in announcements and
/// random renaming of event call sites.
fn gen_relabelling(r: &mut Rng, evs: &[Ev]) -> (Vec<Ev>, &'static str) {
    let ids: Vec<u64> = cs_ids(evs).into_iter().collect::<BTreeSet<_>>().into_iter().collect();
    let n = ids.len();
    let mode = r.below(7);
    let mut shuffled: Vec<usize> = (0..n).collect();
    for i in (1..n).rev() {
        let j = r.below(i as u64 + 1) as usize;
        shuffled.swap(i, j);
    }
    let a = r.next() | 1;
    let b = r.next();
    let x = r.next();
    let (g, how): (BTreeMap<u64, u64>, &'static str) = match mode {
        0 => (ids.iter().enumerate().map(|(i, k)| (*k, ids[shuffled[i]])).collect(), "permutation-of-own-ids"),
        1 => (ids.iter().map(|k| (*k, k.wrapping_mul(a).wrapping_add(b))).collect(), "affine-mod-2^64"),
        2 => (ids.iter().enumerate().map(|(i, k)| (*k, shuffled[i] as u64)).collect(), "onto-0..n-shuffled"),
        3 => (ids.iter().enumerate().map(|(i, k)| (*k, u64::MAX - shuffled[i] as u64)).collect(), "onto-top-of-u64"),
        4 => (ids.iter().map(|k| (*k, k ^ x)).collect(), "xor-constant"),
        5 => (ids.iter().enumerate().map(|(i, k)| (*k, (n - 1 - i) as u64)).collect(), "onto-n-1..0-reversed-order"),
        _ => (ids.iter().map(|k| (*k, *k)).collect(), "identity-on-ids"),
    };
    let edit_attrs = r.chance(85);
    let out = evs
        .iter()
        .map(|e| {
            let mut e = e.clone();
            match &mut e {
                Ev::NewCallSite { id, data } => {
                    *id = g[id];
                    if edit_attrs {
                        if r.chance(70) {
                            data.line = gen_line(r);
                        }
                        if matches!(data.kind, CallSiteKind::Event) && r.chance(70) {
                            data.name = Cow::Owned((*r.pick(NAMES)).to_owned());
                        }
                    }
                }
                Ev::NewSpan { metadata_id, .. } | Ev::NewEvent { metadata_id, .. } => *metadata_id = g[metadata_id],
                _ => {}
            }
            e
        })
        .collect();
    (out, how)
}

fn corpus() -> Vec<(&'static str, Vec<Ev>)> {
    const A: u64 = 7;
    const B: u64 = 9;
    let a = || span_cs("a", Some(10));
    let b = || span_cs("b", Some(20));
    let ev = || event_cs("event src/lib.rs:7", Some(7));
    vec![
        // the defect witness of the repaired normalize(): A announced twice, then B
        ("defect-witness", vec![announce(A, a()), announce(A, a()), announce(B, b()), new_span(1, None, A), new_span(2, None, B)]),
        ("empty", vec![]),
        ("no-call-site-events", vec![Ev::SpanEntered { id: 1 }, Ev::SpanExited { id: 1 }, Ev::FollowsFrom { id: 1, follows_from: 2 }, Ev::SpanCloned { id: 3 }, Ev::SpanDropped { id: 3 }]),
        ("witness-with-refs-between", vec![announce(A, a()), new_span(1, None, A), announce(A, a()), new_span(2, Some(1), A), announce(B, b()), new_span(3, None, B), new_span(4, None, A)]),
        ("re-announcement-late", vec![announce(A, a()), announce(B, b()), new_span(1, None, A), announce(A, a()), new_span(2, None, A), new_event(B, Some(2)), announce(B, b()), new_event(B, None)]),
        ("three-announcements-of-one", vec![announce(A, a()), announce(A, a()), announce(A, a()), announce(B, b()), new_span(1, None, B), new_span(2, None, A)]),
        ("never-announced-references", vec![new_span(1, None, 5), new_event(6, None), new_span(2, None, 5), announce(6, ev())]),
        ("reference-before-announcement", vec![new_event(B, None), announce(A, a()), announce(B, ev()), new_event(B, None), new_span(1, None, A)]),
        ("event-call-sites", vec![announce(3, ev()), announce(4, event_cs("event", None)), announce(5, event_cs("", Some(0))), new_event(4, None), new_event(3, None), new_event(5, Some(1))]),
        ("ids-collide-with-normalized-0-1-2", vec![announce(2, a()), announce(0, b()), announce(1, ev()), new_span(1, None, 0), new_span(2, None, 2), new_event(1, None), announce(2, a())]),
        ("ids-collide-swap", vec![announce(1, a()), announce(0, b()), new_span(1, None, 1), new_span(2, None, 0), announce(1, a())]),
        ("ids-near-u64-max", vec![announce(u64::MAX, a()), announce(u64::MAX - 1, b()), announce(u64::MAX, a()), new_span(u64::MAX, Some(u64::MAX), u64::MAX), new_span(2, None, u64::MAX - 1), new_event(0, None)]),
        ("same-id-different-data", vec![announce(A, a()), announce(A, ev()), new_span(1, None, A), new_event(A, None)]),
        ("different-ids-same-data", vec![announce(A, a()), announce(B, a()), new_span(1, None, A), new_span(2, None, B)]),
        ("line-none-and-max", vec![announce(A, span_cs("a", None)), announce(B, span_cs("b", Some(u32::MAX))), announce(A, span_cs("a", Some(1)))]),
        ("span-named-event", vec![announce(A, span_cs("event", Some(3))), announce(B, event_cs("not event", Some(3))), new_span(1, None, A), new_event(B, None)]),
        ("already-normalized", vec![announce(0, span_cs("a", None)), announce(1, event_cs("event", None)), new_span(1, None, 0), new_event(1, Some(1)), announce(0, span_cs("a", None))]),
        ("full-attributes", vec![
            announce(0x5555_0000_1230, CallSiteData {
                kind: CallSiteKind::Event, name: Cow::Borrowed("event tunnel\\src\\x.rs:12"), target: Cow::Borrowed("app::module"),
                level: TracingLevel::Trace, module_path: Some(Cow::Borrowed("app::module")), file: Some(Cow::Borrowed("tunnel\\src\\x.rs")),
                line: Some(12), fields: vec![Cow::Borrowed("message"), Cow::Borrowed("x")],
            }),
            Ev::NewEvent { metadata_id: 0x5555_0000_1230, parent: None, values: [("message".to_owned(), TracedValue::String("hi".into())), ("x".to_owned(), TracedValue::Int(-3))].into_iter().collect() },
        ]),
    ]
}

pub fn run(o: &Opts) {
    let mut sink = Sink::new(&o.out, o.shards, "Judge.C20", o.only.clone());
    let mut idx = 0u64;

    // 1. corpus (case 0 = the defect witness), each also under two fixed relabellings
    let corpus = corpus();
    for (_, evs) in &corpus {
        normalize_case(&mut sink, idx, "corpus", evs);
        idx += 1;
    }
    for (_, evs) in &corpus {
        if sink.wants(idx) || sink.wants(idx + 1) {
            let mut r = Rng::for_case(o.seed, "C20-corpus-relabel", idx);
            let (rel, how) = gen_relabelling(&mut r, evs);
            relabel_case(&mut sink, idx, "corpus-relabel", evs, &rel, how);
            let (rel, how) = gen_relabelling(&mut r, evs);
            relabel_case(&mut sink, idx + 1, "corpus-relabel", evs, &rel, how);
        }
        idx += 2;
    }

    // 2. small-scope exhaustive: all streams up to length L over 2 call-site ids x
    //    {announce, new_span, new_event}.  The two ids are 1 and 0, so that the first-announced id
    //    frequently differs from the value it is normalized to.  Every stream is also judged against
    //    its image under the swap of the two ids combined with line / event-name edits.
    let max_len = if o.thorough { 6 } else { 4 };
    let max_len_rel = if o.thorough { 5 } else { 3 };
    let symbol = |s: usize, pos: usize, swap: bool| -> Ev {
        let which = s / 3;
        let id = if (which == 0) != swap { 1u64 } else { 0u64 };
        match s % 3 {
            0 => {
                let data = if which == 0 { span_cs("a", Some(10)) } else { event_cs("event src/lib.rs:7", Some(7)) };
                let data = if swap {
                    CallSiteData { line: if pos % 2 == 0 { None } else { Some(pos as u32) }, name: if which == 0 { data.name.clone() } else { Cow::Borrowed("renamed") }, ..data }
                } else {
                    data
                };
                announce(id, data)
            }
            1 => new_span(pos as u64 + 1, None, id),
            _ => new_event(id, None),
        }
    };
    let mut level: Vec<Vec<usize>> = vec![vec![]];
    for len in 0..=max_len {
        for s in &level {
            if sink.wants(idx) {
                let evs: Vec<Ev> = s.iter().enumerate().map(|(p, a)| symbol(*a, p, false)).collect();
                normalize_case(&mut sink, idx, "exhaustive", &evs);
            }
            idx += 1;
            if len <= max_len_rel {
                if sink.wants(idx) {
                    let evs: Vec<Ev> = s.iter().enumerate().map(|(p, a)| symbol(*a, p, false)).collect();
                    let rel: Vec<Ev> = s.iter().enumerate().map(|(p, a)| symbol(*a, p, true)).collect();
                    relabel_case(&mut sink, idx, "exhaustive-relabel", &evs, &rel, "swap-0-1");
                }
                idx += 1;
            }
        }
        if len < max_len {
            level = level
                .iter()
                .flat_map(|s| {
                    (0..6).map(move |a| {
                        let mut t = s.clone();
                        t.push(a);
                        t
                    })
                })
                .collect();
        }
    }

    // 3. random sender-shaped streams with injected re-announcements and unannounced references
    let n_norm = if o.thorough { 30_000 } else { 800 } * o.scale;
    for _ in 0..n_norm {
        if sink.wants(idx) {
            let mut r = Rng::for_case(o.seed, "C20-normalize", idx);
            let (mut evs, sites) = gen_sender_stream(&mut r);
            perturb(&mut r, &mut evs, &sites);
            normalize_case(&mut sink, idx, "sender-shaped", &evs);
        }
        idx += 1;
    }
    // 4. the same streams against random injective relabellings + line / event-name edits
    let n_rel = if o.thorough { 24_000 } else { 600 } * o.scale;
    for _ in 0..n_rel {
        if sink.wants(idx) {
            let mut r = Rng::for_case(o.seed, "C20-relabel", idx);
            let (mut evs, sites) = gen_sender_stream(&mut r);
            perturb(&mut r, &mut evs, &sites);
            let (rel, how) = gen_relabelling(&mut r, &evs);
            relabel_case(&mut sink, idx, "sender-shaped-relabel", &evs, &rel, how);
        }
        idx += 1;
    }
    // 5. malformed: arbitrary events in arbitrary order over a tiny id alphabet
    let n_wild = if o.thorough { 6_000 } else { 200 } * o.scale;
    for _ in 0..n_wild {
        if sink.wants(idx) {
            let mut r = Rng::for_case(o.seed, "C20-wild", idx);
            let evs = gen_wild_stream(&mut r);
            if r.chance(50) {
                normalize_case(&mut sink, idx, "wild", &evs);
            } else {
                let (rel, how) = gen_relabelling(&mut r, &evs);
                relabel_case(&mut sink, idx, "wild-relabel", &evs, &rel, how);
            }
        }
        idx += 1;
    }

    sink.finish(
        "normalize cases judge the slice after TracingEvent::normalize against the input (judge_normalize); relabel cases normalize a \
         stream and an injectively relabelled copy with edited lines / event call-site names and judge the two outputs (judge_relabel). \
         Streams: corpus (case 0 = defect witness of the repaired code), all streams up to a length bound over ids {1,0} x \
         {announce, new_span, new_event}, sender-shaped random streams (announce before first use, 1..6 call sites, span lifecycle events) \
         with 0..5 re-announcements injected at arbitrary positions and references to never-announced ids, and arbitrary-order streams \
         over a tiny id alphabet. non-trivial = at least two distinct call-site ids and some id at two or more positions (relabel cases: \
         additionally the relabelled stream differs from the input). distinct = distinct canonical input text",
        serde_json::json!({ "exhaustive_stream_len": max_len, "exhaustive_relabel_stream_len": max_len_rel, "exhaustive_ids": [1, 0] }),
    );
}
