//! C07: a rejected event has no effect.
use tracing_tunnel::{CallSiteKind, LocalSpans, PersistedSpans, TracingEvent, TracingEventReceiver};

use crate::{coq::*, out::Sink, recv::*, recv2::*, rng::Rng, Opts};

/// One run of a stale-metadata history (see Judge/C07.v): returns the snapshot after the restore,
/// the observations of `e2` and the exits of the final persist.
fn run_stale(e0: &[TracingEvent], e1: &[TracingEvent], keep: bool, e2: &[TracingEvent], nonce: &str) -> (Snapshot, Vec<Obs>, Vec<HCall>) {
    let rec = Recorder::new(nonce);
    let mut out = vec![];
    let mut snap0 = Snapshot::default();
    let mut fin = vec![];
    tracing::subscriber::with_default(rec.clone(), || {
        let mut receiver = TracingEventReceiver::default();
        for ev in e0 {
            let _ = receiver.try_receive(ev.clone());
        }
        let md = receiver.persist_metadata(); // taken early: does not know the call sites of e1
        for ev in e1 {
            let _ = receiver.try_receive(ev.clone());
        }
        let (spans, local) = receiver.persist();
        let Ok(spans) = json_roundtrip::<PersistedSpans>(&spans) else {
            return; // state this build cannot read back: nothing is observed, the judge sees the gap
        };
        let local = if keep { local } else { LocalSpans::default() };
        let mut receiver = restore_receiver(e1.len() as u32, md, spans, local);
        snap0 = receiver.verif_snapshot();
        for ev in e2 {
            let mark = rec.mark();
            let res = receiver.try_receive(ev.clone());
            let o = match res {
                Ok(()) => Outcome::Accepted,
                Err(tracing_tunnel::ReceiveError::UnknownMetadataId(id)) => Outcome::UnknownMeta(id),
                Err(tracing_tunnel::ReceiveError::UnknownSpanId(id)) => Outcome::UnknownSpan(id),
                Err(tracing_tunnel::ReceiveError::TooManyValues { actual, .. }) => Outcome::TooMany(actual),
                Err(e) => Outcome::OtherError(e.to_string()),
            };
            out.push(Obs::Recv(o, rec.since(mark), receiver.verif_snapshot()));
        }
        let mark = rec.mark();
        let _ = receiver.persist();
        fin = rec.since(mark);
    });
    (snap0, out, fin)
}

fn stale_case(sink: &mut Sink, idx: u64, r: &mut Rng, nonce: &str) {
    if !sink.wants(idx) {
        return;
    }
    let known = call_site(CallSiteKind::Span, nonce, "known", 3, false);
    let late = call_site(CallSiteKind::Span, nonce, "late", *r.pick(&[0usize, 2, 5]), false);
    let late_ev = call_site(CallSiteKind::Event, nonce, "late_ev", 2, false);
    let e0 = vec![
        TracingEvent::NewCallSite { id: 1, data: known.clone() },
        TracingEvent::NewSpan { id: 1, parent_id: None, metadata_id: 1, values: gen_values(r, 3, 3, false) },
    ];
    let mut e1 = vec![
        TracingEvent::NewCallSite { id: 2, data: late.clone() },
        TracingEvent::NewCallSite { id: 3, data: late_ev.clone() },
        TracingEvent::NewSpan { id: 2, parent_id: None, metadata_id: 2, values: gen_values(r, 5, 3, false) },
        TracingEvent::NewSpan { id: 3, parent_id: Some(2), metadata_id: 2, values: gen_values(r, 5, 2, false) },
    ];
    if r.chance(50) {
        e1.push(TracingEvent::SpanCloned { id: 2 });
    }
    // e2: events on spans whose call site the restored receiver does not know, re-announcements, valid traffic
    let mut e2 = vec![];
    let n = r.range(4, 14);
    for _ in 0..n {
        let id = *r.pick(&[1u64, 2, 2, 3, 3, 9]);
        e2.push(match r.below(10) {
            0 | 1 | 2 => TracingEvent::SpanEntered { id },
            3 => TracingEvent::SpanExited { id },
            4 | 5 => TracingEvent::ValuesRecorded { id, values: gen_values(r, 5, 3, true) },
            6 => TracingEvent::NewEvent { metadata_id: *r.pick(&[1u64, 3, 3]), parent: if r.chance(50) { Some(id) } else { None }, values: gen_values(r, 2, 2, false) },
            7 => TracingEvent::NewCallSite { id: 2, data: late.clone() },
            8 => TracingEvent::NewCallSite { id: 3, data: late_ev.clone() },
            _ => TracingEvent::NewSpan { id: 10 + r.below(3), parent_id: Some(id), metadata_id: *r.pick(&[1u64, 2]), values: gen_values(r, 3, 2, false) },
        });
    }
    let keep = r.chance(50);
    let (snap0, obs, fin) = run_stale(&e0, &e1, keep, &e2, nonce);
    let e2b: Vec<TracingEvent> = e2
        .iter()
        .zip(&obs)
        .filter(|(_, o)| matches!(o, Obs::Recv(Outcome::Accepted, ..)))
        .map(|(e, _)| e.clone())
        .collect();
    let (snap0b, obsb, finb) = run_stale(&e0, &e1, keep, &e2b, nonce);
    let rejected = e2.len() - e2b.len();
    sink.bump_by("stale:rejected", rejected as u64);
    sink.bump_by("stale:unknown_meta", obs.iter().filter(|o| matches!(o, Obs::Recv(Outcome::UnknownMeta(_), ..))).count() as u64);
    intern_begin();
    let cevs = |evs: &[TracingEvent]| clist(evs.iter(), cevent);
    let judge = format!(
        "judge_c07_stale {} {} {} {} {} {} {} {} {} {} {}",
        cevs(&e0), cevs(&e1), cbool(keep), cevs(&e2), csnap(&snap0), cobss(&obs), ccalls(&fin),
        cevs(&e2b), csnap(&snap0b), cobss(&obsb), ccalls(&finb)
    );
    let judge = intern_wrap(&judge);
    let input = format!("{} {} {}", cevs(&e1), keep, cevs(&e2));
    sink.case(idx, "stale-metadata", &judge, &input, rejected > 0, || serde_json::json!({ "e1": cevs(&e1), "keep": keep, "e2": cevs(&e2) }));
}


fn drop_rejected(steps: &[Step], obs: &[Obs]) -> Vec<Step> {
    steps
        .iter()
        .zip(obs)
        .filter(|(_, o)| !matches!(o, Obs::Recv(Outcome::UnknownMeta(_) | Outcome::UnknownSpan(_) | Outcome::TooMany(_) | Outcome::OtherError(_), ..)))
        .map(|(s, _)| s.clone())
        .collect()
}

pub fn run(o: &Opts) {
    let mut sink = Sink::new(&o.out, o.shards, "Judge.C07", o.only.clone());
    let mut idx = 0u64;
    let ncorpus = corpus("x").len();
    for k in 0..ncorpus {
        let nonce = format!("c07_{}_c{k}", o.seed);
        let steps = corpus(&nonce).swap_remove(k);
        hist_case(&mut sink, "judge_c07", idx, "corpus", &steps, &nonce);
        idx += 1;
    }
    let n = if o.thorough { 60_000 } else { 900 } * o.scale;
    for _ in 0..n {
        if sink.wants(idx) {
            let mut r = Rng::for_case(o.seed, "C07", idx);
            let nonce = format!("c07_{}_{idx}", o.seed);
            let bad = *r.pick(&[10u64, 25, 50]);
            let cfg = StreamCfg { len: r.range(4, 40), bad, max_fields: 40, explicit_parents: true, respect_entered: false };
            let evs = gen_stream(&mut r, &cfg, &nonce);
            let cut = *r.pick(&[0u64, 0, 15]);
            let steps = with_cuts(&mut r, &evs, cut, 40, 25);
            if idx % 4 == 3 {
                stale_case(&mut sink, idx, &mut r, &nonce);
            } else if idx % 2 == 0 {
                hist_case(&mut sink, "judge_c07", idx, "single", &steps, &nonce);
            } else {
                two_run_case(
                    &mut sink,
                    idx,
                    "pair-with-filtered",
                    &steps,
                    drop_rejected,
                    &nonce,
                    |s1, o1, s2, o2| format!("judge_c07_pair {s1} {o1} {s2} {o2}"),
                    |s1, _, s2| s2.len() < s1.len(),
                );
            }
        }
        idx += 1;
    }
    sink.finish(
        "histories with 10/25/50 % bogus references (unknown call sites, dead spans, oversized value sets), optionally cut by persist/drop steps; \
         even cases check every rejected event in place (no host call, state unchanged), odd cases additionally run the stream with the rejected events removed and compare \
         host calls and states pairwise; a quarter of the cases restore from a metadata snapshot taken earlier than the spans (spans alive whose call site the receiver does not know), so that rejections happen after successful lookups; non-trivial = at least one accepted and one rejected event (single) resp. at least one event removed (pair)",
        serde_json::json!({}),
    );
}
