//! C07: a rejected event has no effect.
use crate::{out::Sink, recv::*, recv2::*, rng::Rng, Opts};

fn drop_rejected(steps: &[Step], obs: &[Obs]) -> Vec<Step> {
    steps
        .iter()
        .zip(obs)
        .filter(|(_, o)| !matches!(o, Obs::Recv(Outcome::UnknownMeta(_) | Outcome::UnknownSpan(_) | Outcome::TooMany(_) | Outcome::OtherError(_), ..)))
        .map(|(s, _)| s.clone())
        .collect()
}

pub fn run(o: &Opts) {
    let mut sink = Sink::new(&o.out, o.shards, "Judge.C07", o.only.clone());
    let mut idx = 0u64;
    let ncorpus = corpus("x").len();
    for k in 0..ncorpus {
        let nonce = format!("c07_{}_c{k}", o.seed);
        let steps = corpus(&nonce).swap_remove(k);
        hist_case(&mut sink, "judge_c07", idx, "corpus", &steps, &nonce);
        idx += 1;
    }
    let n = if o.thorough { 60_000 } else { 900 } * o.scale;
    for _ in 0..n {
        if sink.wants(idx) {
            let mut r = Rng::for_case(o.seed, "C07", idx);
            let nonce = format!("c07_{}_{idx}", o.seed);
            let bad = *r.pick(&[10u64, 25, 50]);
            let cfg = StreamCfg { len: r.range(4, 40), bad, max_fields: 40, explicit_parents: true, respect_entered: false };
            let evs = gen_stream(&mut r, &cfg, &nonce);
            let cut = *r.pick(&[0u64, 0, 15]);
            let steps = with_cuts(&mut r, &evs, cut, 40, 25);
            if idx % 2 == 0 {
                hist_case(&mut sink, "judge_c07", idx, "single", &steps, &nonce);
            } else {
                two_run_case(
                    &mut sink,
                    idx,
                    "pair-with-filtered",
                    &steps,
                    drop_rejected,
                    &nonce,
                    |s1, o1, s2, o2| format!("judge_c07_pair {s1} {o1} {s2} {o2}"),
                    |s1, _, s2| s2.len() < s1.len(),
                );
            }
        }
        idx += 1;
    }
    sink.finish(
        "histories with 10/25/50 % bogus references (unknown call sites, dead spans, oversized value sets), optionally cut by persist/drop steps; \
         even cases check every rejected event in place (no host call, state unchanged), odd cases additionally run the stream with the rejected events removed and compare \
         host calls and states pairwise; non-trivial = at least one accepted and one rejected event (single) resp. at least one event removed (pair)",
        serde_json::json!({}),
    );
}
