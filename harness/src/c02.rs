//! C02: splitting an execution across receiver lifetimes is invisible to the host.
use crate::{out::Sink, recv::*, recv2::*, rng::Rng, Opts};

fn uncut(steps: &[Step], _: &[Obs]) -> Vec<Step> {
    steps.iter().filter(|s| matches!(s, Step::Recv(_))).cloned().collect()
}

pub fn run(o: &Opts) {
    let mut sink = Sink::new(&o.out, o.shards, "Judge.C02", o.only.clone());
    let mut idx = 0u64;
    let n = if o.thorough { 30_000 } else { 900 } * o.scale;
    for _ in 0..n {
        if sink.wants(idx) {
            let mut r = Rng::for_case(o.seed, "C02", idx);
            let nonce = format!("c02_{}_{idx}", o.seed);
            // one case in eight has call sites with up to 40 fields: values accumulate beyond 32 per span
            let cfg = wf_cfg(&mut r, if idx % 8 == 5 { 40 } else { 8 });
            let evs = gen_stream(&mut r, &cfg, &nonce);
            if idx % 3 != 2 {
                // quiescent cuts, local map kept: compare with the uncut run
                let pct = *r.pick(&[20u64, 50, 100]);
                let steps = with_quiescent_cuts(&mut r, &evs, pct);
                two_run_case(
                    &mut sink,
                    idx,
                    "quiescent-cuts-vs-uncut",
                    &steps,
                    uncut,
                    &nonce,
                    |s1, o1, _s2, o2| format!("judge_c02 {s1} {o1} {o2}"),
                    |s1, _, s2| s2.len() < s1.len(),
                );
            } else {
                // arbitrary cuts (also non-quiescent, local map lost, roll-backs): persisted state only
                let cut = *r.pick(&[10u64, 25, 50]);
                let steps = with_cuts(&mut r, &evs, cut, 40, 20);
                hist_case(&mut sink, "judge_c02_state", idx, "arbitrary-cuts-state", &steps, &nonce);
            }
        }
        idx += 1;
    }
    // the hand-written histories of the receiver checks (wide call sites, values accumulated over several
    // records and across restarts, re-announcements ..): persisted state and acceptance
    {
        let n_corpus = corpus("c02c_probe").len();
        for k in 0..n_corpus {
            if sink.wants(idx) {
                let nonce = format!("c02c_{}_{k}", o.seed);
                let steps = corpus(&nonce).swap_remove(k);
                hist_case(&mut sink, "judge_c02_state", idx, "corpus-state", &steps, &nonce);
            }
            idx += 1;
        }
    }
    // all cut sets of short streams (exhaustive over the quiescent positions)
    let n_short = if o.thorough { 400 } else { 25 };
    for k in 0..n_short {
        let mut r = Rng::for_case(o.seed, "C02-short", k);
        let cfg = StreamCfg { len: 7, bad: 0, max_fields: 3, explicit_parents: true, respect_entered: true };
        let nonce0 = format!("c02s_{}_{k}", o.seed);
        let evs = gen_stream(&mut r, &cfg, &nonce0);
        let q = quiescent_before(&evs);
        let positions: Vec<usize> = (0..=evs.len()).filter(|i| q[*i]).take(6).collect();
        for mask in 1u32..(1 << positions.len()) {
            if sink.wants(idx) {
                let nonce = format!("c02s_{}_{k}_{mask}", o.seed);
                let mut r2 = Rng::for_case(o.seed, "C02-short", k);
                let evs = gen_stream(&mut r2, &cfg, &nonce);
                let mut steps = vec![];
                for (i, ev) in evs.iter().enumerate() {
                    if let Some(b) = positions.iter().position(|p| *p == i) {
                        if mask & (1 << b) != 0 {
                            steps.push(Step::Persist { keep: true });
                        }
                    }
                    steps.push(Step::Recv(ev.clone()));
                }
                if let Some(b) = positions.iter().position(|p| *p == evs.len()) {
                    if mask & (1 << b) != 0 {
                        steps.push(Step::Persist { keep: true });
                    }
                }
                two_run_case(
                    &mut sink,
                    idx,
                    "all-cut-sets-short",
                    &steps,
                    uncut,
                    &nonce,
                    |s1, o1, _s2, o2| format!("judge_c02 {s1} {o1} {o2}"),
                    |_, _, _| true,
                );
            }
            idx += 1;
        }
    }
    sink.finish(
        "well-formed generated streams (explicit parents, clones, re-entrant enters, records); two thirds: persist steps with the local map kept at a random subset of the quiescent positions, \
         run against the uncut stream in the same process (calls compared without call-site registrations, which the process-global arena makes once); one third: arbitrary cuts (non-quiescent, local map lost, roll-backs) \
         checking only that persisted state and acceptance are those of the abstract receiver; plus every subset of up to 6 quiescent positions of short streams; non-trivial = at least one cut",
        serde_json::json!({}),
    );
}
