//! C01: tunnelled traces are indistinguishable from native traces on the host.
//!
//! Every guest program is executed with the real `tracing` API
//! (i)  natively under a recording `Subscriber` (`Rec`) that issues the ids 1, 2, 3, ... and logs
//!      every call with its arguments;
//! (ii) under a REAL `TracingEventSender`; every event goes through `serde_json::to_string` +
//!      `from_str` and is replayed in order through a REAL `TracingEventReceiver` under a fresh `Rec`;
//! (iii) both ways under `Registry + CaptureLayer`; the two storages are dumped through the public API
//!      and compared here.
//! The logs are printed in the vocabulary of the Coq model (`scall` for the native side, `hcall` for
//! the host behind the tunnel); `Judge/C01.v` compares them with the model and evaluates the property
//! on them.  This file is also included by `c13.rs` (`#[path]`), which adds host filters.
#![allow(dead_code)]
use std::{
    collections::HashMap,
    panic::{catch_unwind, AssertUnwindSafe},
    sync::{
        atomic::{AtomicBool, Ordering},
        Arc, Mutex,
    },
};

use tracing_capture::{CaptureLayer, SharedStorage, Storage};
use tracing_core::{
    span::{Attributes, Id, Record},
    subscriber::Interest,
    Dispatch, Event, LevelFilter, Metadata, Subscriber,
};
use tracing_subscriber::{layer::Context, layer::SubscriberExt, Layer};
use tracing_tunnel::{
    CallSiteData, CallSiteKind, TracedValue, TracedValues, TracingEvent, TracingEventReceiver, TracingEventSender,
    TracingLevel,
};

use crate::{coq::*, guest::*, out::Sink, rng::Rng, Opts};

// ---- host filters (mirrors `hfilter` / `eval_filter` of Tunnel/Tunnel.v) ----------------------

#[derive(Clone, Debug)]
pub enum HFilter {
    All,
    MaxLevel(TracingLevel),
    TargetPrefix(String),
    NameIs(String),
    IsSpan,
    HasField(String),
    Not(Box<HFilter>),
    And(Box<HFilter>, Box<HFilter>),
    Or(Box<HFilter>, Box<HFilter>),
}

impl HFilter {
    pub fn eval(&self, m: &Metadata<'_>) -> bool {
        match self {
            HFilter::All => true,
            // more verbose levels are greater
            HFilter::MaxLevel(l) => *m.level() <= level_of(*l),
            HFilter::TargetPrefix(s) => m.target().starts_with(s.as_str()),
            HFilter::NameIs(s) => m.name() == s,
            HFilter::IsSpan => m.is_span(),
            HFilter::HasField(s) => m.fields().iter().any(|f| f.name() == s),
            HFilter::Not(f) => !f.eval(m),
            HFilter::And(f, g) => f.eval(m) && g.eval(m),
            HFilter::Or(f, g) => f.eval(m) || g.eval(m),
        }
    }
    pub fn coq(&self) -> String {
        match self {
            HFilter::All => "FAll".into(),
            HFilter::MaxLevel(l) => format!("(FMaxLevel {})", clevel(*l)),
            HFilter::TargetPrefix(s) => format!("(FTargetPrefix {})", cstr(s)),
            HFilter::NameIs(s) => format!("(FNameIs {})", cstr(s)),
            HFilter::IsSpan => "FIsSpan".into(),
            HFilter::HasField(s) => format!("(FHasField {})", cstr(s)),
            HFilter::Not(f) => format!("(FNot {})", f.coq()),
            HFilter::And(f, g) => format!("(FAnd {} {})", f.coq(), g.coq()),
            HFilter::Or(f, g) => format!("(FOr {} {})", f.coq(), g.coq()),
        }
    }
    /// a global level threshold can also be announced through `max_level_hint`
    pub fn hint(&self) -> Option<LevelFilter> {
        match self {
            HFilter::MaxLevel(l) => Some(LevelFilter::from_level(level_of(*l))),
            _ => None,
        }
    }
    pub fn kind(&self) -> &'static str {
        match self {
            HFilter::All => "all",
            HFilter::MaxLevel(_) => "max-level",
            HFilter::TargetPrefix(_) => "target-prefix",
            HFilter::NameIs(_) => "name",
            HFilter::IsSpan => "is-span",
            HFilter::HasField(_) => "has-field",
            HFilter::Not(_) => "not",
            HFilter::And(..) => "and",
            HFilter::Or(..) => "or",
        }
    }
}

/// How a filtering recording host answers `register_callsite`.
#[derive(Clone, Copy, PartialEq, Eq)]
pub enum Mode {
    /// `Interest::always()` (no filter)
    Always,
    /// `Interest::sometimes()`: `enabled` is consulted at every use
    Sometimes,
    /// `always` / `never` from the predicate, `max_level_hint` for level thresholds (what
    /// `LevelFilter` and `FilterFn` layers do)
    Static,
}

// ---- the recording subscriber ------------------------------------------------------------------

#[derive(Clone, Debug)]
pub enum Par {
    Ctx,
    Root,
    Explicit(u64),
}

/// One `Subscriber` call; `addr` = address of the `Metadata`, `data` = its content.
#[derive(Clone, Debug)]
pub enum Call {
    Register(u64, CallSiteData),
    NewSpan { id: u64, addr: u64, data: CallSiteData, parent: Par, vals: TracedValues<String> },
    Record(u64, TracedValues<String>),
    Enter(u64),
    Exit(u64),
    Clone(u64),
    TryClose(u64),
    Follows(u64, u64),
    Event { addr: u64, data: CallSiteData, parent: Par, vals: TracedValues<String> },
}

#[derive(Default)]
pub struct RecState {
    next: u64,
    log: Vec<Call>,
    enabled_queries: u64,
}

#[derive(Clone)]
pub struct Rec {
    st: Arc<Mutex<RecState>>,
    /// set when the observation is over: nothing is logged any more
    off: Arc<AtomicBool>,
    filter: Option<HFilter>,
    mode: Mode,
}

impl Rec {
    pub fn new(filter: Option<&HFilter>, mode: Mode) -> Self {
        Rec { st: Default::default(), off: Default::default(), filter: filter.cloned(), mode }
    }
    fn is_off(&self) -> bool {
        self.off.load(Ordering::SeqCst)
    }
    pub fn stop(&self) {
        self.off.store(true, Ordering::SeqCst);
    }
    pub fn mark(&self) -> usize {
        self.st.lock().unwrap().log.len()
    }
    pub fn since(&self, mark: usize) -> Vec<Call> {
        self.st.lock().unwrap().log[mark..].to_vec()
    }
    pub fn enabled_queries(&self) -> u64 {
        self.st.lock().unwrap().enabled_queries
    }
    fn push(&self, c: Call) {
        if !self.is_off() {
            self.st.lock().unwrap().log.push(c);
        }
    }
    fn pred(&self, m: &Metadata<'_>) -> bool {
        self.filter.as_ref().map_or(true, |f| f.eval(m))
    }
}

pub fn addr_of(meta: &Metadata<'_>) -> u64 {
    meta as *const Metadata<'_> as usize as u64
}

impl Subscriber for Rec {
    fn register_callsite(&self, m: &'static Metadata<'static>) -> Interest {
        self.push(Call::Register(addr_of(m), CallSiteData::from(m)));
        match self.mode {
            Mode::Always => Interest::always(),
            Mode::Sometimes => Interest::sometimes(),
            Mode::Static => {
                if self.pred(m) {
                    Interest::always()
                } else {
                    Interest::never()
                }
            }
        }
    }
    fn enabled(&self, m: &Metadata<'_>) -> bool {
        if !self.is_off() {
            self.st.lock().unwrap().enabled_queries += 1;
        }
        self.pred(m)
    }
    fn max_level_hint(&self) -> Option<LevelFilter> {
        match (self.mode, &self.filter) {
            (Mode::Static, Some(f)) => f.hint(),
            _ => None,
        }
    }
    fn new_span(&self, a: &Attributes<'_>) -> Id {
        let id = {
            let mut st = self.st.lock().unwrap();
            st.next += 1;
            st.next
        };
        let parent = if let Some(p) = a.parent() {
            Par::Explicit(p.into_u64())
        } else if a.is_root() {
            Par::Root
        } else {
            Par::Ctx
        };
        let vals = seen_in_values(a.values());
        self.push(Call::NewSpan { id, addr: addr_of(a.metadata()), data: CallSiteData::from(a.metadata()), parent, vals });
        Id::from_u64(id)
    }
    fn record(&self, s: &Id, v: &Record<'_>) {
        self.push(Call::Record(s.into_u64(), seen_in_record(v)));
    }
    fn record_follows_from(&self, s: &Id, f: &Id) {
        self.push(Call::Follows(s.into_u64(), f.into_u64()));
    }
    fn event(&self, e: &Event<'_>) {
        let parent = if let Some(p) = e.parent() {
            Par::Explicit(p.into_u64())
        } else if e.is_root() {
            Par::Root
        } else {
            Par::Ctx
        };
        let vals = seen_in_event(e);
        self.push(Call::Event { addr: addr_of(e.metadata()), data: CallSiteData::from(e.metadata()), parent, vals });
    }
    fn enter(&self, s: &Id) {
        self.push(Call::Enter(s.into_u64()));
    }
    fn exit(&self, s: &Id) {
        self.push(Call::Exit(s.into_u64()));
    }
    fn clone_span(&self, s: &Id) -> Id {
        self.push(Call::Clone(s.into_u64()));
        s.clone()
    }
    fn try_close(&self, s: Id) -> bool {
        self.push(Call::TryClose(s.into_u64()));
        true
    }
}

// ---- the runs ----------------------------------------------------------------------------------

pub struct NativeRun {
    pub calls: Vec<Call>,
    /// creation index -> the span was enabled
    pub enabled: Vec<bool>,
    pub events_disabled: usize,
    pub enabled_queries: u64,
}

/// (i) the program under a recording subscriber
pub fn run_native(prog: &Prog, sites: &[&'static DynSite], filter: Option<&HFilter>, mode: Mode) -> NativeRun {
    let rec = Rec::new(filter, mode);
    let dispatch = Dispatch::new(rec.clone());
    let (enabled, events_disabled) = tracing::dispatcher::with_default(&dispatch, || {
        let r = exec_on(prog, sites);
        // the observation ends here; the handles still alive are dropped without being observed
        rec.stop();
        let out = (r.enabled.clone(), r.events_disabled);
        drop(r);
        out
    });
    drop(dispatch);
    NativeRun { calls: rec.since(0), enabled, events_disabled, enabled_queries: rec.enabled_queries() }
}

pub struct SenderRun {
    /// the events of the program: announcements of call sites that do not belong to it removed
    pub events: Vec<TracingEvent>,
    pub foreign: u64,
}

/// (ii, first half) the program under a real sender
pub fn run_sender(prog: &Prog, sites: &[&'static DynSite]) -> SenderRun {
    let events: Arc<Mutex<Vec<TracingEvent>>> = Arc::new(Mutex::new(vec![]));
    let off = Arc::new(AtomicBool::new(false));
    let (sink, sink_off) = (Arc::clone(&events), Arc::clone(&off));
    let hook = move |e: TracingEvent| {
        if !sink_off.load(Ordering::SeqCst) {
            sink.lock().unwrap().push(e);
        }
    };
    let dispatch = Dispatch::new(TracingEventSender::new(hook));
    tracing::dispatcher::with_default(&dispatch, || {
        let r = exec_on(prog, sites);
        assert!(r.enabled.iter().all(|e| *e) && r.events_disabled == 0, "the sender enables everything");
        off.store(true, Ordering::SeqCst);
        drop(r);
    });
    drop(dispatch);
    let own: HashMap<u64, usize> = sites.iter().enumerate().map(|(i, s)| (addr_of(s.metadata()), i)).collect();
    let all = std::mem::take(&mut *events.lock().unwrap());
    let mut foreign = 0;
    let events = all
        .into_iter()
        .filter(|e| match e {
            TracingEvent::NewCallSite { id, .. } if !own.contains_key(id) => {
                foreign += 1;
                false
            }
            _ => true,
        })
        .collect();
    SenderRun { events, foreign }
}

fn non_finite(vals: &TracedValues<String>) -> bool {
    vals.iter().any(|(_, v)| matches!(v, TracedValue::Float(f) if !f.is_finite()))
}
fn event_non_finite(e: &TracingEvent) -> bool {
    match e {
        TracingEvent::NewSpan { values, .. } | TracingEvent::ValuesRecorded { values, .. } | TracingEvent::NewEvent { values, .. } => {
            non_finite(values)
        }
        _ => false,
    }
}

pub struct Wire {
    pub events: Vec<TracingEvent>,
    /// every event that JSON can carry decodes and re-encodes identically
    pub lossless: bool,
    /// events carried by identity because JSON has no encoding for a non-finite float they contain
    pub by_identity: u64,
}

/// the wire: `serde_json::to_string` + `from_str` of every event.  JSON cannot carry NaN / inf (they
/// are written as `null` and do not decode): the encoding is not lossless for such events, which is
/// outside the property's premise; they are carried by identity and counted.
pub fn through_json(events: &[TracingEvent]) -> Wire {
    let mut out = Wire { events: vec![], lossless: true, by_identity: 0 };
    for e in events {
        let text = serde_json::to_string(e).expect("serialize event");
        match serde_json::from_str::<TracingEvent>(&text) {
            Ok(e2) => {
                if serde_json::to_string(&e2).expect("serialize event") != text {
                    out.lossless = false;
                }
                out.events.push(e2);
            }
            Err(_) if event_non_finite(e) => {
                out.by_identity += 1;
                out.events.push(e.clone());
            }
            Err(_) => {
                out.lossless = false;
                out.events.push(e.clone());
            }
        }
    }
    out
}

pub struct TunnelRun {
    pub calls: Vec<Call>,
    pub accepted: bool,
    pub rejected: u64,
    pub panicked: bool,
    pub enabled_queries: u64,
}

/// (ii, second half) the events through a real receiver under a fresh recording subscriber
pub fn run_receiver(events: &[TracingEvent], filter: Option<&HFilter>, mode: Mode) -> TunnelRun {
    let rec = Rec::new(filter, mode);
    let dispatch = Dispatch::new(rec.clone());
    let mut rejected = 0;
    let mut panicked = false;
    let calls = tracing::dispatcher::with_default(&dispatch, || {
        // registrations made when the dispatcher was created (every call site of the process) are
        // not the receiver's
        let mark = rec.mark();
        let mut receiver = TracingEventReceiver::default();
        for (k, e) in events.iter().enumerate() {
            // every second event goes through `receive()`, the wrapper that panics where
            // `try_receive()` returns an error
            let outcome = if k % 2 == 1 {
                catch_unwind(AssertUnwindSafe(|| receiver.receive(e.clone()))).map(Ok)
            } else {
                catch_unwind(AssertUnwindSafe(|| receiver.try_receive(e.clone()).map_err(|_| ())))
            };
            match outcome {
                Ok(Ok(())) => {}
                Ok(Err(())) => rejected += 1,
                Err(_) if k % 2 == 1 => rejected += 1,
                Err(_) => {
                    panicked = true;
                    break;
                }
            }
        }
        let calls = rec.since(mark);
        rec.stop();
        if panicked {
            std::mem::forget(receiver);
        } else {
            drop(receiver);
        }
        calls
    });
    drop(dispatch);
    TunnelRun { calls, accepted: rejected == 0 && !panicked, rejected, panicked, enabled_queries: rec.enabled_queries() }
}

/// As [`run_receiver`], but the receiver is restored from persisted metadata that maps every call-site
/// id of the stream to *other* data (what an earlier build of the guest left behind: another level,
/// target and name under the same id).  The stream announces every call site before using it, so the
/// host must observe exactly what it observes with a fresh receiver.
pub fn run_receiver_stale(events: &[TracingEvent], filter: Option<&HFilter>, mode: Mode) -> TunnelRun {
    let mut stale: std::collections::HashMap<u64, CallSiteData> = std::collections::HashMap::new();
    for e in events {
        if let TracingEvent::NewCallSite { id, data } = e {
            let mut old = data.clone();
            old.level = match old.level {
                TracingLevel::Error | TracingLevel::Warn => TracingLevel::Trace,
                _ => TracingLevel::Error,
            };
            old.target = format!("{}::previous_build", old.target).into();
            old.name = format!("{}_old", old.name).into();
            stale.insert(*id, old);
        }
    }
    let text = serde_json::to_string(&stale).expect("serialize stale metadata");
    let rec = Rec::new(filter, mode);
    let dispatch = Dispatch::new(rec.clone());
    let mut rejected = 0;
    let mut panicked = false;
    let calls = tracing::dispatcher::with_default(&dispatch, || {
        let metadata: tracing_tunnel::PersistedMetadata = serde_json::from_str(&text).expect("deserialize stale metadata");
        let mut receiver = TracingEventReceiver::new(metadata, Default::default(), Default::default());
        // registrations of the stale call sites belong to the restore
        let mark = rec.mark();
        for e in events {
            match catch_unwind(AssertUnwindSafe(|| receiver.try_receive(e.clone()))) {
                Ok(Ok(())) => {}
                Ok(Err(_)) => rejected += 1,
                Err(_) => {
                    panicked = true;
                    break;
                }
            }
        }
        let calls = rec.since(mark);
        rec.stop();
        if panicked {
            std::mem::forget(receiver);
        } else {
            drop(receiver);
        }
        calls
    });
    drop(dispatch);
    TunnelRun { calls, accepted: rejected == 0 && !panicked, rejected, panicked, enabled_queries: rec.enabled_queries() }
}

/// The fresh-receiver run, and the run from stale metadata when it made other host calls
/// (registrations aside: the arena is process-global) or accepted other events: then both runs are
/// judged and the case gets the worse verdict (`vworst`, Base/Worst.v).
pub fn pick_tunnel_run(sink: &mut Sink, fresh: TunnelRun, stale: TunnelRun) -> (TunnelRun, Option<TunnelRun>) {
    let strip = |r: &TunnelRun| chcalls(&r.calls.iter().filter(|c| !matches!(c, Call::Register(..))).cloned().collect::<Vec<_>>()).0;
    if strip(&fresh) == strip(&stale) && fresh.accepted == stale.accepted && fresh.panicked == stale.panicked {
        sink.bump("stale-metadata-restore:same-host-calls");
        (fresh, None)
    } else {
        sink.bump("stale-metadata-restore:DIFFERENT-host-calls");
        (fresh, Some(stale))
    }
}

// ---- Registry + CaptureLayer -------------------------------------------------------------------

/// A global metadata filter in a `Registry` stack (what `LevelFilter` / `FilterFn` layers are).
struct PredLayer(Option<HFilter>);
impl<S: Subscriber> Layer<S> for PredLayer {
    fn enabled(&self, m: &Metadata<'_>, _: Context<'_, S>) -> bool {
        self.0.as_ref().map_or(true, |f| f.eval(m))
    }
}

fn dump_values<'a>(vals: impl Iterator<Item = (&'a str, &'a TracedValue)>) -> String {
    let items: Vec<String> = vals.map(|(k, v)| ckv(k, v)).collect();
    items.join("; ")
}

/// The captured forest through the public API only: spans and events in capture order with
/// call-site content, values, stats, parent, children, events, follows-from; roots.
pub fn dump_storage(storage: &Storage) -> String {
    let span_ix = |s: &tracing_capture::CapturedSpan<'_>| storage.all_spans().position(|x| x == *s).expect("span of this storage");
    let event_ix = |e: &tracing_capture::CapturedEvent<'_>| storage.all_events().position(|x| x == *e).expect("event of this storage");
    let mut out = String::new();
    for (i, s) in storage.all_spans().enumerate() {
        let stats = s.stats();
        out.push_str(&format!(
            "S{i} {:?} [{}] entered={} exited={} closed={} parent={:?} children={:?} events={:?} follows={:?}\n",
            CallSiteData::from(s.metadata()),
            dump_values(s.values()),
            stats.entered,
            stats.exited,
            stats.is_closed,
            s.parent().map(|p| span_ix(&p)),
            s.children().map(|c| span_ix(&c)).collect::<Vec<_>>(),
            s.events().map(|e| event_ix(&e)).collect::<Vec<_>>(),
            s.follows_from().map(|f| span_ix(&f)).collect::<Vec<_>>(),
        ));
    }
    for (j, e) in storage.all_events().enumerate() {
        out.push_str(&format!(
            "E{j} {:?} [{}] parent={:?}\n",
            CallSiteData::from(e.metadata()),
            dump_values(e.values()),
            e.parent().map(|p| span_ix(&p)),
        ));
    }
    out.push_str(&format!(
        "roots spans={:?} events={:?}\n",
        storage.root_spans().map(|s| span_ix(&s)).collect::<Vec<_>>(),
        storage.root_events().map(|e| event_ix(&e)).collect::<Vec<_>>(),
    ));
    out
}

/// (iii) the program natively under `Registry + CaptureLayer (+ filter)`; the snapshot is taken
/// inside the dispatcher scope with the program's remaining handles alive
pub fn snap_native(prog: &Prog, sites: &[&'static DynSite], filter: Option<&HFilter>) -> String {
    let storage = SharedStorage::default();
    let subscriber = tracing_subscriber::registry().with(CaptureLayer::new(&storage)).with(PredLayer(filter.cloned()));
    let dispatch = Dispatch::new(subscriber);
    let dump = tracing::dispatcher::with_default(&dispatch, || {
        let r = exec_on(prog, sites);
        let dump = dump_storage(&storage.lock());
        drop(r);
        dump
    });
    drop(dispatch);
    dump
}

/// (iii) the events through a real receiver under `Registry + CaptureLayer (+ filter)`
pub fn snap_tunnel(events: &[TracingEvent], filter: Option<&HFilter>) -> String {
    let storage = SharedStorage::default();
    let subscriber = tracing_subscriber::registry().with(CaptureLayer::new(&storage)).with(PredLayer(filter.cloned()));
    let dispatch = Dispatch::new(subscriber);
    let dump = tracing::dispatcher::with_default(&dispatch, || {
        let mut receiver = TracingEventReceiver::default();
        let mut failed = false;
        for e in events {
            match catch_unwind(AssertUnwindSafe(|| receiver.try_receive(e.clone()))) {
                Ok(Ok(())) => {}
                _ => {
                    failed = true;
                    break;
                }
            }
        }
        let dump = if failed { "receiver failed".to_owned() } else { dump_storage(&storage.lock()) };
        if failed {
            std::mem::forget(receiver);
        } else {
            drop(receiver);
        }
        dump
    });
    drop(dispatch);
    dump
}

// ---- a host that filters inside the capture layer --------------------------------------------------

/// `CaptureLayer::with_filter(..)` filter that evaluates the predicate once per call site and
/// remembers the verdict under `Metadata::callsite()` (as interest caches and `EnvFilter` do).
struct MemoFilter {
    pred: Option<HFilter>,
    memo: std::sync::Mutex<HashMap<tracing_core::callsite::Identifier, bool>>,
}
impl<S> tracing_subscriber::layer::Filter<S> for MemoFilter {
    fn enabled(&self, m: &Metadata<'_>, _: &Context<'_, S>) -> bool {
        let mut memo = self.memo.lock().unwrap();
        *memo.entry(m.callsite()).or_insert_with(|| self.pred.as_ref().map_or(true, |f| f.eval(m)))
    }
}
fn memo_host(storage: &SharedStorage, filter: Option<&HFilter>) -> Dispatch {
    let layer = CaptureLayer::new(storage).with_filter(MemoFilter { pred: filter.cloned(), memo: Default::default() });
    Dispatch::new(tracing_subscriber::registry().with(layer))
}

/// the program natively under `Registry + CaptureLayer::with_filter(memoising filter)`
pub fn snap_native_layer(prog: &Prog, sites: &[&'static DynSite], filter: Option<&HFilter>) -> String {
    let storage = SharedStorage::default();
    let dispatch = memo_host(&storage, filter);
    let dump = tracing::dispatcher::with_default(&dispatch, || {
        let r = exec_on(prog, sites);
        let dump = dump_storage(&storage.lock());
        drop(r);
        dump
    });
    drop(dispatch);
    dump
}

/// the events through a real receiver under the same kind of host
pub fn snap_tunnel_layer(events: &[TracingEvent], filter: Option<&HFilter>) -> String {
    let storage = SharedStorage::default();
    let dispatch = memo_host(&storage, filter);
    let dump = tracing::dispatcher::with_default(&dispatch, || {
        let mut receiver = TracingEventReceiver::default();
        let mut failed = false;
        for e in events {
            match catch_unwind(AssertUnwindSafe(|| receiver.try_receive(e.clone()))) {
                Ok(Ok(())) => {}
                _ => {
                    failed = true;
                    break;
                }
            }
        }
        let dump = if failed { "receiver failed".to_owned() } else { dump_storage(&storage.lock()) };
        if failed {
            std::mem::forget(receiver);
        } else {
            drop(receiver);
        }
        dump
    });
    drop(dispatch);
    dump
}

// ---- Gallina printing --------------------------------------------------------------------------

pub const FOREIGN: u64 = 1_000_000_007;

fn cspar(p: &Par) -> String {
    match p {
        Par::Ctx => "SPCtx".into(),
        Par::Root => "SPRoot".into(),
        Par::Explicit(id) => format!("(SPExplicit {id})"),
    }
}
fn chpar(p: &Par) -> String {
    match p {
        Par::Ctx => "PCtx".into(),
        Par::Root => "PRoot".into(),
        Par::Explicit(id) => format!("(PExplicit {id})"),
    }
}

/// the native log as `list scall`: metadata addresses -> index in the program's pool; registrations
/// of other call sites are removed (returned count)
pub fn cscalls(calls: &[Call], sites: &[&'static DynSite]) -> (String, u64) {
    let index: HashMap<u64, u64> = sites.iter().enumerate().map(|(i, s)| (addr_of(s.metadata()), i as u64)).collect();
    let site = |a: &u64| index.get(a).copied().unwrap_or(FOREIGN);
    let mut foreign = 0;
    let mut out = vec![];
    for c in calls {
        out.push(match c {
            Call::Register(a, _) => match index.get(a) {
                Some(i) => format!("SRegister {i}"),
                None => {
                    foreign += 1;
                    continue;
                }
            },
            Call::NewSpan { id, addr, parent, vals, .. } => format!("SNewSpan {id} {} {} {}", site(addr), cspar(parent), ctvs(vals)),
            Call::Record(id, vals) => format!("SRecord {id} {}", ctvs(vals)),
            Call::Enter(id) => format!("SEnter {id}"),
            Call::Exit(id) => format!("SExit {id}"),
            Call::Clone(id) => format!("SClone {id}"),
            Call::TryClose(id) => format!("STryClose {id}"),
            Call::Follows(id, f) => format!("SFollows {id} {f}"),
            Call::Event { addr, parent, vals, .. } => format!("SEvent {} {} {}", site(addr), cspar(parent), ctvs(vals)),
        });
    }
    (format!("[{}]", out.join("; ")), foreign)
}

/// the log of the host behind the tunnel as `list hcall` (call sites by content).  `clone_span` must
/// never reach the host; the vocabulary has no such call, so it is printed as a call that matches
/// nothing (`HRecord 0 []`) and counted.
pub fn chcalls(calls: &[Call]) -> (String, u64) {
    let mut clones = 0;
    let mut out = vec![];
    for c in calls {
        out.push(match c {
            Call::Register(_, d) => format!("HRegister {}", ccs(d)),
            Call::NewSpan { id, data, parent, vals, .. } => format!("HNewSpan {id} {} {} {}", ccs(data), chpar(parent), ctvs(vals)),
            Call::Record(id, vals) => format!("HRecord {id} {}", ctvs(vals)),
            Call::Enter(id) => format!("HEnter {id}"),
            Call::Exit(id) => format!("HExit {id}"),
            Call::Clone(_) => {
                clones += 1;
                "HRecord 0 []".into()
            }
            Call::TryClose(id) => format!("HTryClose {id}"),
            Call::Follows(id, f) => format!("HFollows {id} {f}"),
            Call::Event { data, parent, vals, .. } => format!("HEvent {} {} {}", ccs(data), chpar(parent), ctvs(vals)),
        });
    }
    (format!("[{}]", out.join("; ")), clones)
}

pub fn op_events(events: &[TracingEvent]) -> usize {
    events.iter().filter(|e| !matches!(e, TracingEvent::NewCallSite { .. })).count()
}

/// `known_explicit_root` of Tunnel/Tunnel.v (for the histogram only; the judge computes its own)
pub fn in_root_class(prog: &Prog) -> bool {
    let mut stack: Vec<usize> = vec![];
    for (_, op) in &prog.ops {
        match op {
            Op::NewSpan(_, ParentKind::Root, _) | Op::Event(_, ParentKind::Root, _) if !stack.is_empty() => return true,
            Op::Enter(k) => stack.push(*k),
            Op::Exit(k) => {
                if let Some(pos) = stack.iter().rposition(|j| j == k) {
                    stack.remove(pos);
                }
            }
            _ => {}
        }
    }
    false
}
pub fn has_roots(prog: &Prog) -> bool {
    prog.ops.iter().any(|(_, op)| matches!(op, Op::NewSpan(_, ParentKind::Root, _) | Op::Event(_, ParentKind::Root, _)))
}

pub fn bump_prog(sink: &mut Sink, prog: &Prog) {
    for (_, op) in &prog.ops {
        sink.bump(&format!("op:{}", op.name()));
        match op {
            Op::NewSpan(_, p, vs) | Op::Event(_, p, vs) => {
                sink.bump(match p {
                    ParentKind::Ctx => "parent:contextual",
                    ParentKind::Root => "parent:root",
                    ParentKind::Explicit(_) => "parent:explicit",
                });
                bump_vals(sink, vs);
            }
            Op::Record(_, vs) => bump_vals(sink, vs),
            _ => {}
        }
    }
    sink.bump(&format!("prog:ops:{:02}", (prog.ops.len() / 10) * 10));
}
fn bump_vals(sink: &mut Sink, vs: &ValSet) {
    for (_, v) in vs {
        sink.bump(match v {
            None => "value:empty",
            Some(Prim::Int(..)) => "value:int",
            Some(Prim::UInt(..)) => "value:uint",
            Some(Prim::F32(_)) | Some(Prim::F64(_)) => "value:float",
            Some(Prim::Bool(_)) => "value:bool",
            Some(Prim::Str { .. }) => "value:str",
            Some(Prim::Display(_)) | Some(Prim::Debug(_)) => "value:object",
            Some(Prim::Error(..)) => "value:error",
        });
    }
}

// ---- one case ----------------------------------------------------------------------------------

fn prog_case(sink: &mut Sink, idx: u64, kind: &str, prog: &Prog) {
    if !sink.wants(idx) {
        return;
    }
    let key = cprog(prog);
    let sites = make_sites(&prog.sites);
    let native = run_native(prog, &sites, None, Mode::Always);
    let sent = run_sender(prog, &sites);
    let wire = through_json(&sent.events);
    let tunnel = run_receiver(&wire.events, None, Mode::Always);
    let (tunnel, tunnel_stale) = pick_tunnel_run(sink, tunnel, run_receiver_stale(&wire.events, None, Mode::Always));
    let snap_n = snap_native(prog, &sites, None);
    let snap_t = snap_tunnel(&wire.events, None);
    let snap_eq = snap_n == snap_t;

    intern_begin();
    let (native_log, foreign_native) = cscalls(&native.calls, &sites);
    let (_, clones) = chcalls(&tunnel.calls);
    let term_of = |t: &TunnelRun| {
        format!(
            "judge_c01 {} (mk_tobs {native_log} {} {} {} {} {})",
            cprog(prog),
            chcalls(&t.calls).0,
            cbool(t.accepted),
            op_events(&sent.events),
            cbool(wire.lossless),
            cbool(snap_eq),
        )
    };
    let term = match &tunnel_stale {
        Some(stale) => format!("vworst ({}) ({})", term_of(&tunnel), term_of(stale)),
        None => term_of(&tunnel),
    };
    let judge = intern_wrap(&term);

    bump_prog(sink, prog);
    sink.bump(if in_root_class(prog) {
        "class:explicit-root-inside-entered-span"
    } else if has_roots(prog) {
        "class:explicit-roots-outside-entered-spans"
    } else {
        "class:no-explicit-root"
    });
    sink.bump(if snap_eq { "snapshot:equal" } else { "snapshot:different" });
    sink.bump_by("events:total", sent.events.len() as u64);
    sink.bump_by("events:carried-by-identity-nonfinite-float", wire.by_identity);
    sink.bump_by("announce:foreign-filtered-sender", sent.foreign);
    sink.bump_by("announce:foreign-filtered-native", foreign_native);
    sink.bump_by("tunnel:host-registrations", tunnel.calls.iter().filter(|c| matches!(c, Call::Register(..))).count() as u64);
    sink.bump_by("tunnel:clone-forwarded", clones);
    sink.bump_by("tunnel:rejected", tunnel.rejected);
    sink.bump_by("native:clone-calls", native.calls.iter().filter(|c| matches!(c, Call::Clone(_))).count() as u64);
    if tunnel.panicked {
        sink.bump("tunnel:panicked");
    }
    if !wire.lossless {
        sink.bump("wire:lossy");
    }
    let nontrivial = tunnel.calls.iter().filter(|c| !matches!(c, Call::Register(..))).count() >= 3;
    sink.case(idx, kind, &judge, &key, nontrivial, || serde_json::json!({ "prog": cprog(prog) }));
}

// ---- hand-written programs ---------------------------------------------------------------------

pub fn site(kind: CallSiteKind, name: &str, target: &str, level: TracingLevel, fields: &[&str]) -> CallSiteData {
    CallSiteData {
        kind,
        name: name.to_owned().into(),
        target: target.to_owned().into(),
        level,
        module_path: Some("c01::guest".into()),
        file: Some("c01.rs".into()),
        line: Some(1),
        fields: fields.iter().map(|f| (*f).to_owned().into()).collect(),
    }
}
pub fn single(ops: Vec<Op>, sites: Vec<CallSiteData>) -> Prog {
    Prog { sites, ops: ops.into_iter().map(|op| (0, op)).collect() }
}
pub fn std_sites(t: &str) -> Vec<CallSiteData> {
    vec![
        site(CallSiteKind::Span, "fib", t, TracingLevel::Info, &["approx", "iter"]),
        site(CallSiteKind::Event, "event c01.rs:14", t, TracingLevel::Debug, &["message", "current", "current"]),
        site(CallSiteKind::Span, "child", &format!("{t}::inner"), TracingLevel::Trace, &[]),
        site(CallSiteKind::Span, "detached", &format!("{t}::db"), TracingLevel::Debug, &["x"]),
        site(CallSiteKind::Event, "warning", &format!("{t}::db"), TracingLevel::Warn, &["message"]),
    ]
}

pub fn corpus(t: &str) -> Vec<Prog> {
    let obj = |s: &str| Obj { display: format!("{s} (display)"), debug: s.to_owned() };
    let fib = single(
        vec![
            Op::NewSpan(0, ParentKind::Ctx, vec![(0, None), (1, Some(Prim::UInt(IWidth::WSize, 5)))]),
            Op::Enter(0),
            Op::Event(1, ParentKind::Ctx, vec![(0, Some(Prim::Debug(obj("performing iteration")))), (1, Some(Prim::UInt(IWidth::W64, 1))), (2, None)]),
            Op::Record(0, vec![(0, Some(Prim::F64(5.0)))]),
            Op::Exit(0),
            Op::Drop(0),
            Op::Event(1, ParentKind::Root, vec![(0, Some(Prim::Display(obj("computed")))), (2, Some(Prim::Int(IWidth::W32, -1)))]),
        ],
        std_sites(t),
    );
    // the witness of the known class (Tunnel/Tunnel.v wit_explicit_root) and its complement
    let root_inside = single(
        vec![
            Op::NewSpan(0, ParentKind::Ctx, vec![(0, Some(Prim::Bool(true)))]),
            Op::Enter(0),
            Op::NewSpan(3, ParentKind::Root, vec![]),
            Op::Event(4, ParentKind::Root, vec![(0, Some(Prim::Str { s: "hello".into(), owned: false }))]),
            Op::Exit(0),
        ],
        std_sites(t),
    );
    let root_outside = single(
        vec![
            Op::NewSpan(0, ParentKind::Ctx, vec![(0, Some(Prim::Bool(true)))]),
            Op::NewSpan(3, ParentKind::Root, vec![]),
            Op::Event(4, ParentKind::Root, vec![(0, Some(Prim::Str { s: "hello".into(), owned: true }))]),
            Op::Enter(0),
            Op::Exit(0),
        ],
        std_sites(t),
    );
    // root created after all spans were exited again, and a re-entered span exited once (still inside)
    let root_after_exit = single(
        vec![
            Op::NewSpan(0, ParentKind::Ctx, vec![]),
            Op::Enter(0),
            Op::Enter(0),
            Op::Exit(0),
            Op::Exit(0),
            Op::NewSpan(2, ParentKind::Root, vec![]),
            Op::Enter(0),
            Op::Enter(1),
            Op::Exit(0),
            Op::Event(4, ParentKind::Root, vec![]),
        ],
        std_sites(t),
    );
    let explicit = single(
        vec![
            Op::NewSpan(0, ParentKind::Root, vec![]),
            Op::NewSpan(2, ParentKind::Explicit(0), vec![]),
            Op::Clone(0),
            Op::Drop(0),
            Op::Drop(0),
            Op::Enter(1),
            Op::Event(1, ParentKind::Explicit(1), vec![(1, Some(Prim::Bool(true)))]),
            Op::Exit(1),
            Op::Follows(1, FollowTarget::Live(1)),
            Op::Record(1, vec![]),
            Op::Drop(1),
        ],
        std_sites(t),
    );
    let reentrant = single(
        vec![
            Op::NewSpan(0, ParentKind::Ctx, vec![(1, Some(Prim::Int(IWidth::W8, -128))), (0, Some(Prim::Error("outer".into(), vec!["inner".into(), "root".into()])))]),
            Op::NewSpan(2, ParentKind::Ctx, vec![]),
            Op::Enter(0),
            Op::Enter(1),
            Op::Enter(0),
            Op::Exit(0),
            Op::Exit(0),
            Op::Enter(0),
            Op::Exit(1),
            Op::Follows(0, FollowTarget::Live(1)),
            Op::Drop(1),
        ],
        std_sites(t),
    );
    // clone / drop traffic that `normalise` folds; the host span is closed by the last drop only
    let handles = single(
        vec![
            Op::NewSpan(0, ParentKind::Ctx, vec![]),
            Op::Clone(0),
            Op::Clone(0),
            Op::Drop(0),
            Op::Enter(0),
            Op::Event(4, ParentKind::Ctx, vec![(0, Some(Prim::Str { s: "inside".into(), owned: false }))]),
            Op::Drop(0),
            Op::Exit(0),
            Op::Drop(0),
            Op::Event(4, ParentKind::Ctx, vec![]),
        ],
        std_sites(t),
    );
    // two call sites with equal descriptions: two native call sites, one interned tunnel call site
    let twins = single(
        vec![
            Op::NewSpan(0, ParentKind::Ctx, vec![(0, Some(Prim::UInt(IWidth::W8, 1)))]),
            Op::NewSpan(1, ParentKind::Explicit(0), vec![(0, Some(Prim::UInt(IWidth::W8, 2)))]),
            Op::Event(2, ParentKind::Explicit(1), vec![]),
            Op::Event(3, ParentKind::Ctx, vec![]),
            Op::Drop(0),
            Op::Drop(1),
        ],
        vec![
            site(CallSiteKind::Span, "twin", t, TracingLevel::Info, &["x"]),
            site(CallSiteKind::Span, "twin", t, TracingLevel::Info, &["x"]),
            site(CallSiteKind::Event, "twin event", t, TracingLevel::Info, &[]),
            site(CallSiteKind::Event, "twin event", t, TracingLevel::Info, &[]),
        ],
    );
    // repeated field names, values out of declaration order, every value kind, a 32-field call site
    let wide: Vec<String> = (0..32).map(|i| format!("f{i}")).collect();
    let wide_refs: Vec<&str> = wide.iter().map(String::as_str).collect();
    let values = single(
        vec![
            Op::NewSpan(
                0,
                ParentKind::Ctx,
                vec![
                    (2, Some(Prim::Int(IWidth::W128, i128::MIN))),
                    (0, Some(Prim::UInt(IWidth::W128, u128::MAX))),
                    (1, Some(Prim::F32(1.5))),
                    (3, Some(Prim::Display(obj("shown")))),
                ],
            ),
            Op::Record(0, vec![(1, Some(Prim::Str { s: "later".into(), owned: true })), (2, None), (0, Some(Prim::F64(-0.0)))]),
            Op::Event(1, ParentKind::Explicit(0), vec![(0, Some(Prim::Error("e".into(), vec!["cause".into()]))), (1, Some(Prim::Bool(false)))]),
            Op::NewSpan(2, ParentKind::Explicit(0), (0..32).map(|i| (31 - i, Some(Prim::Int(IWidth::W16, i as i128 - 16)))).collect()),
            Op::Record(1, (0..32).map(|i| (i, if i % 3 == 0 { None } else { Some(Prim::UInt(IWidth::W32, i as u128)) })).collect()),
        ],
        vec![
            site(CallSiteKind::Span, "dups", t, TracingLevel::Info, &["a", "b", "a", "c"]),
            site(CallSiteKind::Event, "dups event", t, TracingLevel::Error, &["error", "error"]),
            site(CallSiteKind::Span, "wide", t, TracingLevel::Trace, &wide_refs),
        ],
    );
    vec![fib, root_inside, root_outside, root_after_exit, explicit, reentrant, handles, twins, values]
}

// ---- small-scope enumeration -------------------------------------------------------------------

/// All well-formed op sequences of length 1..=len over a small alphabet on at most two spans, one
/// span call site and one event call site; explicit roots included.
pub fn small_scope(len: usize, roots: bool) -> Vec<Vec<Op>> {
    fn alphabet(nspans: usize, roots: bool) -> Vec<Op> {
        let mut a = vec![Op::NewSpan(0, ParentKind::Ctx, vec![(0, Some(Prim::Bool(true)))]), Op::Event(1, ParentKind::Ctx, vec![])];
        if roots {
            a.push(Op::NewSpan(0, ParentKind::Root, vec![]));
            a.push(Op::Event(1, ParentKind::Root, vec![]));
        }
        for k in 0..nspans.min(2) {
            a.push(Op::NewSpan(0, ParentKind::Explicit(k), vec![]));
            a.push(Op::Event(1, ParentKind::Explicit(k), vec![(0, Some(Prim::Int(IWidth::W8, 1)))]));
            a.push(Op::Record(k, vec![(0, Some(Prim::Bool(false)))]));
            a.push(Op::Enter(k));
            a.push(Op::Exit(k));
            a.push(Op::Clone(k));
            a.push(Op::Drop(k));
            a.push(Op::Follows(k, FollowTarget::Live(0)));
        }
        a
    }
    #[derive(Clone)]
    struct St {
        handles: Vec<u32>,
        stack: Vec<usize>,
    }
    fn step(st: &St, op: &Op) -> Option<St> {
        let mut s = st.clone();
        let live = |k: usize| st.handles.get(k).is_some_and(|h| *h > 0);
        match op {
            Op::NewSpan(_, p, _) => {
                if let ParentKind::Explicit(k) = p {
                    if !live(*k) {
                        return None;
                    }
                }
                if s.handles.len() >= 2 {
                    return None;
                }
                s.handles.push(1);
            }
            Op::Event(_, p, _) => {
                if let ParentKind::Explicit(k) = p {
                    if !live(*k) {
                        return None;
                    }
                }
            }
            Op::Record(k, _) => {
                if !live(*k) {
                    return None;
                }
            }
            Op::Enter(k) => {
                if !live(*k) {
                    return None;
                }
                s.stack.push(*k);
            }
            Op::Exit(k) => {
                if !live(*k) {
                    return None;
                }
                let pos = s.stack.iter().rposition(|j| j == k)?;
                s.stack.remove(pos);
            }
            Op::Clone(k) => {
                if !live(*k) {
                    return None;
                }
                s.handles[*k] += 1;
            }
            Op::Drop(k) => {
                if !live(*k) || (st.handles[*k] == 1 && st.stack.contains(k)) {
                    return None;
                }
                s.handles[*k] -= 1;
            }
            Op::Follows(k, FollowTarget::Live(j)) => {
                if !live(*k) || !live(*j) {
                    return None;
                }
            }
            Op::Follows(..) => return None,
        }
        Some(s)
    }
    let mut out: Vec<Vec<Op>> = vec![];
    let mut frontier: Vec<(Vec<Op>, St)> = vec![(vec![], St { handles: vec![], stack: vec![] })];
    for _ in 0..len {
        let mut next = vec![];
        for (ops, st) in &frontier {
            for op in alphabet(st.handles.len(), roots) {
                if let Some(st2) = step(st, &op) {
                    let mut o2 = ops.clone();
                    o2.push(op);
                    next.push((o2, st2));
                }
            }
        }
        out.extend(next.iter().map(|(o, _)| o.clone()));
        frontier = next;
    }
    out
}

// ---- driver ------------------------------------------------------------------------------------

pub fn run(o: &Opts) {
    let mut sink = Sink::new(&o.out, o.shards, "Judge.C01", o.only.clone());
    let mut idx = 0u64;

    // 1. corpus (incl. the witness of the known class and its complement)
    for prog in corpus("c01") {
        prog_case(&mut sink, idx, "corpus", &prog);
        idx += 1;
    }

    // 2. small scope: every well-formed op sequence up to length L on two spans, explicit roots included
    let len = if o.thorough { 4 } else { 3 };
    let small_sites = vec![
        site(CallSiteKind::Span, "s", "c01::small", TracingLevel::Info, &["a"]),
        site(CallSiteKind::Event, "e", "c01::small", TracingLevel::Info, &["a"]),
    ];
    for ops in small_scope(len, true) {
        let prog = single(ops, small_sites.clone());
        prog_case(&mut sink, idx, "small-scope", &prog);
        idx += 1;
    }

    // 3. random programs of the shared generator (explicit roots inside and outside entered spans)
    let n_balanced = if o.thorough { 40_000 } else { 1_200 } * o.scale;
    for _ in 0..n_balanced {
        if sink.wants(idx) {
            let mut r = Rng::for_case(o.seed, "C01-balanced", idx);
            let prog = gen_prog(&mut r, &GenCfg::balanced("c01"));
            prog_case(&mut sink, idx, "random-balanced", &prog);
        }
        idx += 1;
    }
    let n_values = if o.thorough { 10_000 } else { 300 } * o.scale;
    for _ in 0..n_values {
        if sink.wants(idx) {
            let mut r = Rng::for_case(o.seed, "C01-values", idx);
            let prog = gen_prog(&mut r, &GenCfg::values("c01"));
            prog_case(&mut sink, idx, "random-values", &prog);
        }
        idx += 1;
    }
    // 4. longer programs with many handles and deep nesting
    let n_long = if o.thorough { 4_000 } else { 120 } * o.scale;
    for _ in 0..n_long {
        if sink.wants(idx) {
            let mut r = Rng::for_case(o.seed, "C01-long", idx);
            let mut cfg = GenCfg::balanced("c01");
            cfg.min_ops = 40;
            cfg.max_ops = 90;
            cfg.weights = [14, 8, 22, 16, 10, 12, 6, 14];
            let prog = gen_prog(&mut r, &cfg);
            prog_case(&mut sink, idx, "random-long", &prog);
        }
        idx += 1;
    }

    sink.finish(
        "one case = one guest program executed with the real tracing API (a) natively under a recording Subscriber issuing ids \
         1,2,3.., (b) under a real TracingEventSender, every event through serde_json to_string + from_str, replayed in order \
         through a real TracingEventReceiver under a fresh recording Subscriber, (c) both ways under Registry + CaptureLayer \
         with the storages dumped through the public API and compared. The judge compares both logs with the model and \
         evaluates the property on the implementation's own logs (tunnel log = canon (normalise native log) without \
         registrations, nothing rejected, wire lossless, snapshots equal); inside the known class explicit-root the failure \
         must be the recorded one (roots arrive as contextual, nothing else differs). corpus incl. the witness; every \
         well-formed op sequence up to length L on two spans with explicit roots; random programs of the shared generator \
         (balanced / value-heavy / long). non-trivial = at least 3 host calls behind the tunnel; distinct = distinct programs",
        serde_json::json!({ "small_scope_len": len, "call_sites_built": sites_built() }),
    );
}
