//! C14: every recorded field value is captured once, in order, with the right kind.
//!
//! Guest programs are executed with the real `tracing` API under a small subscriber that hands the
//! span attributes, records and events it receives to the REAL `TracedValues::from_values`,
//! `from_record` and `from_event`, at `TracedValues<String>` (tunnel sender) and
//! `TracedValues<&'static str>` (capture layer).
use std::sync::{
    atomic::{AtomicU64, Ordering},
    Arc, Mutex,
};

use tracing_core::{
    span::{Attributes, Id, Record},
    subscriber::Interest,
    Event, Metadata, Subscriber,
};
use tracing_tunnel::{CallSiteData, CallSiteKind, TracedValues, TracingLevel};

use crate::{coq::*, guest::*, out::Sink, rng::Rng, Opts};

struct Capture {
    obs: Arc<Mutex<Vec<String>>>,
    next_id: AtomicU64,
    /// answer `Interest::sometimes()` so that the `enabled()` path of the macro replica runs
    sometimes: bool,
}

fn observation(owned: &TracedValues<String>, stat: &TracedValues<&'static str>) -> String {
    format!("mk_cap {} {}", ctvs(owned), ctvs(stat))
}

impl Subscriber for Capture {
    fn register_callsite(&self, _: &'static Metadata<'static>) -> Interest {
        if self.sometimes { Interest::sometimes() } else { Interest::always() }
    }
    fn enabled(&self, _: &Metadata<'_>) -> bool {
        true
    }
    fn new_span(&self, attrs: &Attributes<'_>) -> Id {
        let owned = TracedValues::<String>::from_values(attrs.values());
        let stat = TracedValues::<&'static str>::from_values(attrs.values());
        self.obs.lock().unwrap().push(observation(&owned, &stat));
        Id::from_u64(self.next_id.fetch_add(1, Ordering::SeqCst))
    }
    fn record(&self, _: &Id, values: &Record<'_>) {
        let owned = TracedValues::<String>::from_record(values);
        let stat = TracedValues::<&'static str>::from_record(values);
        self.obs.lock().unwrap().push(observation(&owned, &stat));
    }
    fn record_follows_from(&self, _: &Id, _: &Id) {}
    fn event(&self, event: &Event<'_>) {
        let owned = TracedValues::<String>::from_event(event);
        let stat = TracedValues::<&'static str>::from_event(event);
        self.obs.lock().unwrap().push(observation(&owned, &stat));
    }
    fn enter(&self, _: &Id) {}
    fn exit(&self, _: &Id) {}
}

fn run_prog(prog: &Prog, sometimes: bool) -> Vec<String> {
    let obs = Arc::new(Mutex::new(vec![]));
    let subscriber = Capture { obs: Arc::clone(&obs), next_id: AtomicU64::new(1), sometimes };
    tracing::subscriber::with_default(subscriber, || {
        if sometimes {
            // Before the program: an event whose `Debug` value panics half-way through its text; the guest
            // catches the panic.  Nothing was observed for it, and what the program records afterwards on
            // this thread is captured as if it had not happened.
            if let Some(cs) = (0..prog.sites.len()).find(|&i| matches!(prog.sites[i].kind, CallSiteKind::Event) && !prog.sites[i].fields.is_empty()) {
                let sites = make_sites(&prog.sites);
                let hook: std::rc::Rc<dyn Fn(&str)> = std::rc::Rc::new(|text: &str| {
                    if text == "hostile#partial" {
                        std::panic::resume_unwind(Box::new("guest Debug impl panics"));
                    }
                });
                DEBUG_HOOK.with(|h| *h.borrow_mut() = Some(hook));
                let vals: ValSet = vec![(0, Some(Prim::Debug(Obj { display: "-".into(), debug: "hostile#partial".into() })))];
                let site = sites[cs];
                let before = obs.lock().unwrap().len();
                let _ = std::panic::catch_unwind(std::panic::AssertUnwindSafe(|| {
                    if site.is_enabled() {
                        with_value_set(site, &vals, |vs| tracing::Event::dispatch(site.metadata(), vs));
                    }
                }));
                DEBUG_HOOK.with(|h| *h.borrow_mut() = None);
                obs.lock().unwrap().truncate(before);
            }
        }
        let r = exec(prog);
        assert_eq!(r.ops_skipped, 0, "C14 programs are single-threaded");
        assert!(r.enabled.iter().all(|e| *e) && r.events_disabled == 0, "the capturing subscriber enables everything");
        // every observation has been made; the remaining handles are dropped inside the scope
        // (`try_close` of this subscriber does nothing)
    });
    let out = obs.lock().unwrap().clone();
    out
}

fn valsets(prog: &Prog) -> impl Iterator<Item = (&ValSet, usize)> + '_ {
    // (value set, call-site index it refers to)
    let mut span_sites: Vec<usize> = vec![];
    prog.ops.iter().filter_map(move |(_, op)| match op {
        Op::NewSpan(cs, _, vs) => {
            span_sites.push(*cs);
            Some((vs, *cs))
        }
        Op::Record(k, vs) => Some((vs, span_sites[*k])),
        Op::Event(cs, _, vs) => Some((vs, *cs)),
        _ => None,
    })
}

fn prog_case(sink: &mut Sink, idx: u64, kind: &str, prog: &Prog, strict: bool) {
    if !sink.wants(idx) {
        return;
    }
    let key = cprog(prog); // not interned: canonical text of the input
    intern_begin();
    let obs = run_prog(prog, idx % 2 == 1);
    let term = format!("judge_capture {} {} [{}]", cbool(strict), cprog(prog), obs.join("; "));
    let judge = intern_wrap(&term);

    let mut provided = 0u64;
    for (vs, cs) in valsets(prog) {
        sink.bump("valuesets");
        sink.bump(&format!("valueset-len:{:02}", vs.len()));
        let names = &prog.sites[cs].fields;
        let given: Vec<&str> = vs.iter().filter(|(_, p)| p.is_some()).map(|(i, _)| names[*i].as_ref()).collect();
        let mut sorted = given.clone();
        sorted.sort_unstable();
        sorted.dedup();
        if sorted.len() < given.len() {
            sink.bump("valueset:repeated-name");
        }
        if vs.iter().any(|(_, p)| p.is_none()) {
            sink.bump("valueset:has-empty");
        }
        if vs.windows(2).any(|w| w[0].0 >= w[1].0) {
            sink.bump("valueset:not-declaration-order");
        }
        for (_, p) in vs {
            provided += u64::from(p.is_some());
            sink.bump(match p {
                None => "value:empty",
                Some(Prim::Int(w, _)) => match w {
                    IWidth::W8 => "value:i8",
                    IWidth::W16 => "value:i16",
                    IWidth::W32 => "value:i32",
                    IWidth::W64 => "value:i64",
                    IWidth::W128 => "value:i128",
                    IWidth::WSize => "value:isize",
                },
                Some(Prim::UInt(w, _)) => match w {
                    IWidth::W8 => "value:u8",
                    IWidth::W16 => "value:u16",
                    IWidth::W32 => "value:u32",
                    IWidth::W64 => "value:u64",
                    IWidth::W128 => "value:u128",
                    IWidth::WSize => "value:usize",
                },
                Some(Prim::F32(_)) => "value:f32",
                Some(Prim::F64(_)) => "value:f64",
                Some(Prim::Bool(_)) => "value:bool",
                Some(Prim::Str { owned: false, .. }) => "value:&str",
                Some(Prim::Str { owned: true, .. }) => "value:String",
                Some(Prim::Display(_)) => "value:%display",
                Some(Prim::Debug(_)) => "value:?debug",
                Some(Prim::Error(_, chain)) => match chain.len() {
                    0 => "value:error-depth0",
                    1 => "value:error-depth1",
                    2 => "value:error-depth2",
                    3 => "value:error-depth3",
                    _ => "value:error-depth4",
                },
            });
        }
    }
    for (_, op) in &prog.ops {
        sink.bump(&format!("op:{}", op.name()));
    }
    sink.case(idx, kind, &judge, &key, provided > 0, || serde_json::json!({ "prog": key }));
}

fn site(kind: CallSiteKind, name: &str, fields: &[String]) -> CallSiteData {
    CallSiteData {
        kind,
        name: name.to_owned().into(),
        target: "c14".into(),
        level: TracingLevel::Info,
        module_path: None,
        file: Some("c14.rs".into()),
        line: Some(1),
        fields: fields.iter().map(|f| f.clone().into()).collect(),
    }
}
fn names(fs: &[&str]) -> Vec<String> {
    fs.iter().map(|f| (*f).to_owned()).collect()
}
fn single(ops: Vec<Op>, sites: Vec<CallSiteData>) -> Prog {
    Prog { sites, ops: ops.into_iter().map(|op| (0, op)).collect() }
}
/// the same value set through span attributes, a record and an event
fn three_ways(fields: &[String], vs: &ValSet) -> Prog {
    single(
        vec![
            Op::NewSpan(0, ParentKind::Ctx, vs.clone()),
            Op::Record(0, vs.clone()),
            Op::Event(1, ParentKind::Ctx, vs.clone()),
        ],
        vec![site(CallSiteKind::Span, "s", fields), site(CallSiteKind::Event, "e", fields)],
    )
}

fn grid_prims() -> Vec<Vec<Prim>> {
    let mut out: Vec<Vec<Prim>> = vec![];
    for w in WIDTHS {
        for z in [0, 1, -1, w.int_min(), w.int_max()] {
            out.push(vec![Prim::Int(w, z)]);
        }
        for z in [0, 1, w.uint_max()] {
            out.push(vec![Prim::UInt(w, z)]);
        }
    }
    // f32: zeros, ones, infinities, NaNs (quiet, signalling, negative), max, subnormals (smallest, largest), min normal
    for bits in [
        0u32, 0x8000_0000, 0x3F80_0000, 0xBF80_0000, 0x7F80_0000, 0xFF80_0000, 0x7FC0_0000, 0xFFC0_0000, 0x7F80_0001,
        0x7FFF_FFFF, 0x7F7F_FFFF, 1, 0x8000_0001, 0x007F_FFFF, 0x0080_0000, 0x3DCC_CCCD,
    ] {
        out.push(vec![Prim::F32(f32::from_bits(bits))]);
    }
    for bits in [
        0u64, 0x8000_0000_0000_0000, 0x3FF0_0000_0000_0000, 0xBFF0_0000_0000_0000, 0x7FF0_0000_0000_0000,
        0xFFF0_0000_0000_0000, 0x7FF8_0000_0000_0000, 0xFFF8_0000_0000_0000, 0x7FF0_0000_0000_0001,
        0x7FFF_FFFF_FFFF_FFFF, 0x7FEF_FFFF_FFFF_FFFF, 1, 0x8000_0000_0000_0001, 0x000F_FFFF_FFFF_FFFF,
        0x0010_0000_0000_0000, 0x3FB9_9999_9999_999A,
    ] {
        out.push(vec![Prim::F64(f64::from_bits(bits))]);
    }
    out.push(vec![Prim::Bool(true)]);
    out.push(vec![Prim::Bool(false)]);
    for s in ["", "x", "hello world", "ключ", "a\nb", "q\"uote", "\u{1F600}", "back\\slash", "\0nul", "trailing "] {
        out.push(vec![Prim::Str { s: s.to_owned(), owned: false }]);
        out.push(vec![Prim::Str { s: s.to_owned(), owned: true }]);
    }
    // the same object recorded with % and with ?: different renderings
    for (d, g) in [("shown", "Debugged { x: 1 }"), ("", "Empty"), ("ключ", "\"ключ\""), ("true", "false"), ("42", "42")] {
        let o = Obj { display: d.to_owned(), debug: g.to_owned() };
        out.push(vec![Prim::Display(o.clone()), Prim::Debug(o.clone())]);
        out.push(vec![Prim::Debug(o.clone()), Prim::Display(o)]);
    }
    for depth in 0..=4usize {
        let chain: Vec<String> = (0..depth).map(|i| format!("cause {i}")).collect();
        out.push(vec![Prim::Error("top failure".to_owned(), chain)]);
    }
    out.push(vec![Prim::Error(String::new(), vec![String::new(), "ключ".to_owned()])]);
    out
}

pub fn run(o: &Opts) {
    let mut sink = Sink::new(&o.out, o.shards, "Judge.C14", o.only.clone());
    let mut idx = 0u64;

    // 0. the shared interpreter checks itself before anything is judged
    selftest();

    // 1. corpus: hand-written edge cases
    let abacd = names(&["a", "b", "a", "c", "d"]);
    let corpus: Vec<Prog> = vec![
        // the example of Props/C14.v: shuffled, Empty, repeated name, repeated index
        three_ways(
            &abacd,
            &vec![
                (1, Some(Prim::Int(IWidth::W8, -128))),
                (0, Some(Prim::UInt(IWidth::W128, u128::MAX))),
                (3, None),
                (2, Some(Prim::Error("top".into(), vec!["mid".into(), "root".into()]))),
                (4, Some(Prim::F32(1.5))),
                (1, Some(Prim::Display(Obj { display: "shown".into(), debug: "hidden".into() }))),
            ],
        ),
        // macro-like array on a call site with a repeated name
        three_ways(
            &names(&["a", "b", "a"]),
            &vec![(0, Some(Prim::Int(IWidth::W64, 1))), (1, Some(Prim::Bool(true))), (2, Some(Prim::Str { s: "last".into(), owned: false }))],
        ),
        // first "a" Empty, second given: "a" takes the position of the second field
        three_ways(&names(&["a", "b", "a"]), &vec![(0, None), (1, Some(Prim::Bool(true))), (2, Some(Prim::UInt(IWidth::W8, 255)))]),
        // nothing but Empty; no fields at all; no entries on a site with fields
        three_ways(&names(&["a", "b"]), &vec![(0, None), (1, None)]),
        three_ways(&[], &vec![]),
        three_ways(&names(&["a", "b"]), &vec![]),
        // the same field three times
        three_ways(&names(&["a"]), &vec![(0, Some(Prim::Int(IWidth::W16, 1))), (0, None), (0, Some(Prim::F64(-0.0)))]),
        // the fib program of the models' examples
        single(
            vec![
                Op::NewSpan(0, ParentKind::Ctx, vec![(0, None), (1, Some(Prim::UInt(IWidth::WSize, 5)))]),
                Op::Enter(0),
                Op::Event(1, ParentKind::Ctx, vec![(0, Some(Prim::Debug(Obj { display: "-".into(), debug: "performing iteration".into() }))), (1, Some(Prim::UInt(IWidth::W64, 1))), (2, None)]),
                Op::Record(0, vec![(0, Some(Prim::F64(5.0)))]),
                Op::Exit(0),
                Op::Drop(0),
                Op::Event(1, ParentKind::Root, vec![(0, Some(Prim::Display(Obj { display: "computed".into(), debug: "-".into() }))), (2, Some(Prim::Int(IWidth::W32, -1)))]),
            ],
            vec![
                site(CallSiteKind::Span, "fib", &names(&["approx", "iter"])),
                site(CallSiteKind::Event, "event fib.rs:14", &names(&["message", "current", "current"])),
            ],
        ),
    ];
    for prog in &corpus {
        prog_case(&mut sink, idx, "corpus", prog, true);
        idx += 1;
    }

    // 2. value grid: every width x {0, +-1, min, max}, float classes, strings, % vs ?, error depths;
    //    each through span attributes, a record and an event
    let vw = names(&["v", "w"]);
    for prims in grid_prims() {
        let vs: ValSet = prims.into_iter().enumerate().map(|(i, p)| (i, Some(p))).collect();
        prog_case(&mut sink, idx, "value-grid", &three_ways(&vw, &vs), true);
        idx += 1;
    }

    // 3. shapes: 0..=32 entries, in declaration order / shuffled / with Empty entries, on call sites
    //    with distinct and with repeated field names
    for n in 0..=32usize {
        for variant in 0..4u64 {
            if sink.wants(idx) {
                let mut r = Rng::for_case(o.seed, "C14-shape", idx);
                let dup = variant >= 2;
                let fields: Vec<String> = (0..n).map(|i| if dup { format!("f{}", i % 5) } else { format!("f{i}") }).collect();
                let mut order: Vec<usize> = (0..n).collect();
                if variant % 2 == 1 {
                    for i in (1..n).rev() {
                        let j = r.below(i as u64 + 1) as usize;
                        order.swap(i, j);
                    }
                }
                let with_empty = r.chance(50);
                let vs: ValSet = order
                    .into_iter()
                    .map(|i| (i, if with_empty && r.chance(30) { None } else { Some(gen_prim(&mut r)) }))
                    .collect();
                prog_case(&mut sink, idx, "shape", &three_ways(&fields, &vs), true);
            }
            idx += 1;
        }
    }

    // 4. small-scope exhaustive: every value set of length <= L over the fields [a; b; a] with
    //    entries Empty / i8 1 / true; packed as records on one span, 27 value sets per case
    let max_len = if o.thorough { 4 } else { 3 };
    let entries: Vec<(usize, Option<Prim>)> = (0..3usize)
        .flat_map(|i| [(i, None), (i, Some(Prim::Int(IWidth::W8, 1))), (i, Some(Prim::Bool(true)))])
        .collect();
    let mut sets: Vec<ValSet> = vec![vec![]];
    let mut frontier: Vec<ValSet> = vec![vec![]];
    for _ in 0..max_len {
        let mut next = vec![];
        for s in &frontier {
            for e in &entries {
                let mut t = s.clone();
                t.push(e.clone());
                next.push(t);
            }
        }
        sets.extend(next.iter().cloned());
        frontier = next;
    }
    let aba = names(&["a", "b", "a"]);
    for chunk in sets.chunks(27) {
        if sink.wants(idx) {
            let mut ops = vec![Op::NewSpan(0, ParentKind::Ctx, vec![])];
            ops.extend(chunk.iter().map(|vs| Op::Record(0, vs.clone())));
            let prog = single(ops, vec![site(CallSiteKind::Span, "s", &aba)]);
            sink.bump_by("valuesets:exhaustive", chunk.len() as u64);
            prog_case(&mut sink, idx, "exhaustive", &prog, true);
        }
        idx += 1;
    }

    // 5. random programs from the shared generator: value-heavy, then balanced walks
    let n_values = if o.thorough { 50_000 } else { 1_400 } * o.scale;
    for _ in 0..n_values {
        if sink.wants(idx) {
            let mut r = Rng::for_case(o.seed, "C14-values", idx);
            let prog = gen_prog(&mut r, &GenCfg::values("c14"));
            prog_case(&mut sink, idx, "random-values", &prog, true);
        }
        idx += 1;
    }
    let n_balanced = if o.thorough { 10_000 } else { 400 } * o.scale;
    for _ in 0..n_balanced {
        if sink.wants(idx) {
            let mut r = Rng::for_case(o.seed, "C14-balanced", idx);
            let prog = gen_prog(&mut r, &GenCfg::balanced("c14"));
            prog_case(&mut sink, idx, "random-balanced", &prog, true);
        }
        idx += 1;
    }

    // 6. out of scope on purpose: a value that is no Rust value cannot be executed; nothing to
    //    perturb here (a ValueSet cannot be malformed through the safe API)

    sink.finish(
        "one case = one guest program executed with the real tracing API under a subscriber calling the real \
         TracedValues::from_values / from_record / from_event (String and &'static str instantiations); one observation per \
         span creation, record and event. corpus; value grid (every width x {0,+-1,min,max}, float classes, strings, % vs ?, error \
         depths 0..4) each through attributes, record and event; shapes (0..=32 entries x declaration order / shuffled x distinct / \
         repeated names, random Empty entries); every value set of length <= L over fields [a;b;a] x {Empty, 1i8, true}; random \
         programs of the shared generator (value-heavy and balanced). non-trivial = some value set provides at least one value; \
         distinct = distinct canonical program text. Generated programs are judged strictly: an ill-formed one is a Mismatch",
        serde_json::json!({ "exhaustive_valueset_len": max_len, "call_sites_built": sites_built() }),
    );
}
