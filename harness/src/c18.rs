//! C18: predicates of `tracing_capture::predicates` (eval, find_case) and the Scanner helpers.
//!
//! Storages are produced by driving real `tracing` spans / events (static call sites) into a
//! `CaptureLayer`.  Predicate expressions are values of `Pred`; every expression is built twice:
//! as an object of the crate's predicate types (see `build_span` / `build_event`) and as a model
//! term (`cpred`).
//!
//! Dynamic construction.  `&` / `|` are only defined with one of the crate's predicate types on the
//! left, and the result types are generic (`And<L, R>`), so an expression tree is built along its
//! *left spine*: the left-most leaf is built with its concrete type by the crate's factory
//! (`level(Level)`, `target(&str)`, `field(name, 42_i64)`, ...), the operators of the spine are
//! applied with `&` / `|` to that concretely typed value (depth-indexed generic functions
//! `sp3 -> sp2 -> sp1 -> sp0`, so at most 3 binary operators on one left spine), and every right
//! operand and every argument of `parent` / `ancestor` is a recursively built `DynSpan`, a box that
//! forwards `eval` AND `find_case` to the boxed predicate (`predicates::BoxPredicate` is not used:
//! its `find_case` does not forward).  The boxes are transparent for both methods, so the case
//! trees are those of the crate's own types.
use crate::{coq::*, out::Sink, rng::Rng, Opts};
use predicates::{
    reflection::{Case, PredicateReflection},
    Predicate,
};
use std::{
    fmt,
    ops::{BitAnd, BitOr},
    panic::{catch_unwind, AssertUnwindSafe},
};
use tracing_capture::{
    predicates::{ancestor, field, level, message, name, parent, target, value, And, Or, ScanExt},
    CaptureLayer, CapturedEvent, CapturedSpan, SharedStorage, Storage,
};
use tracing_core::{Level, LevelFilter};
use tracing_subscriber::{layer::SubscriberExt, Registry};
use tracing_tunnel::TracedValue;

// ---------------------------------------------------------------------------------------------
// Predicate expressions
// ---------------------------------------------------------------------------------------------

#[derive(Clone, Debug, PartialEq)]
enum SAtom {
    Eq(&'static str),
    StartsWith(&'static str),
    Contains(&'static str),
    Always,
    Never,
}
#[derive(Clone, Debug, PartialEq)]
enum Const {
    Bool(bool),
    I64(i64),
    I128(i128),
    U64(u64),
    U128(u128),
    F64(u64),
    Str(&'static str),
}
#[derive(Clone, Copy, Debug, PartialEq)]
enum Ty {
    Bool,
    I64,
    I128,
    U64,
    U128,
    F64,
    Str,
}
#[derive(Clone, Debug, PartialEq)]
enum VAtom {
    Eq(Const),
    Lt(Const),
    Ge(Const),
    Always,
    Never,
    Str(SAtom),
}
#[derive(Clone, Debug, PartialEq)]
enum FPred {
    Equiv(Const),
    Value(Ty, VAtom),
    Const(bool),
}
/// `predicates::ord::{eq, le, lt}` over `Level`
#[derive(Clone, Debug, PartialEq)]
enum LAtom {
    Eq(Level),
    Le(Level),
    Lt(Level),
}
#[derive(Clone, Debug, PartialEq)]
enum Pred {
    LevelEq(Level),
    LevelMax(Option<Level>),
    /// `level([atom])`: any `Predicate<Level>` in a one-element array
    LevelAtom(LAtom),
    Target(&'static str),
    TargetAtom(SAtom),
    Name(SAtom),
    Field(&'static str, FPred),
    Message(SAtom),
    Parent(Box<Pred>),
    Ancestor(Box<Pred>),
    And(Box<Pred>, Box<Pred>),
    Or(Box<Pred>, Box<Pred>),
}

impl Pred {
    fn and(self, o: Pred) -> Pred {
        Pred::And(Box::new(self), Box::new(o))
    }
    fn or(self, o: Pred) -> Pred {
        Pred::Or(Box::new(self), Box::new(o))
    }
    fn parent(self) -> Pred {
        Pred::Parent(Box::new(self))
    }
    fn ancestor(self) -> Pred {
        Pred::Ancestor(Box::new(self))
    }
    /// Rust typing: `name` needs a span, `message` an event; `parent` / `ancestor` take span predicates.
    fn typeable(&self, span: bool) -> bool {
        match self {
            Pred::Name(_) => span,
            Pred::Message(_) => !span,
            Pred::Parent(q) | Pred::Ancestor(q) => q.typeable(true),
            Pred::And(a, b) | Pred::Or(a, b) => a.typeable(span) && b.typeable(span),
            _ => true,
        }
    }
    fn left_spine(&self) -> usize {
        match self {
            Pred::And(a, b) | Pred::Or(a, b) => (1 + a.left_spine()).max(b.left_spine()),
            Pred::Parent(q) | Pred::Ancestor(q) => q.left_spine(),
            _ => 0,
        }
    }
    fn depth(&self) -> usize {
        match self {
            Pred::And(a, b) | Pred::Or(a, b) => 1 + a.depth().max(b.depth()),
            Pred::Parent(q) | Pred::Ancestor(q) => 1 + q.depth(),
            _ => 1,
        }
    }
    fn count_ops(&self, sink: &mut Sink) {
        let key = match self {
            Pred::LevelEq(_) => "pred:level_eq",
            Pred::LevelMax(_) => "pred:level_filter",
            Pred::LevelAtom(_) => "pred:level_atom",
            Pred::Target(_) => "pred:target_str",
            Pred::TargetAtom(_) => "pred:target_atom",
            Pred::Name(_) => "pred:name",
            Pred::Field(_, FPred::Equiv(_)) => "pred:field_equiv",
            Pred::Field(_, FPred::Value(..)) => "pred:field_value",
            Pred::Field(_, FPred::Const(_)) => "pred:field_const",
            Pred::Message(_) => "pred:message",
            Pred::Parent(_) => "pred:parent",
            Pred::Ancestor(_) => "pred:ancestor",
            Pred::And(..) => "pred:and",
            Pred::Or(..) => "pred:or",
        };
        sink.bump(key);
        match self {
            Pred::And(a, b) | Pred::Or(a, b) => {
                a.count_ops(sink);
                b.count_ops(sink);
            }
            Pred::Parent(q) | Pred::Ancestor(q) => q.count_ops(sink),
            _ => {}
        }
    }
}

// ---- model terms ------------------------------------------------------------------------------

fn clvl(l: &Level) -> &'static str {
    match *l {
        Level::ERROR => "LError",
        Level::WARN => "LWarn",
        Level::INFO => "LInfo",
        Level::DEBUG => "LDebug",
        _ => "LTrace",
    }
}
fn csatom(a: &SAtom) -> String {
    match a {
        SAtom::Eq(s) => format!("(AEq {})", cstr(s)),
        SAtom::StartsWith(s) => format!("(AStartsWith {})", cstr(s)),
        SAtom::Contains(s) => format!("(AContains {})", cstr(s)),
        SAtom::Always => "AAlways".into(),
        SAtom::Never => "ANever".into(),
    }
}
fn cconst(c: &Const) -> String {
    match c {
        Const::Bool(b) => format!("(CBool {})", cbool(*b)),
        Const::I64(z) => format!("(CI64 {})", cz(z)),
        Const::I128(z) => format!("(CI128 {})", cz(z)),
        Const::U64(z) => format!("(CU64 {})", cz(z)),
        Const::U128(z) => format!("(CU128 {})", cz(z)),
        Const::F64(b) => format!("(CF64 {b})"),
        Const::Str(s) => format!("(CStr {})", cstr(s)),
    }
}
fn cty(t: Ty) -> &'static str {
    match t {
        Ty::Bool => "TBool",
        Ty::I64 => "TI64",
        Ty::I128 => "TI128",
        Ty::U64 => "TU64",
        Ty::U128 => "TU128",
        Ty::F64 => "TF64",
        Ty::Str => "TStr",
    }
}
fn cvatom(a: &VAtom) -> String {
    match a {
        VAtom::Eq(c) => format!("(VAEq {})", cconst(c)),
        VAtom::Lt(c) => format!("(VALt {})", cconst(c)),
        VAtom::Ge(c) => format!("(VAGe {})", cconst(c)),
        VAtom::Always => "VAAlways".into(),
        VAtom::Never => "VANever".into(),
        VAtom::Str(s) => format!("(VAStr {})", csatom(s)),
    }
}
fn cfpred(f: &FPred) -> String {
    match f {
        FPred::Equiv(c) => format!("(FEquiv {})", cconst(c)),
        FPred::Value(t, a) => format!("(FValue {} {})", cty(*t), cvatom(a)),
        FPred::Const(b) => format!("(FConst {})", cbool(*b)),
    }
}
fn cpred(p: &Pred) -> String {
    match p {
        Pred::LevelEq(l) => format!("(PLevelEq {})", clvl(l)),
        Pred::LevelMax(o) => format!("(PLevelMax {})", copt(o.as_ref(), |l| clvl(l).to_owned())),
        Pred::LevelAtom(LAtom::Eq(l)) => format!("(PLevelAtom (LAEq {}))", clvl(l)),
        Pred::LevelAtom(LAtom::Le(l)) => format!("(PLevelAtom (LALe {}))", clvl(l)),
        Pred::LevelAtom(LAtom::Lt(l)) => format!("(PLevelAtom (LALt {}))", clvl(l)),
        Pred::Target(s) => format!("(PTarget {})", cstr(s)),
        Pred::TargetAtom(a) => format!("(PTargetAtom {})", csatom(a)),
        Pred::Name(a) => format!("(PName {})", csatom(a)),
        Pred::Field(n, f) => format!("(PField {} {})", cstr(n), cfpred(f)),
        Pred::Message(a) => format!("(PMessage {})", csatom(a)),
        Pred::Parent(q) => format!("(PParent {})", cpred(q)),
        Pred::Ancestor(q) => format!("(PAncestor {})", cpred(q)),
        Pred::And(a, b) => format!("(PAnd {} {})", cpred(a), cpred(b)),
        Pred::Or(a, b) => format!("(POr {} {})", cpred(a), cpred(b)),
    }
}

// ---------------------------------------------------------------------------------------------
// Building the crate's predicate objects
// ---------------------------------------------------------------------------------------------

/// Transparent box for predicates over a plain type (`str`, `i64`, `TracedValue`, ...).
struct Dyn<T: ?Sized>(Box<dyn Predicate<T>>);
impl<T: ?Sized> Dyn<T> {
    fn new<P: Predicate<T> + 'static>(p: P) -> Self {
        Dyn(Box::new(p))
    }
}
impl<T: ?Sized> fmt::Display for Dyn<T> {
    fn fmt(&self, f: &mut fmt::Formatter<'_>) -> fmt::Result {
        fmt::Display::fmt(&self.0, f)
    }
}
impl<T: ?Sized> PredicateReflection for Dyn<T> {}
impl<T: ?Sized> Predicate<T> for Dyn<T> {
    fn eval(&self, variable: &T) -> bool {
        self.0.eval(variable)
    }
    fn find_case<'a>(&'a self, expected: bool, variable: &T) -> Option<Case<'a>> {
        self.0.find_case(expected, variable)
    }
}

fn latom(a: &LAtom) -> Dyn<Level> {
    match a {
        LAtom::Eq(l) => Dyn::new(predicates::ord::eq(*l)),
        LAtom::Le(l) => Dyn::new(predicates::ord::le(*l)),
        LAtom::Lt(l) => Dyn::new(predicates::ord::lt(*l)),
    }
}

fn satom(a: &SAtom) -> Dyn<str> {
    match a {
        SAtom::Eq(s) => Dyn::new(predicates::ord::eq(*s)),
        SAtom::StartsWith(s) => Dyn::new(predicates::str::starts_with(*s)),
        SAtom::Contains(s) => Dyn::new(predicates::str::contains(*s)),
        SAtom::Always => Dyn::new(predicates::constant::always()),
        SAtom::Never => Dyn::new(predicates::constant::never()),
    }
}

fn vatom_of<T>(a: &VAtom, conv: impl Fn(&Const) -> T) -> Dyn<T>
where
    T: fmt::Debug + PartialOrd + 'static,
{
    match a {
        VAtom::Eq(c) => Dyn::new(predicates::ord::eq(conv(c))),
        VAtom::Lt(c) => Dyn::new(predicates::ord::lt(conv(c))),
        VAtom::Ge(c) => Dyn::new(predicates::ord::ge(conv(c))),
        VAtom::Always => Dyn::new(predicates::constant::always()),
        VAtom::Never => Dyn::new(predicates::constant::never()),
        VAtom::Str(_) => panic!("string atom at a non-string type"),
    }
}
fn vatom_str(a: &VAtom) -> Dyn<str> {
    match a {
        VAtom::Eq(Const::Str(s)) => Dyn::new(predicates::ord::eq(*s)),
        VAtom::Always => Dyn::new(predicates::constant::always()),
        VAtom::Never => Dyn::new(predicates::constant::never()),
        VAtom::Str(s) => satom(s),
        other => panic!("unsupported atom over str: {other:?}"),
    }
}
macro_rules! conv {
    ($variant:ident) => {
        |c: &Const| match c {
            Const::$variant(x) => *x,
            other => panic!("constant {other:?} at the wrong type"),
        }
    };
}
fn conv_f64(c: &Const) -> f64 {
    match c {
        Const::F64(b) => f64::from_bits(*b),
        other => panic!("constant {other:?} at the wrong type"),
    }
}
fn filter_of(o: &Option<Level>) -> LevelFilter {
    match o {
        None => LevelFilter::OFF,
        Some(l) => LevelFilter::from_level(*l),
    }
}

/// Generates, for one item type, the transparent box, the left-spine functions and the builder.
macro_rules! builder {
    ($Dyn:ident, $Item:ident, $Alias:ident, $build:ident, $sp0:ident, $sp1:ident, $sp2:ident, $sp3:ident,
     name: $with_name:tt, message: $with_message:tt) => {
        struct $Dyn(Box<dyn for<'a> Predicate<$Item<'a>>>);
        impl fmt::Display for $Dyn {
            fn fmt(&self, f: &mut fmt::Formatter<'_>) -> fmt::Result {
                fmt::Display::fmt(&self.0, f)
            }
        }
        impl PredicateReflection for $Dyn {}
        impl<'s> Predicate<$Item<'s>> for $Dyn {
            fn eval(&self, variable: &$Item<'s>) -> bool {
                self.0.eval(variable)
            }
            fn find_case<'a>(&'a self, expected: bool, variable: &$Item<'s>) -> Option<Case<'a>> {
                self.0.find_case(expected, variable)
            }
        }

        trait $Alias:
            Sized
            + 'static
            + PredicateReflection
            + for<'a> Predicate<$Item<'a>>
            + BitAnd<$Dyn, Output = And<Self, $Dyn>>
            + BitOr<$Dyn, Output = Or<Self, $Dyn>>
        {
        }
        impl<T> $Alias for T where
            T: Sized
                + 'static
                + PredicateReflection
                + for<'a> Predicate<$Item<'a>>
                + BitAnd<$Dyn, Output = And<T, $Dyn>>
                + BitOr<$Dyn, Output = Or<T, $Dyn>>
        {
        }

        fn $sp0<L: $Alias>(l: L, ops: Vec<(bool, $Dyn)>) -> $Dyn {
            assert!(ops.is_empty(), "left spine longer than 3 operators");
            $Dyn(Box::new(l))
        }
        builder!(@step $Dyn, $Alias, $sp1, $sp0);
        builder!(@step $Dyn, $Alias, $sp2, $sp1);
        builder!(@step $Dyn, $Alias, $sp3, $sp2);

        fn $build(p: &Pred) -> $Dyn {
            // operators of the left spine, root first; the deepest one is applied first
            let mut ops: Vec<(bool, $Dyn)> = vec![];
            let mut cur = p;
            loop {
                match cur {
                    Pred::And(a, b) => {
                        ops.push((true, $build(b)));
                        cur = a;
                    }
                    Pred::Or(a, b) => {
                        ops.push((false, $build(b)));
                        cur = a;
                    }
                    _ => break,
                }
            }
            match cur {
                Pred::LevelEq(l) => $sp3(level(*l), ops),
                Pred::LevelMax(o) => $sp3(level(filter_of(o)), ops),
                Pred::LevelAtom(a) => $sp3(level([latom(a)]), ops),
                Pred::Target(s) => $sp3(target(*s), ops),
                Pred::TargetAtom(a) => $sp3(target([satom(a)]), ops),
                Pred::Name(a) => builder!(@name $with_name, $sp3, a, ops),
                Pred::Message(a) => builder!(@message $with_message, $sp3, a, ops),
                Pred::Field(n, f) => { let n: &'static str = *n; match f {
                    FPred::Equiv(Const::Bool(x)) => $sp3(field(n, *x), ops),
                    FPred::Equiv(Const::I64(x)) => $sp3(field(n, *x), ops),
                    FPred::Equiv(Const::I128(x)) => $sp3(field(n, *x), ops),
                    FPred::Equiv(Const::U64(x)) => $sp3(field(n, *x), ops),
                    FPred::Equiv(Const::U128(x)) => $sp3(field(n, *x), ops),
                    FPred::Equiv(Const::F64(x)) => $sp3(field(n, f64::from_bits(*x)), ops),
                    FPred::Equiv(Const::Str(x)) => $sp3(field(n, *x), ops),
                    FPred::Value(Ty::Bool, a) => $sp3(field(n, value::<bool, _>(vatom_of(a, conv!(Bool)))), ops),
                    FPred::Value(Ty::I64, a) => $sp3(field(n, value::<i64, _>(vatom_of(a, conv!(I64)))), ops),
                    FPred::Value(Ty::I128, a) => $sp3(field(n, value::<i128, _>(vatom_of(a, conv!(I128)))), ops),
                    FPred::Value(Ty::U64, a) => $sp3(field(n, value::<u64, _>(vatom_of(a, conv!(U64)))), ops),
                    FPred::Value(Ty::U128, a) => $sp3(field(n, value::<u128, _>(vatom_of(a, conv!(U128)))), ops),
                    FPred::Value(Ty::F64, a) => $sp3(field(n, value::<f64, _>(vatom_of(a, conv_f64))), ops),
                    FPred::Value(Ty::Str, a) => $sp3(field(n, value::<str, _>(vatom_str(a))), ops),
                    FPred::Const(true) => $sp3(field(n, [predicates::constant::always()]), ops),
                    FPred::Const(false) => $sp3(field(n, [predicates::constant::never()]), ops),
                }},
                Pred::Parent(q) => $sp3(parent(build_span(q)), ops),
                Pred::Ancestor(q) => $sp3(ancestor(build_span(q)), ops),
                Pred::And(..) | Pred::Or(..) => unreachable!(),
            }
        }
    };
    (@step $Dyn:ident, $Alias:ident, $this:ident, $next:ident) => {
        fn $this<L: $Alias>(l: L, mut ops: Vec<(bool, $Dyn)>) -> $Dyn {
            match ops.pop() {
                None => $Dyn(Box::new(l)),
                Some((true, r)) => $next(l & r, ops),
                Some((false, r)) => $next(l | r, ops),
            }
        }
    };
    (@name yes, $sp3:ident, $a:ident, $ops:ident) => { $sp3(name(satom($a)), $ops) };
    (@name no, $sp3:ident, $a:ident, $ops:ident) => {{ let _ = ($a, $ops); panic!("name() is not a predicate for events") }};
    (@message yes, $sp3:ident, $a:ident, $ops:ident) => { $sp3(message(satom($a)), $ops) };
    (@message no, $sp3:ident, $a:ident, $ops:ident) => {{ let _ = ($a, $ops); panic!("message() is not a predicate for spans") }};
}

builder!(DynSpan, CapturedSpan, SpanL, build_span, ssp0, ssp1, ssp2, ssp3, name: yes, message: no);
builder!(DynEvent, CapturedEvent, EventL, build_event, esp0, esp1, esp2, esp3, name: no, message: yes);

// ---------------------------------------------------------------------------------------------
// Storages: real spans and events from static call sites
// ---------------------------------------------------------------------------------------------

#[derive(Clone, Debug)]
struct Vals {
    i: i64,
    b: bool,
    s: &'static str,
    u: u64,
    big: i128,
    ubig: u128,
    f: f64,
}
const I_POOL: &[i64] = &[42, 0, -1, 7, i64::MAX, i64::MIN];
const U_POOL: &[u64] = &[42, 0, 7, u64::MAX];
const BIG_POOL: &[i128] = &[42, -1, i64::MAX as i128 + 1, i128::MIN, i64::MIN as i128];
const UBIG_POOL: &[u128] = &[42, 0, u64::MAX as u128 + 1, u128::MAX, u64::MAX as u128];
const F_BITS: &[u64] = &[
    0,
    0x8000_0000_0000_0000,
    0x3FF8_0000_0000_0000, // 1.5
    0xBFF8_0000_0000_0000, // -1.5
    0x7FF8_0000_0000_0000, // NaN
    0x7FF0_0000_0000_0000, // inf
    0xFFF0_0000_0000_0000, // -inf
];
const S_POOL: &[&str] = &["done", "", "select 1", "started", "root", "app::db"];

fn gen_vals(r: &mut Rng) -> Vals {
    Vals {
        i: *r.pick(I_POOL),
        b: r.chance(50),
        s: *r.pick(S_POOL),
        u: *r.pick(U_POOL),
        big: *r.pick(BIG_POOL),
        ubig: *r.pick(UBIG_POOL),
        f: f64::from_bits(*r.pick(F_BITS)),
    }
}

#[derive(Debug)]
struct SimpleError(&'static str);
impl fmt::Display for SimpleError {
    fn fmt(&self, f: &mut fmt::Formatter<'_>) -> fmt::Result {
        f.write_str(self.0)
    }
}
impl std::error::Error for SimpleError {}

const SPAN_SITES: usize = 8;
const EVENT_SITES: usize = 9;

fn mk_span(site: usize, v: &Vals) -> tracing::Span {
    match site {
        0 => tracing::info_span!(target: "app", "root", id = v.i, flag = v.b),
        1 => tracing::debug_span!(target: "app::db", "query", sql = v.s, rows = v.u),
        2 => tracing::warn_span!(target: "appx", "outer", big = v.big, ubig = v.ubig),
        3 => tracing::error_span!(target: "other", "fail", ratio = v.f, obj = ?v.s),
        4 => tracing::trace_span!(target: "app::db::pool", "conn", message = v.s, id = v.u),
        5 => {
            let span = tracing::info_span!(target: "app::", "query", id = tracing::field::Empty, shown = %v.s);
            if v.b {
                span.record("id", v.i);
            }
            span
        }
        6 => tracing::debug_span!(target: "::app", "root2"),
        _ => tracing::warn_span!(target: "app:db", "", id = v.big, flag = v.f),
    }
}

fn emit(site: usize, v: &Vals) {
    match site {
        0 => tracing::info!(target: "app", id = v.i, "started"),
        1 => tracing::error!(target: "app::db", rows = v.u, flag = v.b, "query failed: {}", v.s),
        2 => tracing::warn!(target: "appx", message = v.s),
        3 => tracing::debug!(target: "other", message = v.i),
        4 => tracing::trace!(target: "app::db", flag = v.b, ratio = v.f),
        5 => {
            let err = SimpleError(v.s);
            tracing::error!(target: "app", message = &err as &(dyn std::error::Error + 'static), id = v.u)
        }
        6 => tracing::info!(target: "app::db::pool", big = v.big, ubig = v.ubig, obj = ?v.s, "done"),
        7 => tracing::info!(target: "other::", id = v.ubig, sql = v.s),
        _ => tracing::warn!(target: "", ratio = v.f, "{}", v.s),
    }
}

#[derive(Clone, Debug)]
enum Op {
    Enter(usize, Vals),
    Exit,
    Event(usize, Vals),
}

fn run_program(ops: &[Op]) -> SharedStorage {
    let storage = SharedStorage::default();
    let subscriber = Registry::default().with(CaptureLayer::new(&storage));
    tracing::subscriber::with_default(subscriber, || {
        let mut stack: Vec<tracing::span::EnteredSpan> = vec![];
        for op in ops {
            match op {
                Op::Enter(site, v) => stack.push(mk_span(*site, v).entered()),
                Op::Exit => {
                    stack.pop();
                }
                Op::Event(site, v) => emit(*site, v),
            }
        }
        while stack.pop().is_some() {}
    });
    storage
}

fn vals0() -> Vals {
    Vals { i: 42, b: true, s: "done", u: 42, big: 42, ubig: 42, f: 1.5 }
}

/// hand-written scenario: three levels deep, every call site, values of every kind
fn corpus_program() -> Vec<Op> {
    let v = vals0();
    let w = Vals { i: -1, b: false, s: "select 1", u: u64::MAX, big: i64::MAX as i128 + 1, ubig: u64::MAX as u128 + 1, f: f64::NAN };
    let z = Vals { i: 0, b: true, s: "", u: 0, big: -1, ubig: 0, f: -0.0 };
    vec![
        Op::Event(0, v.clone()),
        Op::Enter(0, v.clone()),
        Op::Event(0, w.clone()),
        Op::Enter(1, w.clone()),
        Op::Event(1, v.clone()),
        Op::Enter(4, v.clone()),
        Op::Event(6, w.clone()),
        Op::Event(4, z.clone()),
        Op::Enter(3, z.clone()),
        Op::Event(5, v.clone()),
        Op::Exit,
        Op::Exit,
        Op::Event(2, v.clone()),
        Op::Exit,
        Op::Enter(2, w.clone()),
        Op::Event(3, v.clone()),
        Op::Enter(5, v.clone()),
        Op::Event(7, z.clone()),
        Op::Exit,
        Op::Enter(5, z.clone()),
        Op::Exit,
        Op::Exit,
        Op::Event(8, w.clone()),
        Op::Exit,
        Op::Enter(6, v.clone()),
        Op::Enter(7, w.clone()),
        Op::Event(2, z.clone()),
        Op::Exit,
        Op::Exit,
        Op::Enter(3, v.clone()),
        Op::Event(5, w.clone()),
        Op::Exit,
    ]
}

fn gen_program(r: &mut Rng, len: usize) -> Vec<Op> {
    let mut ops = vec![];
    let mut depth = 0usize;
    for _ in 0..len {
        let k = r.below(10);
        if k < 4 && depth < 4 {
            ops.push(Op::Enter(r.below(SPAN_SITES as u64) as usize, gen_vals(r)));
            depth += 1;
        } else if k < 6 && depth > 0 {
            ops.push(Op::Exit);
            depth -= 1;
        } else {
            ops.push(Op::Event(r.below(EVENT_SITES as u64) as usize, gen_vals(r)));
        }
    }
    ops
}

/// Snapshot of a storage: model terms and the description used by the reports.
struct Snap {
    shared: SharedStorage,
    n_spans: usize,
    n_events: usize,
    max_depth: usize,
    defs: String,
}

fn cvalues<'a>(vs: impl Iterator<Item = (&'a str, &'a TracedValue)>) -> String {
    clist(vs, |(k, v)| ckv(k, v))
}
fn csdata(s: &CapturedSpan<'_>) -> String {
    let m = s.metadata();
    format!("(mk_sdata {} {} {} {})", clvl(m.level()), cstr(m.target()), cstr(m.name()), cvalues(s.values()))
}
fn span_index(storage: &Storage, s: &CapturedSpan<'_>) -> usize {
    storage.all_spans().position(|t| t == *s).expect("span of this storage")
}

fn snapshot(k: usize, shared: SharedStorage) -> Snap {
    let mut defs = String::new();
    let (n_spans, n_events, mut max_depth);
    {
        let storage = shared.lock();
        let storage: &Storage = &storage;
        n_spans = storage.all_spans().len();
        n_events = storage.all_events().len();
        max_depth = 0;
        for (i, s) in storage.all_spans().enumerate() {
            defs.push_str(&format!("Definition s{k}_d{i} := {}.\n", csdata(&s)));
        }
        let anc = |it: &mut dyn Iterator<Item = CapturedSpan<'_>>| -> (String, usize) {
            let idx: Vec<usize> = it.map(|a| span_index(storage, &a)).collect();
            (clist(idx.iter(), |i| format!("s{k}_d{i}")), idx.len())
        };
        let mut spans = vec![];
        for (i, s) in storage.all_spans().enumerate() {
            // Captured::parent (what the predicates use) must be the head of ancestors()
            assert!(s.parent() == s.ancestors().next());
            let (a, d) = anc(&mut s.ancestors());
            max_depth = max_depth.max(d + 1);
            spans.push(format!("mk_item true s{k}_d{i} {a}"));
        }
        defs.push_str(&format!("Definition s{k}_spans : list item := [{}].\n", spans.join("; ")));
        let mut events = vec![];
        for e in storage.all_events() {
            assert!(e.parent() == e.ancestors().next());
            let m = e.metadata();
            let (a, d) = anc(&mut e.ancestors());
            max_depth = max_depth.max(d);
            events.push(format!(
                "mk_item false (mk_sdata {} {} {} {}) {a}",
                clvl(m.level()),
                cstr(m.target()),
                cstr(m.name()),
                cvalues(e.values())
            ));
        }
        defs.push_str(&format!("Definition s{k}_events : list item := [{}].\n", events.join(";\n  ")));
    }
    Snap { shared, n_spans, n_events, max_depth, defs }
}

// ---------------------------------------------------------------------------------------------
// Observations
// ---------------------------------------------------------------------------------------------

fn ctree(c: &Case<'_>) -> String {
    format!("(CNode {})", clist(c.children(), ctree))
}

/// (model term of the observations, number of items on which the predicate is true)
fn observe_items<I, P: Predicate<I> + ?Sized>(pred: &P, items: &[I]) -> (String, usize) {
    let trues = std::cell::Cell::new(0usize);
    let obs = clist(items.iter(), |x| {
        let e = pred.eval(x);
        trues.set(trues.get() + usize::from(e));
        format!(
            "mk_iobs {} {} {}",
            cbool(e),
            copt(pred.find_case(true, x).as_ref(), ctree),
            copt(pred.find_case(false, x).as_ref(), ctree)
        )
    });
    (obs, trues.get())
}

fn panic_tag(payload: Box<dyn std::any::Any + Send>) -> &'static str {
    let msg = payload
        .downcast_ref::<String>()
        .cloned()
        .or_else(|| payload.downcast_ref::<&str>().map(|s| (*s).to_owned()))
        .unwrap_or_default();
    if msg.starts_with("no items have matched predicate") {
        "SPanic PNoMatch"
    } else if msg.starts_with("multiple items match predicate") {
        "SPanic PMultiple"
    } else if msg.starts_with("item does not match predicate") {
        "SPanic PNotAll"
    } else if msg.starts_with("item matched predicate") {
        "SPanic PMatched"
    } else {
        "SOk 999999" // an unexpected panic: not an outcome of the model
    }
}

/// Runs the helpers of one scanner (a `Copy` value) under `catch_unwind`.
macro_rules! scan_obs {
    ($scanner:expr, $pred:expr, $list:expr, last: $with_last:tt) => {{
        let scanner = $scanner;
        let list = &$list;
        let pos = |r: Result<_, Box<dyn std::any::Any + Send>>| -> String {
            match r {
                Ok(item) => match list.iter().position(|y| *y == item) {
                    Some(i) => format!("(SOk {i})"),
                    None => "(SOk 888888)".into(),
                },
                Err(p) => format!("({})", panic_tag(p)),
            }
        };
        let unit = |r: Result<(), Box<dyn std::any::Any + Send>>| -> String {
            match r {
                Ok(()) => "(SOk tt)".into(),
                Err(p) => format!("({})", panic_tag(p)),
            }
        };
        let single = pos(catch_unwind(AssertUnwindSafe(|| scanner.single($pred))));
        let first = pos(catch_unwind(AssertUnwindSafe(|| scanner.first($pred))));
        let last = scan_obs!(@last $with_last, scanner, $pred, pos);
        let all = unit(catch_unwind(AssertUnwindSafe(|| scanner.all($pred))));
        let none = unit(catch_unwind(AssertUnwindSafe(|| scanner.none($pred))));
        format!("(mk_sobs {single} {first} {last} {all} {none})")
    }};
    (@last yes, $scanner:ident, $pred:expr, $pos:ident) => {
        format!("(Some {})", $pos(catch_unwind(AssertUnwindSafe(|| $scanner.last($pred)))))
    };
    (@last no, $scanner:ident, $pred:expr, $pos:ident) => {
        String::from("None")
    };
}

// ---------------------------------------------------------------------------------------------
// Leaves and enumeration
// ---------------------------------------------------------------------------------------------

const LEVELS: [Level; 5] = [Level::ERROR, Level::WARN, Level::INFO, Level::DEBUG, Level::TRACE];
const TARGET_PATHS: &[&str] = &["app", "app::db", "", "app::", "ap", "other", "appx", "::app", "app::db::pool", "app:"];
const FIELD_NAMES: &[&str] = &["id", "flag", "rows", "sql", "big", "ubig", "ratio", "obj", "message", "shown", "absent"];

fn field_preds() -> Vec<FPred> {
    use Const as C;
    let big = i64::MAX as i128 + 1;
    let ubig = u64::MAX as u128 + 1;
    let nan = 0x7FF8_0000_0000_0000u64;
    let one_half = 0x3FF8_0000_0000_0000u64;
    let neg_zero = 0x8000_0000_0000_0000u64;
    vec![
        FPred::Equiv(C::I64(42)),
        FPred::Equiv(C::U64(42)),
        FPred::Equiv(C::I128(42)),
        FPred::Equiv(C::U128(42)),
        FPred::Equiv(C::I64(-1)),
        FPred::Equiv(C::I64(i64::MAX)),
        FPred::Equiv(C::U64(u64::MAX)),
        FPred::Equiv(C::I128(big)),
        FPred::Equiv(C::U128(ubig)),
        FPred::Equiv(C::I128(i128::MIN)),
        FPred::Equiv(C::U128(u128::MAX)),
        FPred::Equiv(C::U64(0)),
        FPred::Equiv(C::F64(0)),
        FPred::Equiv(C::F64(neg_zero)),
        FPred::Equiv(C::F64(nan)),
        FPred::Equiv(C::F64(one_half)),
        FPred::Equiv(C::Bool(true)),
        FPred::Equiv(C::Bool(false)),
        FPred::Equiv(C::Str("done")),
        FPred::Equiv(C::Str("")),
        FPred::Equiv(C::Str("42")),
        FPred::Value(Ty::I64, VAtom::Eq(C::I64(42))),
        FPred::Value(Ty::I64, VAtom::Lt(C::I64(0))),
        FPred::Value(Ty::I64, VAtom::Ge(C::I64(42))),
        FPred::Value(Ty::I64, VAtom::Always),
        FPred::Value(Ty::I64, VAtom::Never),
        FPred::Value(Ty::U64, VAtom::Ge(C::U64(42))),
        FPred::Value(Ty::U64, VAtom::Always),
        FPred::Value(Ty::U64, VAtom::Eq(C::U64(u64::MAX))),
        FPred::Value(Ty::I128, VAtom::Lt(C::I128(big))),
        FPred::Value(Ty::I128, VAtom::Always),
        FPred::Value(Ty::I128, VAtom::Eq(C::I128(big))),
        FPred::Value(Ty::U128, VAtom::Ge(C::U128(ubig))),
        FPred::Value(Ty::U128, VAtom::Always),
        FPred::Value(Ty::F64, VAtom::Lt(C::F64(one_half))),
        FPred::Value(Ty::F64, VAtom::Ge(C::F64(0))),
        FPred::Value(Ty::F64, VAtom::Eq(C::F64(neg_zero))),
        FPred::Value(Ty::F64, VAtom::Ge(C::F64(nan))),
        FPred::Value(Ty::F64, VAtom::Always),
        FPred::Value(Ty::Bool, VAtom::Eq(C::Bool(true))),
        FPred::Value(Ty::Bool, VAtom::Lt(C::Bool(true))),
        FPred::Value(Ty::Bool, VAtom::Ge(C::Bool(true))),
        FPred::Value(Ty::Bool, VAtom::Never),
        FPred::Value(Ty::Str, VAtom::Str(SAtom::Contains("e"))),
        FPred::Value(Ty::Str, VAtom::Eq(C::Str("done"))),
        FPred::Value(Ty::Str, VAtom::Str(SAtom::StartsWith("s"))),
        FPred::Value(Ty::Str, VAtom::Always),
        FPred::Value(Ty::Str, VAtom::Never),
        FPred::Const(true),
        FPred::Const(false),
    ]
}

fn str_atoms() -> Vec<SAtom> {
    vec![
        SAtom::Eq("app"),
        SAtom::Eq("root"),
        SAtom::Eq("query"),
        SAtom::Eq("started"),
        SAtom::Eq("done"),
        SAtom::Eq(""),
        SAtom::StartsWith("app"),
        SAtom::StartsWith("q"),
        SAtom::StartsWith("query failed"),
        SAtom::StartsWith(""),
        SAtom::Contains("::"),
        SAtom::Contains("o"),
        SAtom::Contains("select"),
        SAtom::Contains(""),
        SAtom::Always,
        SAtom::Never,
    ]
}

/// every leaf over the atom set
fn all_leaves() -> Vec<Pred> {
    let mut out = vec![];
    for l in LEVELS {
        out.push(Pred::LevelEq(l));
    }
    out.push(Pred::LevelMax(None));
    for l in LEVELS {
        out.push(Pred::LevelMax(Some(l)));
        out.push(Pred::LevelAtom(LAtom::Eq(l)));
        out.push(Pred::LevelAtom(LAtom::Le(l)));
        out.push(Pred::LevelAtom(LAtom::Lt(l)));
    }
    for t in TARGET_PATHS {
        out.push(Pred::Target(t));
    }
    for a in str_atoms() {
        out.push(Pred::TargetAtom(a.clone()));
        out.push(Pred::Name(a.clone()));
        out.push(Pred::Message(a));
    }
    for f in field_preds() {
        for n in FIELD_NAMES {
            out.push(Pred::Field(n, f.clone()));
        }
    }
    out
}

/// the small leaf set of the exhaustive enumeration
fn core_leaves() -> Vec<Pred> {
    vec![
        Pred::LevelEq(Level::INFO),
        Pred::LevelMax(Some(Level::INFO)),
        Pred::Target("app"),
        Pred::Name(SAtom::Eq("query")),
        Pred::Message(SAtom::Contains("o")),
        Pred::Field("id", FPred::Equiv(Const::I64(42))),
        Pred::Field("flag", FPred::Const(true)),
        Pred::Field("rows", FPred::Value(Ty::U64, VAtom::Ge(Const::U64(42)))),
    ]
}

/// all expressions of exactly depth d+1 from those of depth <= d
fn next_depth(lower: &[Pred], exact: &[Pred]) -> Vec<Pred> {
    let mut out = vec![];
    for q in exact {
        if q.typeable(true) {
            out.push(q.clone().parent());
            out.push(q.clone().ancestor());
        }
    }
    let all: Vec<&Pred> = lower.iter().chain(exact.iter()).collect();
    for a in &all {
        for b in &all {
            // at least one side of exactly the previous depth
            if exact.contains(a) || exact.contains(b) {
                out.push((*a).clone().and((*b).clone()));
                out.push((*a).clone().or((*b).clone()));
            }
        }
    }
    out
}

fn gen_pred(r: &mut Rng, leaves: &[Pred], depth: usize, span: bool) -> Pred {
    if depth <= 1 || r.chance(15) {
        loop {
            let p = r.pick(leaves).clone();
            if p.typeable(span) {
                return p;
            }
        }
    }
    match r.below(6) {
        0 => gen_pred(r, leaves, depth - 1, true).parent(),
        1 => gen_pred(r, leaves, depth - 1, true).ancestor(),
        2 | 3 => gen_pred(r, leaves, depth - 1, span).and(gen_pred(r, leaves, depth - 1, span)),
        _ => gen_pred(r, leaves, depth - 1, span).or(gen_pred(r, leaves, depth - 1, span)),
    }
}

// ---------------------------------------------------------------------------------------------
// Cases
// ---------------------------------------------------------------------------------------------

struct Ctx<'a> {
    sink: Sink,
    snaps: &'a [Snap],
    idx: u64,
}

impl Ctx<'_> {
    /// All cases of one predicate on one storage.  `rot` selects the span whose scanners are used.
    /// The number of cases depends only on the predicate's typing and the storage, so the index
    /// numbering is stable.
    fn pred_cases(&mut self, kind: &str, k: usize, p: &Pred, rot: usize) {
        assert!(p.left_spine() <= 3, "left spine too long for the builder: {p:?}");
        let snap = &self.snaps[k];
        let span_ok = p.typeable(true);
        let event_ok = p.typeable(false);
        let n_cases = u64::from(span_ok) * 4 + u64::from(event_ok) * 4;
        let base = self.idx;
        self.idx += n_cases;
        if !(base..base + n_cases).any(|i| self.sink.wants(i)) {
            return;
        }
        p.count_ops(&mut self.sink);
        self.sink.bump(&format!("depth:{}", p.depth()));
        let term = cpred(p);
        let guard = snap.shared.lock();
        let storage: &Storage = &guard;
        let spans: Vec<CapturedSpan<'_>> = storage.all_spans().collect();
        let events: Vec<CapturedEvent<'_>> = storage.all_events().collect();
        let holder = if spans.is_empty() { None } else { Some(spans[rot % spans.len()]) };
        let mut i = base;
        let desc = |what: &str| {
            let what = what.to_owned();
            let term = term.clone();
            move || serde_json::json!({ "storage": k, "predicate": term, "observed": what })
        };

        if span_ok {
            let pred = build_span(p);
            // items
            let (obs, trues) = observe_items(&pred, &spans);
            self.sink.bump_by("items:span_true", trues as u64);
            self.sink.bump_by("items:span_false", (spans.len() - trues) as u64);
            let judge = format!("judge_items true s{k}_spans {term} {obs}");
            let key = format!("{k} span {term}");
            self.sink.case(i, kind, &judge, &key, trues > 0 && trues < spans.len(), desc("eval/find_case on every span"));
            i += 1;
            // storage.scan_spans()
            let sel = clist(0..spans.len(), cn);
            let so = scan_obs!(storage.scan_spans(), &pred, spans, last: yes);
            self.scan_case(i, kind, k, true, &sel, &term, &so, "storage.scan_spans()");
            i += 1;
            // span.scan_spans() / span.deep_scan_spans()
            if let Some(h) = holder {
                let children: Vec<CapturedSpan<'_>> = h.children().collect();
                let sel = clist(children.iter(), |c| cn(span_index(storage, c)));
                let so = scan_obs!(h.scan_spans(), &pred, children, last: yes);
                self.scan_case(i, kind, k, true, &sel, &term, &so, "span.scan_spans()");
                i += 1;
                let desc_spans: Vec<CapturedSpan<'_>> = h.descendants().collect();
                let sel = clist(desc_spans.iter(), |c| cn(span_index(storage, c)));
                let so = scan_obs!(h.deep_scan_spans(), &pred, desc_spans, last: no);
                self.scan_case(i, kind, k, true, &sel, &term, &so, "span.deep_scan_spans()");
                i += 1;
            } else {
                i += 2;
            }
        }
        if event_ok {
            let pred = build_event(p);
            let (obs, trues) = observe_items(&pred, &events);
            self.sink.bump_by("items:event_true", trues as u64);
            self.sink.bump_by("items:event_false", (events.len() - trues) as u64);
            let judge = format!("judge_items false s{k}_events {term} {obs}");
            let key = format!("{k} event {term}");
            self.sink.case(i, kind, &judge, &key, trues > 0 && trues < events.len(), desc("eval/find_case on every event"));
            i += 1;
            let event_index = |e: &CapturedEvent<'_>| events.iter().position(|y| y == e).expect("event of this storage");
            let sel = clist(0..events.len(), cn);
            let so = scan_obs!(storage.scan_events(), &pred, events, last: yes);
            self.scan_case(i, kind, k, false, &sel, &term, &so, "storage.scan_events()");
            i += 1;
            if let Some(h) = holder {
                let own: Vec<CapturedEvent<'_>> = h.events().collect();
                let sel = clist(own.iter(), |e| cn(event_index(e)));
                let so = scan_obs!(h.scan_events(), &pred, own, last: yes);
                self.scan_case(i, kind, k, false, &sel, &term, &so, "span.scan_events()");
                i += 1;
                let deep: Vec<CapturedEvent<'_>> = h.events().chain(h.descendant_events()).collect();
                let sel = clist(deep.iter(), |e| cn(event_index(e)));
                let so = scan_obs!(h.deep_scan_events(), &pred, deep, last: no);
                self.scan_case(i, kind, k, false, &sel, &term, &so, "span.deep_scan_events()");
                i += 1;
            } else {
                i += 2;
            }
        }
        debug_assert_eq!(i, base + n_cases);
    }

    #[allow(clippy::too_many_arguments)]
    fn scan_case(&mut self, i: u64, kind: &str, k: usize, span: bool, sel: &str, term: &str, so: &str, what: &str) {
        let items = if span { format!("s{k}_spans") } else { format!("s{k}_events") };
        let judge = format!("judge_scan {} {items} {sel} {term} {so}", cbool(span));
        let key = format!("{k} {what} {sel} {term}");
        self.sink.bump(&format!("scan:{what}"));
        for tag in ["PNoMatch", "PMultiple", "PNotAll", "PMatched"] {
            self.sink.bump_by(&format!("scan_panic:{tag}"), so.matches(tag).count() as u64);
        }
        self.sink.bump_by("scan_ok", so.matches("SOk").count() as u64);
        let nontrivial = so.contains("SOk") && so.contains("SPanic");
        let (what, term, so) = (what.to_owned(), term.to_owned(), so.to_owned());
        self.sink.case(i, &format!("{kind}-scan"), &judge, &key, nontrivial, move || {
            serde_json::json!({ "storage": k, "scanner": what, "predicate": term, "observed": so })
        });
    }
}

fn corpus_preds() -> Vec<Pred> {
    use Pred as P;
    let i42 = FPred::Equiv(Const::I64(42));
    vec![
        // the documentation's example: target & name & level & field
        P::Target("app").and(P::Name(SAtom::Eq("root"))).and(P::LevelEq(Level::INFO)).and(P::Field("id", i42.clone())),
        // strict kinds: an Int is never equal to a u64 constant and vice versa
        P::Field("id", FPred::Equiv(Const::U64(42))),
        P::Field("rows", FPred::Equiv(Const::I64(42))),
        P::Field("rows", FPred::Equiv(Const::U64(42))),
        P::Field("big", FPred::Equiv(Const::I64(42))),
        P::Field("ubig", FPred::Equiv(Const::U128(42))),
        // level thresholds incl. OFF
        P::LevelMax(None),
        P::LevelMax(Some(Level::ERROR)),
        P::LevelMax(Some(Level::TRACE)),
        // target boundary
        P::Target("app"),
        P::Target("ap"),
        P::Target("app::"),
        P::Target(""),
        // message of every representation
        P::Message(SAtom::Eq("started")),
        P::Message(SAtom::Eq("done")),
        P::Message(SAtom::StartsWith("query failed")),
        P::Message(SAtom::Never),
        P::Message(SAtom::Always),
        // parent / ancestor, positive and negative, roots included
        P::Name(SAtom::Eq("root")).parent(),
        P::Name(SAtom::Eq("root")).ancestor(),
        P::Name(SAtom::Never).ancestor(),
        P::Name(SAtom::Always).ancestor(),
        P::Name(SAtom::Always).parent(),
        P::LevelEq(Level::INFO).ancestor().ancestor(),
        P::Target("app").parent().parent(),
        P::Field("absent", FPred::Const(true)).ancestor(),
        P::Field("absent", FPred::Const(false)).or(P::Field("absent", FPred::Const(true))),
        // and / or, both polarities, nested on both sides
        P::LevelEq(Level::INFO).and(P::Target("app").or(P::Target("other"))),
        P::LevelEq(Level::INFO).or(P::Target("app")).and(P::LevelMax(Some(Level::WARN)).or(P::Field("flag", FPred::Equiv(Const::Bool(true))))),
        P::LevelEq(Level::ERROR).or(P::LevelEq(Level::WARN)).or(P::LevelEq(Level::INFO)).or(P::LevelEq(Level::DEBUG)),
        P::Message(SAtom::Contains("o")).and(P::Name(SAtom::Eq("query")).and(P::LevelMax(Some(Level::DEBUG))).ancestor()),
        P::Field("ratio", FPred::Value(Ty::F64, VAtom::Ge(Const::F64(0)))).or(P::Field("ratio", FPred::Equiv(Const::F64(0x7FF8_0000_0000_0000)))),
    ]
}

pub fn run(o: &Opts) {
    // 0. storages: the hand-written scenario, an empty one, a spans-only one, random programs
    let n_random = if o.thorough { 12 } else { 5 };
    let mut programs: Vec<Vec<Op>> = vec![corpus_program(), vec![], vec![Op::Enter(0, vals0()), Op::Enter(1, vals0()), Op::Exit, Op::Enter(6, vals0())]];
    for j in 0..n_random {
        let mut r = Rng::for_case(o.seed, "C18-storage", j);
        let len = r.range(20, 48);
        programs.push(gen_program(&mut r, len));
    }
    let snaps: Vec<Snap> = programs.iter().enumerate().map(|(k, ops)| snapshot(k, run_program(ops))).collect();
    let mut header = String::from("Judge.C18.\nOpen Scope string_scope.\n");
    for s in &snaps {
        header.push_str(&s.defs);
    }
    header.push_str(&format!("Definition c18_storages := {}", snaps.len()));
    let sink = Sink::new(&o.out, o.shards, &header, o.only.clone());
    let mut cx = Ctx { sink, snaps: &snaps, idx: 0 };
    let n_st = snaps.len();

    // 1. corpus: hand-written predicates on every storage
    for (j, p) in corpus_preds().iter().enumerate() {
        for k in 0..n_st {
            cx.pred_cases("corpus", k, p, j + k);
        }
    }

    // 2. every leaf of the atom set (depth 1)
    let leaves = all_leaves();
    for (j, p) in leaves.iter().enumerate() {
        let k = if j % 7 == 0 { 0 } else { 3 + j % (n_st - 3) };
        cx.pred_cases("leaf", k, p, j);
    }

    // 3. exhaustive over the core leaves: depth 2 (quick), depth 3 (thorough)
    let d1 = core_leaves();
    let d2 = next_depth(&[], &d1);
    for (j, p) in d2.iter().enumerate() {
        let k = if j % 3 == 0 { 0 } else { 3 + j % (n_st - 3) };
        cx.pred_cases("depth2-exhaustive", k, p, j);
    }
    if o.thorough {
        let d3 = next_depth(&d1, &d2);
        for (j, p) in d3.iter().enumerate() {
            let k = if j % 5 == 0 { 0 } else { 3 + j % (n_st - 3) };
            cx.pred_cases("depth3-exhaustive", k, p, j);
        }
    }

    // 4. random expressions of depth <= 3 (and 4) over all leaves
    let n_rand = if o.thorough { 20_000 } else { 260 } * o.scale;
    for j in 0..n_rand {
        let mut r = Rng::for_case(o.seed, "C18-pred", j);
        let span = r.chance(50);
        let depth = if r.chance(75) { 3 } else { 4 };
        // the core leaves are over-represented so that conjunctions are satisfiable
        let p = if r.chance(50) { gen_pred(&mut r, &d1, depth, span) } else { gen_pred(&mut r, &leaves, depth, span) };
        let k = if r.chance(30) { 0 } else { 3 + r.below((n_st - 3) as u64) as usize };
        let rot = r.below(64) as usize;
        cx.pred_cases("random", k, &p, rot);
    }

    let extra = serde_json::json!({
        "storages": snaps.iter().map(|s| serde_json::json!({ "spans": s.n_spans, "events": s.n_events, "max_depth": s.max_depth })).collect::<Vec<_>>(),
        "leaves": leaves.len(),
        "core_leaves": d1.len(),
        "depth2_expressions": d2.len(),
        "exhaustive_depth": if o.thorough { 3 } else { 2 },
        "random_expressions": n_rand,
    });
    cx.sink.finish(
        "items cases: one predicate expression evaluated (eval, find_case(true), find_case(false)) on every span resp. every event of one storage; \
         non-trivial = the predicate is true on some and false on other items. scan cases: single/first/last/all/none of one scanner \
         (storage.scan_spans/scan_events, span.scan_spans/scan_events/deep_scan_spans/deep_scan_events) under catch_unwind; non-trivial = some helper returns and some panics. \
         distinct = distinct (storage, predicate, scanner) text",
        extra,
    );
}
