//! C03: after a host restart live spans are restored faithfully; nothing is rejected.
use tracing_capture::{CaptureLayer, SharedStorage};
use tracing_subscriber::{layer::SubscriberExt, Registry};
use tracing_tunnel::{LocalSpans, PersistedMetadata, PersistedSpans, TracedValue, TracingEvent, TracingEventReceiver};

use crate::{coq::*, out::Sink, recv::*, recv2::*, rng::Rng, Opts};

/// Marks every new span with `f0 = 1000 + id` so that captured spans can be identified.
fn mark_spans(evs: &mut [TracingEvent]) {
    for ev in evs {
        if let TracingEvent::NewSpan { id, values, .. } = ev {
            if values.len() < 32 || values.get("f0").is_some() {
                values.insert("f0".to_owned(), TracedValue::Int(1000 + i128::from(*id)));
            }
        }
        // later records must not overwrite the marker
        if let TracingEvent::ValuesRecorded { values, .. } = ev {
            let kept: Vec<(String, TracedValue)> =
                values.iter().filter(|(k, _)| *k != "f0").map(|(k, v)| (k.to_owned(), v.clone())).collect();
            *values = kept.into_iter().collect();
        }
    }
}

/// Runs the history against a real `Registry + CaptureLayer` host and checks that every event with
/// a contextual parent is attached to the innermost guest span entered in the current lifetime
/// (persist force-exits everything), when that span can be identified.
fn attached_ok(steps: &[Step]) -> bool {
    // a panic of the implementation or of the host under it is a failed check, not a crash of the run
    std::panic::catch_unwind(|| attached_ok_inner(steps)).unwrap_or(false)
}

struct Forgotten(Option<TracingEventReceiver>);
impl Drop for Forgotten {
    fn drop(&mut self) {
        std::mem::forget(self.0.take());
    }
}

fn attached_ok_inner(steps: &[Step]) -> bool {
    let storage = SharedStorage::default();
    let subscriber = Registry::default().with(CaptureLayer::new(&storage));
    let mut expected: Vec<Option<Option<u64>>> = vec![]; // per accepted event: None = not checked
    let mut undecodable = false;
    tracing::subscriber::with_default(subscriber, || {
        let mut md = PersistedMetadata::default();
        // never dropped, not even by a panic unwinding through here: `Drop` calls into the host again
        let mut receiver = Forgotten(Some(TracingEventReceiver::default()));
        let mut restores = 0u32;
        // mirrors tracing-subscriber's SpanStack: re-entered ids are flagged as duplicates and skipped by `current`
        let mut epoch_stack: Vec<(u64, bool)> = vec![];
        for step in steps {
            match step {
                Step::Recv(ev) => {
                    let ok = receiver.0.as_mut().unwrap().try_receive(ev.clone()).is_ok();
                    if !ok {
                        continue;
                    }
                    match ev {
                        TracingEvent::SpanEntered { id } => {
                            let duplicate = epoch_stack.iter().any(|(x, _)| x == id);
                            epoch_stack.push((*id, duplicate));
                        }
                        TracingEvent::SpanExited { id } => {
                            if let Some(p) = epoch_stack.iter().rposition(|(x, _)| x == id) {
                                epoch_stack.remove(p);
                            }
                        }
                        TracingEvent::NewEvent { parent, .. } => {
                            expected.push(if parent.is_none() { Some(epoch_stack.iter().rev().find(|(_, dup)| !dup).map(|(x, _)| *x)) } else { None });
                        }
                        _ => {}
                    }
                }
                Step::Persist { keep } => {
                    md.extend(receiver.0.as_ref().unwrap().persist_metadata());
                    let (spans, local) = receiver.0.take().unwrap().persist();
                    let Ok(spans) = json_roundtrip::<PersistedSpans>(&spans) else {
                        undecodable = true;
                        return;
                    };
                    let local = if *keep { local } else { LocalSpans::default() };
                    restores += 1;
                    receiver.0 = Some(restore_receiver(restores, md.clone(), spans, local));
                    epoch_stack.clear();
                }
                Step::Drop => {}
            }
        }
    });
    if undecodable {
        return false;
    }
    let storage = storage.lock();
    if storage.all_events().len() != expected.len() {
        return false;
    }
    for (event, exp) in storage.all_events().zip(&expected) {
        let Some(exp) = exp else { continue };
        match (event.parent(), exp) {
            (None, None) => {}
            (Some(parent), Some(id)) => match parent.value("f0") {
                Some(v) => {
                    if v.as_int() != Some(1000 + i128::from(*id)) {
                        return false;
                    }
                }
                None => {} // call site without fields: cannot be identified
            },
            (Some(_), None) | (None, Some(_)) => return false,
        }
    }
    true
}

fn case(sink: &mut Sink, idx: u64, kind: &str, steps: &[Step], nonce: &str) {
    if !sink.wants(idx) {
        return;
    }
    let obs = run_history(steps, nonce);
    // after run_history: the process-global arena interns the call sites on first use
    let attached = attached_ok(steps);
    count_steps(sink, steps, &obs);
    let lose = steps.iter().filter(|s| matches!(s, Step::Persist { keep: false })).count();
    sink.bump_by("cuts:lose", lose as u64);
    let lazy = obs
        .iter()
        .filter(|o| matches!(o, Obs::Recv(Outcome::Accepted, calls, _) if calls.len() >= 2 && matches!(calls[0], HCall::NewSpan(..)) && matches!(calls[calls.len() - 1], HCall::Enter(_))))
        .count();
    sink.bump_by("lazy_presentations", lazy as u64);
    intern_begin();
    let judge = format!("judge_c03 {} {} {}", csteps(steps), cobss(&obs), cbool(attached));
    let judge = intern_wrap(&judge);
    sink.case(idx, kind, &judge, &csteps(steps), lose > 0, || serde_json::json!({ "steps": csteps(steps) }));
}

pub fn run(o: &Opts) {
    let mut sink = Sink::new(&o.out, o.shards, "Judge.C03", o.only.clone());
    let mut idx = 0u64;
    // corpus: the repaired F3 history (index 1 of the shared corpus) and F2 (index 0)
    for k in 0..3 {
        let nonce = format!("c03_{}_c{k}", o.seed);
        let steps = corpus(&nonce).swap_remove(k);
        case(&mut sink, idx, "corpus", &steps, &nonce);
        idx += 1;
    }
    let n = if o.thorough { 40_000 } else { 1_200 } * o.scale;
    for _ in 0..n {
        if sink.wants(idx) {
            let mut r = Rng::for_case(o.seed, "C03", idx);
            let nonce = format!("c03_{}_{idx}", o.seed);
            let max_fields = *r.pick(&[3usize, 8, 40]);
            let cfg = wf_cfg(&mut r, max_fields);
            let mut evs = gen_stream(&mut r, &cfg, &nonce);
            mark_spans(&mut evs);
            let cut = *r.pick(&[10u64, 25, 50]);
            let lose = *r.pick(&[50u64, 100]);
            let steps = with_cuts(&mut r, &evs, cut, lose, 0);
            case(&mut sink, idx, "random", &steps, &nonce);
        }
        idx += 1;
    }
    sink.finish(
        "well-formed generated streams (explicit parents dropped before their children, clones, re-entrant enters, records; call sites of up to 40 fields) cut at random positions by persist steps that \
         keep or lose the local span map; every case is also replayed on a real Registry + CaptureLayer host to check that events are attached to the span entered after the restart; \
         non-trivial = at least one cut loses the local map",
        serde_json::json!({}),
    );
}
