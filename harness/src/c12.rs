//! C12: the sender emits a well-formed, faithful stream with unique span ids.
//!
//! Guest programs are executed with the real `tracing` API under a `Tee` subscriber that logs every
//! `Subscriber` call it receives (the operation log) and forwards it to a REAL
//! `TracingEventSender` whose hook collects the events.  The sender is created with
//! `verif_with_next_span_id(hook, start)` so that the 32-bit wrap can be replayed without 4 billion
//! allocations.  A second kind of case shares one sender between 2..=16 free-running threads.
use std::{
    collections::HashMap,
    panic::{catch_unwind, resume_unwind, AssertUnwindSafe},
    sync::{
        atomic::{AtomicBool, Ordering},
        Arc, Barrier, Mutex,
    },
};

use tracing::Span;
use tracing_core::{
    span::{Attributes, Current, Id, Record},
    subscriber::Interest,
    Dispatch, Event, LevelFilter, Metadata, Subscriber,
};
use tracing_tunnel::{CallSiteData, CallSiteKind, TracedValues, TracingEvent, TracingEventSender, TracingLevel};

use crate::{coq::*, guest::*, out::Sink, rng::Rng, Opts};

// ---- the Tee ---------------------------------------------------------------------------------

#[derive(Clone, Copy)]
enum SParent {
    Ctx,
    Root,
    Explicit(u64),
}

/// One `Subscriber` call as seen by the Tee; `meta` = address of the `Metadata`.
enum Call {
    Register(u64),
    /// `id` = what the sender returned; 0 = the call did not return (panic inside the sender)
    NewSpan { id: u64, meta: u64, parent: SParent, vals: TracedValues<String> },
    Record(u64, TracedValues<String>),
    Enter(u64),
    Exit(u64),
    Clone(u64),
    TryClose(u64),
    Follows(u64, u64),
    Event { meta: u64, parent: SParent, vals: TracedValues<String> },
}

struct Tee<F> {
    sender: TracingEventSender<F>,
    log: Arc<Mutex<Vec<Call>>>,
    /// set when the observation of the case is over (or a call panicked): nothing is logged or
    /// forwarded any more, so the handles that are still alive can be dropped normally
    off: Arc<AtomicBool>,
}

impl<F> Tee<F> {
    fn is_off(&self) -> bool {
        self.off.load(Ordering::SeqCst)
    }
    fn push(&self, c: Call) {
        self.log.lock().unwrap().push(c);
    }
}

fn addr(meta: &'static Metadata<'static>) -> u64 {
    meta as *const Metadata<'static> as u64
}

impl<F: Fn(TracingEvent) + Send + Sync + 'static> Subscriber for Tee<F> {
    fn register_callsite(&self, metadata: &'static Metadata<'static>) -> Interest {
        if self.is_off() {
            return Interest::always();
        }
        let interest = self.sender.register_callsite(metadata);
        self.push(Call::Register(addr(metadata)));
        interest
    }
    fn enabled(&self, metadata: &Metadata<'_>) -> bool {
        self.sender.enabled(metadata)
    }
    fn max_level_hint(&self) -> Option<LevelFilter> {
        self.sender.max_level_hint()
    }
    fn new_span(&self, attrs: &Attributes<'_>) -> Id {
        if self.is_off() {
            return Id::from_u64(u64::MAX);
        }
        // the creation that is going to fail (`run_prog_with`) goes straight to the sender: the tee
        // neither renders its values nor logs it; what happens inside it is logged as usual
        if OUTER_CREATION.with(|o| o.replace(false)) {
            return self.sender.new_span(attrs);
        }
        let meta = addr(attrs.metadata());
        let parent = if attrs.is_root() {
            SParent::Root
        } else if attrs.is_contextual() {
            SParent::Ctx
        } else {
            SParent::Explicit(attrs.parent().expect("explicit parent").into_u64())
        };
        let vals = seen_in_values(attrs.values());
        match catch_unwind(AssertUnwindSafe(|| self.sender.new_span(attrs))) {
            Ok(id) => {
                self.push(Call::NewSpan { id: id.into_u64(), meta, parent, vals });
                id
            }
            Err(payload) => {
                self.push(Call::NewSpan { id: 0, meta, parent, vals });
                self.off.store(true, Ordering::SeqCst);
                resume_unwind(payload)
            }
        }
    }
    fn record(&self, span: &Id, values: &Record<'_>) {
        if self.is_off() {
            return;
        }
        self.sender.record(span, values);
        self.push(Call::Record(span.into_u64(), seen_in_record(values)));
    }
    fn record_follows_from(&self, span: &Id, follows: &Id) {
        if self.is_off() {
            return;
        }
        self.sender.record_follows_from(span, follows);
        self.push(Call::Follows(span.into_u64(), follows.into_u64()));
    }
    fn event_enabled(&self, event: &Event<'_>) -> bool {
        self.sender.event_enabled(event)
    }
    fn event(&self, event: &Event<'_>) {
        if self.is_off() {
            return;
        }
        let parent = if event.is_root() {
            SParent::Root
        } else if event.is_contextual() {
            SParent::Ctx
        } else {
            SParent::Explicit(event.parent().expect("explicit parent").into_u64())
        };
        self.sender.event(event);
        self.push(Call::Event { meta: addr(event.metadata()), parent, vals: seen_in_event(event) });
    }
    fn enter(&self, span: &Id) {
        if self.is_off() {
            return;
        }
        self.sender.enter(span);
        self.push(Call::Enter(span.into_u64()));
    }
    fn exit(&self, span: &Id) {
        if self.is_off() {
            return;
        }
        self.sender.exit(span);
        self.push(Call::Exit(span.into_u64()));
    }
    fn clone_span(&self, span: &Id) -> Id {
        if self.is_off() {
            return span.clone();
        }
        let id = self.sender.clone_span(span);
        self.push(Call::Clone(span.into_u64()));
        id
    }
    fn try_close(&self, span: Id) -> bool {
        if self.is_off() {
            return false;
        }
        let raw = span.into_u64();
        let closed = self.sender.try_close(span);
        self.push(Call::TryClose(raw));
        closed
    }
    fn current_span(&self) -> Current {
        self.sender.current_span()
    }
}

thread_local! {
    static OUTER_CREATION: std::cell::Cell<bool> = const { std::cell::Cell::new(false) };
}

// ---- running one program ---------------------------------------------------------------------

struct Obs {
    calls: Vec<Call>,
    events: Vec<TracingEvent>,
    panicked: bool,
}

fn run_prog(prog: &Prog, sites: &[&'static DynSite], start: u32) -> Obs {
    run_prog_with(prog, sites, start, false)
}

/// `failed_first`: the program's first operation (a span creation) is performed by the `Debug` impl of
/// an attribute of ANOTHER span that is being created - through an explicit dispatcher handle, so that
/// tracing-core's re-entrancy guard is not involved -, and that impl then panics; the guest catches the
/// panic and goes on with the rest of the program.  The outer creation reserved one span id and emitted
/// nothing: the run must look like the plain run of the program under a sender that starts one id later.
fn run_prog_with(prog: &Prog, sites: &[&'static DynSite], start: u32, failed_first: bool) -> Obs {
    let events: Arc<Mutex<Vec<TracingEvent>>> = Arc::new(Mutex::new(vec![]));
    let log: Arc<Mutex<Vec<Call>>> = Arc::new(Mutex::new(vec![]));
    let off = Arc::new(AtomicBool::new(false));
    let sink_events = Arc::clone(&events);
    let hook = move |e: TracingEvent| sink_events.lock().unwrap().push(e);
    let tee = Tee {
        sender: TracingEventSender::verif_with_next_span_id(hook, start),
        log: Arc::clone(&log),
        off: Arc::clone(&off),
    };
    let dispatch = Dispatch::new(tee);
    let mut panicked = false;
    tracing::dispatcher::with_default(&dispatch, || {
        let mut r = ExecResult::default();
        let mut skip = 0;
        if failed_first {
            let cell = std::rc::Rc::new(std::cell::RefCell::new(std::mem::take(&mut r)));
            let (hook_cell, hook_sites, first) = (cell.clone(), sites.to_vec(), prog.ops[0].1.clone());
            let hook: std::rc::Rc<dyn Fn(&str)> = std::rc::Rc::new(move |text: &str| {
                if text == "hostile#creates-a-span-then-panics" {
                    exec_op(&mut hook_cell.borrow_mut(), &hook_sites, &first);
                    std::panic::resume_unwind(Box::new("guest Debug impl panics"));
                }
            });
            DEBUG_HOOK.with(|h| *h.borrow_mut() = Some(hook));
            let outer = make_site(&site(CallSiteKind::Span, "creation that fails", &["v"]));
            let _ = outer.interest();
            let handle = tracing::dispatcher::get_default(Dispatch::clone);
            let vals: ValSet = vec![(0, Some(Prim::Debug(Obj { display: "-".into(), debug: "hostile#creates-a-span-then-panics".into() })))];
            OUTER_CREATION.with(|o| o.set(true));
            let failed = catch_unwind(AssertUnwindSafe(|| with_value_set(outer, &vals, |vs| Span::new_with(outer.metadata(), vs, &handle)))).is_err();
            OUTER_CREATION.with(|o| o.set(false));
            DEBUG_HOOK.with(|h| *h.borrow_mut() = None);
            assert!(failed, "the outer creation is left by a panic");
            r = std::rc::Rc::try_unwrap(cell).ok().expect("the hook is gone").into_inner();
            skip = 1;
        }
        for (tid, op) in prog.ops.iter().skip(skip) {
            assert_eq!(*tid, 0, "C12 programs are single-threaded");
            // the guest's tracing call may panic (`Id::from_u64(0)` at the wrap): the run stops there
            if catch_unwind(AssertUnwindSafe(|| exec_op(&mut r, sites, op))).is_err() {
                panicked = true;
                break;
            }
        }
        if !panicked {
            assert!(r.enabled.iter().all(|e| *e) && r.events_disabled == 0, "the sender enables everything");
        }
        // the observation ends here; the handles still alive are dropped without being observed
        off.store(true, Ordering::SeqCst);
        drop(r);
    });
    drop(dispatch);
    let calls = std::mem::take(&mut *log.lock().unwrap());
    let events = std::mem::take(&mut *events.lock().unwrap());
    Obs { calls, events, panicked }
}

const FOREIGN: u64 = 1_000_000_007;

fn cparent(p: SParent) -> String {
    match p {
        SParent::Ctx => "SPCtx".into(),
        SParent::Root => "SPRoot".into(),
        SParent::Explicit(id) => format!("(SPExplicit {id})"),
    }
}

struct Canon {
    calls: Vec<String>,
    events: Vec<String>,
    foreign_calls: u64,
    foreign_events: u64,
    /// program call sites announced before the first non-announcement event / later
    announced_early: u64,
    announced_late: u64,
}

/// metadata addresses -> index in the program's pool; announcements of other call sites are
/// removed and counted
fn canonicalise(obs: &Obs, sites: &[&'static DynSite]) -> Canon {
    let index: HashMap<u64, u64> = sites.iter().enumerate().map(|(i, s)| (addr(s.metadata()), i as u64)).collect();
    let site = |a: u64| index.get(&a).copied().unwrap_or(FOREIGN);
    let mut c = Canon { calls: vec![], events: vec![], foreign_calls: 0, foreign_events: 0, announced_early: 0, announced_late: 0 };
    for call in &obs.calls {
        c.calls.push(match call {
            Call::Register(a) => match index.get(a) {
                Some(i) => format!("SRegister {i}"),
                None => {
                    c.foreign_calls += 1;
                    continue;
                }
            },
            Call::NewSpan { id, meta, parent, vals } => format!("SNewSpan {id} {} {} {}", site(*meta), cparent(*parent), ctvs(vals)),
            Call::Record(id, vals) => format!("SRecord {id} {}", ctvs(vals)),
            Call::Enter(id) => format!("SEnter {id}"),
            Call::Exit(id) => format!("SExit {id}"),
            Call::Clone(id) => format!("SClone {id}"),
            Call::TryClose(id) => format!("STryClose {id}"),
            Call::Follows(id, f) => format!("SFollows {id} {f}"),
            Call::Event { meta, parent, vals } => format!("SEvent {} {} {}", site(*meta), cparent(*parent), ctvs(vals)),
        });
    }
    let mut seen_op = false;
    for e in &obs.events {
        let e2 = match e {
            TracingEvent::NewCallSite { id, data } => match index.get(id) {
                Some(i) => {
                    if seen_op {
                        c.announced_late += 1;
                    } else {
                        c.announced_early += 1;
                    }
                    TracingEvent::NewCallSite { id: *i, data: data.clone() }
                }
                None => {
                    c.foreign_events += 1;
                    continue;
                }
            },
            TracingEvent::NewSpan { id, parent_id, metadata_id, values } => {
                seen_op = true;
                TracingEvent::NewSpan { id: *id, parent_id: *parent_id, metadata_id: site(*metadata_id), values: values.clone() }
            }
            TracingEvent::NewEvent { metadata_id, parent, values } => {
                seen_op = true;
                TracingEvent::NewEvent { metadata_id: site(*metadata_id), parent: *parent, values: values.clone() }
            }
            other => {
                seen_op = true;
                other.clone()
            }
        };
        c.events.push(cevent(&e2));
    }
    c
}

fn spans_in(prog: &Prog) -> u64 {
    prog.ops.iter().filter(|(_, op)| matches!(op, Op::NewSpan(..))).count() as u64
}

/// the known class of Judge/C12.v (`prog_wraps`)
fn wraps(prog: &Prog, start: u32) -> bool {
    let m = spans_in(prog);
    m > 0 && u64::from(start) - 1 + (m - 1) >= (1u64 << 32) - 1
}

fn prog_case(sink: &mut Sink, idx: u64, kind: &str, prog: &Prog, start: u32) {
    if !sink.wants(idx) {
        return;
    }
    let key = format!("{start} {}", cprog(prog)); // not interned: canonical text of the input
    let sites = make_sites(&prog.sites);
    let obs = run_prog(prog, &sites, start);
    intern_begin();
    let canon = canonicalise(&obs, &sites);
    let term = format!(
        "judge_sender {start} {} (mk_sobs [{}] [{}] {} {} {})",
        cprog(prog),
        canon.calls.join("; "),
        canon.events.join("; "),
        cbool(obs.panicked),
        canon.foreign_calls,
        canon.foreign_events
    );
    let judge = intern_wrap(&term);

    for (_, op) in &prog.ops {
        sink.bump(&format!("op:{}", op.name()));
        match op {
            Op::NewSpan(_, p, _) | Op::Event(_, p, _) => sink.bump(match p {
                ParentKind::Ctx => "parent:contextual",
                ParentKind::Root => "parent:root",
                ParentKind::Explicit(_) => "parent:explicit",
            }),
            _ => {}
        }
    }
    sink.bump_by("events:total", canon.events.len() as u64);
    sink.bump_by("announce:foreign-filtered", canon.foreign_events);
    sink.bump_by("announce:program-site-before-first-op", canon.announced_early);
    sink.bump_by("announce:program-site-at-first-use", canon.announced_late);
    if canon.foreign_calls != canon.foreign_events {
        sink.bump("announce:foreign-count-mismatch");
    }
    sink.bump(if obs.panicked { "run:panicked" } else { "run:completed" });
    sink.bump(if wraps(prog, start) { "class:id-wrap" } else { "class:regular" });
    sink.bump(match start {
        1 => "start:1",
        s if s >= u32::MAX - 64 => "start:near-wrap",
        _ => "start:other",
    });
    let nontrivial = obs.events.iter().filter(|e| !matches!(e, TracingEvent::NewCallSite { .. })).count() >= 3;
    sink.case(idx, kind, &judge, &key, nontrivial, || serde_json::json!({ "start": start, "prog": cprog(prog) }));
}

/// see `run_prog_with`: judged as the plain run under a sender that starts at `start + 1`
fn failed_first_case(sink: &mut Sink, idx: u64, prog: &Prog, start: u32) {
    if !sink.wants(idx) {
        return;
    }
    if !matches!(prog.ops.first(), Some((_, Op::NewSpan(_, ParentKind::Ctx | ParentKind::Root, _)))) || start == u32::MAX {
        sink.bump("failed-first:program-does-not-start-with-a-span");
        return;
    }
    let key = format!("failed-first {start} {}", cprog(prog));
    let sites = make_sites(&prog.sites);
    let obs = run_prog_with(prog, &sites, start, true);
    intern_begin();
    let canon = canonicalise(&obs, &sites);
    let term = format!(
        "judge_sender {} {} (mk_sobs [{}] [{}] {} {} {})",
        start + 1,
        cprog(prog),
        canon.calls.join("; "),
        canon.events.join("; "),
        cbool(obs.panicked),
        canon.foreign_calls,
        canon.foreign_events
    );
    let judge = intern_wrap(&term);
    sink.bump("failed-first:run");
    let nontrivial = obs.events.iter().filter(|e| !matches!(e, TracingEvent::NewCallSite { .. })).count() >= 3;
    sink.case(idx, "after-a-failed-creation", &judge, &key, nontrivial, || serde_json::json!({ "start": start, "prog": cprog(prog), "first_operation_performed_by": "the Debug impl of an attribute of a span creation that then panics" }));
}

// ---- hand-written programs -------------------------------------------------------------------

fn site(kind: CallSiteKind, name: &str, fields: &[&str]) -> CallSiteData {
    CallSiteData {
        kind,
        name: name.to_owned().into(),
        target: "c12".into(),
        level: TracingLevel::Info,
        module_path: Some("c12::guest".into()),
        file: Some("c12.rs".into()),
        line: Some(1),
        fields: fields.iter().map(|f| (*f).to_owned().into()).collect(),
    }
}
fn single(ops: Vec<Op>, sites: Vec<CallSiteData>) -> Prog {
    Prog { sites, ops: ops.into_iter().map(|op| (0, op)).collect() }
}
fn std_sites() -> Vec<CallSiteData> {
    vec![
        site(CallSiteKind::Span, "fib", &["approx", "iter"]),
        site(CallSiteKind::Event, "event c12.rs:14", &["message", "current", "current"]),
        site(CallSiteKind::Span, "child", &[]),
    ]
}

fn corpus() -> Vec<(Prog, u32)> {
    let fib = single(
        vec![
            Op::NewSpan(0, ParentKind::Ctx, vec![(0, None), (1, Some(Prim::UInt(IWidth::WSize, 5)))]),
            Op::Enter(0),
            Op::Event(1, ParentKind::Ctx, vec![(0, Some(Prim::Debug(Obj { display: "-".into(), debug: "performing iteration".into() }))), (1, Some(Prim::UInt(IWidth::W64, 1))), (2, None)]),
            Op::Record(0, vec![(0, Some(Prim::F64(5.0)))]),
            Op::Exit(0),
            Op::Drop(0),
            Op::Event(1, ParentKind::Root, vec![(0, Some(Prim::Display(Obj { display: "computed".into(), debug: "-".into() }))), (2, Some(Prim::Int(IWidth::W32, -1)))]),
        ],
        std_sites(),
    );
    let explicit = single(
        vec![
            Op::NewSpan(0, ParentKind::Root, vec![]),
            Op::NewSpan(2, ParentKind::Explicit(0), vec![]),
            Op::Clone(0),
            Op::Drop(0),
            Op::Drop(0),
            Op::Enter(1),
            Op::Event(1, ParentKind::Explicit(1), vec![(1, Some(Prim::Bool(true)))]),
            Op::Exit(1),
            Op::Follows(1, FollowTarget::Live(1)),
            Op::Record(1, vec![]),
            Op::Drop(1),
        ],
        std_sites(),
    );
    let reentrant = single(
        vec![
            Op::NewSpan(0, ParentKind::Ctx, vec![(1, Some(Prim::Int(IWidth::W8, -128))), (0, Some(Prim::Error("outer".into(), vec!["inner".into(), "root".into()])))]),
            Op::NewSpan(2, ParentKind::Ctx, vec![]),
            Op::Enter(0),
            Op::Enter(1),
            Op::Enter(0),
            Op::Exit(0),
            Op::Exit(0),
            Op::Enter(0),
            Op::Exit(1),
            Op::Follows(0, FollowTarget::Live(1)),
            Op::Drop(1),
        ],
        std_sites(),
    );
    // two call sites with equal descriptions are different call sites with different metadata ids
    let twins = single(
        vec![
            Op::NewSpan(0, ParentKind::Ctx, vec![]),
            Op::NewSpan(1, ParentKind::Explicit(0), vec![]),
            Op::Event(2, ParentKind::Explicit(1), vec![]),
            Op::Event(3, ParentKind::Ctx, vec![]),
            Op::Drop(0),
            Op::Drop(1),
        ],
        vec![
            site(CallSiteKind::Span, "twin", &["x"]),
            site(CallSiteKind::Span, "twin", &["x"]),
            site(CallSiteKind::Event, "twin event", &[]),
            site(CallSiteKind::Event, "twin event", &[]),
        ],
    );
    let many = |n: usize| {
        let mut ops = vec![];
        for k in 0..n {
            ops.push(Op::NewSpan(if k % 2 == 0 { 0 } else { 2 }, if k == 0 { ParentKind::Ctx } else { ParentKind::Explicit(k - 1) }, vec![]));
            ops.push(Op::Enter(k));
            ops.push(Op::Event(1, ParentKind::Ctx, vec![(1, Some(Prim::UInt(IWidth::W64, k as u128)))]));
            ops.push(Op::Exit(k));
        }
        for k in 0..n {
            ops.push(Op::Drop(k));
        }
        single(ops, std_sites())
    };
    let mut out = vec![(fib.clone(), 1), (explicit.clone(), 1), (reentrant.clone(), 1), (twins, 1), (many(6), 1), (fib.clone(), 77), (explicit.clone(), 1 << 31)];
    // the 32-bit wrap (known finding span-id-wrap): the counter starts k steps before u32::MAX
    out.push((fib.clone(), u32::MAX)); // one span: id u32::MAX, no wrap yet
    out.push((explicit.clone(), u32::MAX)); // second span gets id 0
    out.push((reentrant.clone(), u32::MAX));
    out.push((many(6), u32::MAX - 5)); // ids u32::MAX-5 ..= u32::MAX: the last allocation before the wrap
    out.push((many(6), u32::MAX - 4)); // sixth span gets id 0
    out.push((many(6), u32::MAX - 2));
    out.push((many(3), u32::MAX - 1));
    out.push((many(3), u32::MAX - 2));
    out.push((explicit, u32::MAX - 1));
    out
}

// ---- small-scope enumeration -----------------------------------------------------------------

/// All well-formed op sequences of length 1..=len over a small alphabet on two spans, one span call
/// site and one event call site.
fn small_scope(len: usize) -> Vec<Vec<Op>> {
    fn alphabet(nspans: usize) -> Vec<Op> {
        let mut a = vec![Op::NewSpan(0, ParentKind::Ctx, vec![(0, Some(Prim::Bool(true)))]), Op::Event(1, ParentKind::Ctx, vec![])];
        for k in 0..nspans.min(2) {
            a.push(Op::NewSpan(0, ParentKind::Explicit(k), vec![]));
            a.push(Op::Event(1, ParentKind::Explicit(k), vec![(0, Some(Prim::Int(IWidth::W8, 1)))]));
            a.push(Op::Record(k, vec![(0, Some(Prim::Bool(false)))]));
            a.push(Op::Enter(k));
            a.push(Op::Exit(k));
            a.push(Op::Clone(k));
            a.push(Op::Drop(k));
            a.push(Op::Follows(k, FollowTarget::Live(0)));
        }
        a
    }
    #[derive(Clone)]
    struct St {
        handles: Vec<u32>,
        stack: Vec<usize>,
    }
    fn step(st: &St, op: &Op) -> Option<St> {
        let mut s = st.clone();
        let live = |k: usize| st.handles.get(k).is_some_and(|h| *h > 0);
        match op {
            Op::NewSpan(_, p, _) => {
                if let ParentKind::Explicit(k) = p {
                    if !live(*k) {
                        return None;
                    }
                }
                if s.handles.len() >= 2 {
                    return None;
                }
                s.handles.push(1);
            }
            Op::Event(_, p, _) => {
                if let ParentKind::Explicit(k) = p {
                    if !live(*k) {
                        return None;
                    }
                }
            }
            Op::Record(k, _) => {
                if !live(*k) {
                    return None;
                }
            }
            Op::Enter(k) => {
                if !live(*k) {
                    return None;
                }
                s.stack.push(*k);
            }
            Op::Exit(k) => {
                if !live(*k) {
                    return None;
                }
                let pos = s.stack.iter().rposition(|j| j == k)?;
                s.stack.remove(pos);
            }
            Op::Clone(k) => {
                if !live(*k) {
                    return None;
                }
                s.handles[*k] += 1;
            }
            Op::Drop(k) => {
                if !live(*k) || (st.handles[*k] == 1 && st.stack.contains(k)) {
                    return None;
                }
                s.handles[*k] -= 1;
            }
            Op::Follows(k, FollowTarget::Live(j)) => {
                if !live(*k) || !live(*j) {
                    return None;
                }
            }
            Op::Follows(..) => return None,
        }
        Some(s)
    }
    let mut out: Vec<Vec<Op>> = vec![];
    let mut frontier: Vec<(Vec<Op>, St)> = vec![(vec![], St { handles: vec![], stack: vec![] })];
    for _ in 0..len {
        let mut next = vec![];
        for (ops, st) in &frontier {
            for op in alphabet(st.handles.len()) {
                if let Some(st2) = step(st, &op) {
                    let mut o2 = ops.clone();
                    o2.push(op);
                    next.push((o2, st2));
                }
            }
        }
        out.extend(next.iter().map(|(o, _)| o.clone()));
        frontier = next;
    }
    out
}

// ---- threads sharing one sender --------------------------------------------------------------

fn conc_case(sink: &mut Sink, idx: u64, counts: &[usize], start: u32, busy: bool) {
    if !sink.wants(idx) {
        return;
    }
    let span_site = make_site(&site(CallSiteKind::Span, "conc", &["i"]));
    let event_site = make_site(&site(CallSiteKind::Event, "conc event", &["i"]));
    let events: Arc<Mutex<Vec<TracingEvent>>> = Arc::new(Mutex::new(vec![]));
    let sink_events = Arc::clone(&events);
    // in the busy cases the hook takes its time, so that callbacks of different threads overlap inside it
    let hook = move |e: TracingEvent| {
        if busy {
            std::thread::yield_now();
        }
        sink_events.lock().unwrap().push(e);
    };
    let dispatch = Dispatch::new(TracingEventSender::verif_with_next_span_id(hook, start));
    let barrier = Barrier::new(counts.len());
    let ids: Vec<Vec<u64>> = std::thread::scope(|scope| {
        let handles: Vec<_> = counts
            .iter()
            .enumerate()
            .map(|(t, n)| {
                let dispatch = dispatch.clone();
                let barrier = &barrier;
                scope.spawn(move || {
                    tracing::dispatcher::with_default(&dispatch, || {
                        let mut got = vec![];
                        let mut kept: Vec<Span> = vec![];
                        barrier.wait();
                        for i in 0..*n {
                            assert!(span_site.is_enabled(), "the sender enables everything");
                            let span = with_value_set(span_site, &[(0, Some(Prim::UInt(IWidth::WSize, (t * 1_000_000 + i) as u128)))], |vs| Span::new(span_site.metadata(), vs));
                            got.push(span.id().expect("enabled span").into_u64());
                            if busy && (t + i) % 3 == 0 && event_site.is_enabled() {
                                with_value_set(event_site, &[(0, Some(Prim::UInt(IWidth::WSize, (t * 1_000_000 + i) as u128)))], |vs| Event::child_of(span.id(), event_site.metadata(), vs));
                            }
                            if (t + i) % 2 == 0 {
                                kept.push(span);
                            }
                        }
                        drop(kept);
                        got
                    })
                })
            })
            .collect();
        handles.into_iter().map(|h| h.join().expect("thread")).collect()
    });
    drop(dispatch);
    let event_ids: Vec<u64> = events
        .lock()
        .unwrap()
        .iter()
        .filter_map(|e| match e {
            TracingEvent::NewSpan { id, .. } => Some(*id),
            _ => None,
        })
        .collect();
    // what each thread contributed to the stream, in stream order: (0, i) NewSpan, (1, i) NewEvent,
    // (2, i) SpanDropped of its i-th span; (9, _) for anything that cannot be attributed
    let marker = |values: &tracing_tunnel::TracedValues<String>| -> Option<(usize, u64)> {
        match values.get("i") {
            Some(tracing_tunnel::TracedValue::UInt(v)) => Some(((*v / 1_000_000) as usize, (*v % 1_000_000) as u64)),
            _ => None,
        }
    };
    let mut per_thread: Vec<Vec<(u8, u64)>> = vec![vec![]; counts.len()];
    let mut stray = 0u64;
    for e in events.lock().unwrap().iter() {
        let attributed = match e {
            TracingEvent::NewSpan { values, .. } => marker(values).map(|(t, i)| (t, (0u8, i))),
            TracingEvent::NewEvent { values, .. } => marker(values).map(|(t, i)| (t, (1u8, i))),
            TracingEvent::SpanDropped { id } => ids
                .iter()
                .enumerate()
                .find_map(|(t, l)| l.iter().position(|x| x == id).map(|i| (t, (2u8, i as u64)))),
            TracingEvent::NewCallSite { .. } => continue,
            _ => None,
        };
        match attributed {
            Some((t, item)) if t < per_thread.len() => per_thread[t].push(item),
            _ => stray += 1,
        }
    }
    // the order of the atomic steps, reconstructed from the ids (no wrap in these cases)
    let mut pairs: Vec<(u64, usize)> = ids.iter().enumerate().flat_map(|(t, l)| l.iter().map(move |id| (*id, t))).collect();
    pairs.sort_unstable();
    let sched: Vec<usize> = pairs.iter().map(|(_, t)| *t).collect();
    let switches = sched.windows(2).filter(|w| w[0] != w[1]).count();
    let cnats = |l: &[usize]| format!("{}%nat", clist(l.iter(), |n| n.to_string()));
    let input = format!("{start} {} {} {}", cnats(counts), cnats(&sched), cbool(busy));
    let judge = format!(
        "judge_conc {input} (mk_cobs {} {} {} {stray})",
        clist(ids.iter(), |l| clist(l.iter(), |id| id.to_string())),
        clist(event_ids.iter(), |id| id.to_string()),
        clist(per_thread.iter(), |l| clist(l.iter(), |(k, i)| format!("({k}, {i})")))
    );
    sink.bump(&format!("conc:threads:{:02}", counts.len()));
    sink.bump_by("conc:allocations", sched.len() as u64);
    sink.bump_by("conc:thread-switches-in-schedule", switches as u64);
    let key = format!("{start} {counts:?} {sched:?}");
    sink.case(idx, "concurrent", &judge, &key, switches > counts.len(), || {
        serde_json::json!({ "start": start, "counts": counts, "schedule": sched })
    });
}

// ---- driver ----------------------------------------------------------------------------------

pub fn run(o: &Opts) {
    let mut sink = Sink::new(&o.out, o.shards, "Judge.C12", o.only.clone());
    let mut idx = 0u64;

    // 1. corpus (incl. the wrap replays of the known finding)
    for (prog, start) in corpus() {
        prog_case(&mut sink, idx, "corpus", &prog, start);
        idx += 1;
    }

    // 2. small scope: every well-formed op sequence up to length L on two spans
    let len = if o.thorough { 4 } else { 3 };
    let small_sites = vec![site(CallSiteKind::Span, "s", &["a"]), site(CallSiteKind::Event, "e", &["a"])];
    for ops in small_scope(len) {
        let prog = single(ops, small_sites.clone());
        prog_case(&mut sink, idx, "small-scope", &prog, 1);
        idx += 1;
        if o.thorough {
            prog_case(&mut sink, idx, "small-scope-wrap", &prog, u32::MAX);
            idx += 1;
        }
    }

    // 3. random programs of the shared generator under a fresh sender
    let n_balanced = if o.thorough { 40_000 } else { 1_100 } * o.scale;
    for _ in 0..n_balanced {
        if sink.wants(idx) {
            let mut r = Rng::for_case(o.seed, "C12-balanced", idx);
            let prog = gen_prog(&mut r, &GenCfg::balanced("c12"));
            prog_case(&mut sink, idx, "random-balanced", &prog, 1);
        }
        idx += 1;
    }
    let n_values = if o.thorough { 10_000 } else { 300 } * o.scale;
    for _ in 0..n_values {
        if sink.wants(idx) {
            let mut r = Rng::for_case(o.seed, "C12-values", idx);
            let prog = gen_prog(&mut r, &GenCfg::values("c12"));
            prog_case(&mut sink, idx, "random-values", &prog, 1);
        }
        idx += 1;
    }

    // 4. random programs under a sender whose counter starts anywhere, mostly close to the wrap
    let n_offset = if o.thorough { 6_000 } else { 150 } * o.scale;
    for _ in 0..n_offset {
        if sink.wants(idx) {
            let mut r = Rng::for_case(o.seed, "C12-offset", idx);
            let mut cfg = GenCfg::balanced("c12");
            cfg.weights[0] = 40; // more span creations
            let prog = gen_prog(&mut r, &cfg);
            let start = match r.below(4) {
                0 => 1 + r.below(u64::from(u32::MAX) - 100) as u32,
                1 => u32::MAX - 12 - r.below(50) as u32,
                _ => {
                    let k = r.below(12) as u32;
                    u32::MAX - k
                }
            };
            prog_case(&mut sink, idx, "random-offset", &prog, start);
        }
        idx += 1;
    }

    // 4b. the program's first span is created inside a span creation that fails
    let n_failed = if o.thorough { 6_000 } else { 200 } * o.scale;
    for _ in 0..n_failed {
        if sink.wants(idx) {
            let mut r = Rng::for_case(o.seed, "C12-failed-first", idx);
            let mut cfg = GenCfg::balanced("c12");
            cfg.weights[0] = 40;
            let mut prog = gen_prog(&mut r, &cfg);
            // start with a span creation: drop what comes before the first contextual / root one
            if let Some(p) = prog.ops.iter().position(|(_, op)| matches!(op, Op::NewSpan(..))) {
                if p > 0 && prog.ops[..p].iter().all(|(_, op)| matches!(op, Op::Event(_, ParentKind::Ctx | ParentKind::Root, _))) {
                    prog.ops.drain(..p);
                }
            }
            let start = if r.chance(50) { 1 } else { 1 + r.below(1_000_000) as u32 };
            failed_first_case(&mut sink, idx, &prog, start);
        }
        idx += 1;
    }

    // 5. threads sharing one sender, free-running (a test of the atomicity the model assumes)
    let n_conc = if o.thorough { 600 } else { 48 } * o.scale;
    for i in 0..n_conc {
        if sink.wants(idx) {
            let mut r = Rng::for_case(o.seed, "C12-conc", idx);
            let threads = if i < 15 { 2 + i as usize } else { r.range(2, 16) };
            let max = if o.thorough { 60 } else { 24 };
            let counts: Vec<usize> = (0..threads).map(|_| r.range(1, max)).collect();
            let start = match r.below(4) {
                0 => 1 << 31,
                1 => u32::MAX - 5_000,
                _ => 1,
            };
            conc_case(&mut sink, idx, &counts, start, r.chance(50));
        }
        idx += 1;
    }

    sink.finish(
        "one case = one guest program executed with the real tracing API under a Tee subscriber (operation log) forwarding to a \
         real TracingEventSender created with verif_with_next_span_id(hook, start); the judge compares the log and the event \
         stream with the model (announcements modulo placement) and evaluates the property on the implementation's own output \
         (one event per call, announcements before use with equal content, ids non-zero and distinct, references within \
         lifetimes, accepted by the abstract receiver, faithful to the program). corpus incl. wrap replays; every well-formed op \
         sequence up to length L on two spans; random programs of the shared generator (start 1; start anywhere / close to the \
         wrap); 2..=16 free-running threads sharing one sender (schedule reconstructed from the ids). non-trivial = at least 3 \
         non-announcement events (programs) / more thread switches in the schedule than threads (concurrent); distinct = \
         distinct (start, program) resp. (start, counts, schedule)",
        serde_json::json!({ "small_scope_len": len, "call_sites_built": sites_built() }),
    );
}
