//! C13: host-side filtering applies to tunnelled spans and events.
//!
//! Programs x host filters (metadata predicates from the small AST `HFilter`, mirrored in Coq as
//! `hfilter` / `eval_filter`).  Every program is executed with the real `tracing` API
//! (i)   natively under a recording `Subscriber` that enables everything;
//! (ii)  natively under a recording subscriber that answers `enabled` / `register_callsite` (and, for
//!       level thresholds in static mode, `max_level_hint`) from the predicate: the macro replica of the
//!       guest interpreter then skips disabled spans and events as `span!` / `event!` do;
//! (iii) under a real `TracingEventSender`, the events (after a JSON round trip) being replayed
//!       through a real `TracingEventReceiver` under a fresh recording subscriber configured with the
//!       same predicate;
//! (iv)  as (ii) and (iii) under `Registry + CaptureLayer + predicate layer`, storages compared here.
//! The machinery (recording subscriber, runs, printers) is that of `c01.rs`.
#[path = "c01.rs"]
#[allow(clippy::duplicate_mod)]
mod base;

use tracing_tunnel::{CallSiteData, CallSiteKind, TracingLevel};

use self::base::*;
use crate::{coq::*, guest::*, out::Sink, rng::Rng, Opts};

/// `known_host_filter` of Tunnel/Tunnel.v (for the histogram; the judge computes its own)
fn in_filter_class(prog: &Prog, sites: &[&'static DynSite], f: &HFilter) -> bool {
    prog.ops.iter().any(|(_, op)| match op {
        Op::NewSpan(cs, ..) | Op::Event(cs, ..) => !f.eval(sites[*cs].metadata()),
        _ => false,
    })
}

fn filter_case(sink: &mut Sink, idx: u64, kind: &str, prog: &Prog, f: &HFilter, mode: Mode) {
    if !sink.wants(idx) {
        return;
    }
    let key = format!("{} {}", f.coq(), cprog(prog));
    let sites = make_sites(&prog.sites);
    let unfiltered = run_native(prog, &sites, None, Mode::Always);
    let native = run_native(prog, &sites, Some(f), mode);
    let sent = run_sender(prog, &sites);
    let wire = through_json(&sent.events);
    let tunnel = run_receiver(&wire.events, Some(f), mode);
    let (tunnel, tunnel_stale) = pick_tunnel_run(sink, tunnel, run_receiver_stale(&wire.events, Some(f), mode));
    let snap_n = snap_native(prog, &sites, Some(f));
    let snap_t = snap_tunnel(&wire.events, Some(f));
    let snap_eq = snap_n == snap_t;
    // the host whose filter sits inside the capture layer: equal forests also when the filter disables something
    let layer_eq = snap_native_layer(prog, &sites, Some(f)) == snap_tunnel_layer(&wire.events, Some(f));
    sink.bump(if layer_eq { "layer-filter-host:equal" } else { "layer-filter-host:DIFFERENT" });

    intern_begin();
    let (unfiltered_log, _) = cscalls(&unfiltered.calls, &sites);
    let (native_log, _) = cscalls(&native.calls, &sites);
    let (_, clones) = chcalls(&tunnel.calls);
    let term_of = |t: &TunnelRun| {
        format!(
            "judge_c13 {} {} (mk_fobs {unfiltered_log} {native_log} {} {} {} {})",
            f.coq(),
            cprog(prog),
            chcalls(&t.calls).0,
            cbool(t.accepted && wire.lossless),
            cbool(snap_eq),
            cbool(layer_eq),
        )
    };
    let term = match &tunnel_stale {
        Some(stale) => format!("vworst ({}) ({})", term_of(&tunnel), term_of(stale)),
        None => term_of(&tunnel),
    };
    let judge = intern_wrap(&term);

    bump_prog(sink, prog);
    let in_class = in_filter_class(prog, &sites, f);
    sink.bump(if in_class { "class:some-call-site-disabled" } else { "class:everything-enabled" });
    sink.bump(&format!("filter:{}", f.kind()));
    sink.bump(match mode {
        Mode::Always => "mode:always",
        Mode::Sometimes => "mode:interest-sometimes",
        Mode::Static => "mode:interest-static+level-hint",
    });
    sink.bump(if snap_eq { "snapshot:equal" } else { "snapshot:different" });
    sink.bump_by("native:spans-disabled", native.enabled.iter().filter(|e| !**e).count() as u64);
    sink.bump_by("native:spans-enabled", native.enabled.iter().filter(|e| **e).count() as u64);
    sink.bump_by("native:events-disabled", native.events_disabled as u64);
    sink.bump_by("native:enabled-queries", native.enabled_queries);
    sink.bump_by("tunnel:enabled-queries-by-receiver", tunnel.enabled_queries);
    sink.bump_by("tunnel:clone-forwarded", clones);
    sink.bump_by("tunnel:rejected", tunnel.rejected);
    sink.bump_by("events:carried-by-identity-nonfinite-float", wire.by_identity);
    if tunnel.panicked {
        sink.bump("tunnel:panicked");
    }
    let nontrivial = tunnel.calls.iter().filter(|c| !matches!(c, Call::Register(..))).count() >= 3;
    sink.case(idx, kind, &judge, &key, nontrivial, || serde_json::json!({ "filter": f.coq(), "prog": cprog(prog) }));
}

// ---- filters ---------------------------------------------------------------------------------

const LEVELS: [TracingLevel; 5] = [TracingLevel::Error, TracingLevel::Warn, TracingLevel::Info, TracingLevel::Debug, TracingLevel::Trace];

fn gen_atom(r: &mut Rng, sites: &[CallSiteData]) -> HFilter {
    let s = r.pick(sites);
    match r.below(8) {
        0 | 1 | 2 => HFilter::MaxLevel(*r.pick(&LEVELS)),
        3 => {
            // a prefix of some call site's target (possibly all of it, possibly empty)
            let t: &str = &s.target;
            let mut cut = r.below(t.len() as u64 + 1) as usize;
            while !t.is_char_boundary(cut) {
                cut -= 1;
            }
            HFilter::TargetPrefix(t[..cut].to_owned())
        }
        4 => HFilter::NameIs(s.name.to_string()),
        5 => HFilter::IsSpan,
        6 => match s.fields.first() {
            Some(f) => HFilter::HasField(f.to_string()),
            None => HFilter::HasField("message".into()),
        },
        _ => HFilter::All,
    }
}

fn gen_filter(r: &mut Rng, sites: &[CallSiteData]) -> HFilter {
    match r.below(10) {
        0..=4 => gen_atom(r, sites),
        5 => HFilter::Not(Box::new(gen_atom(r, sites))),
        6 | 7 => HFilter::And(Box::new(gen_atom(r, sites)), Box::new(gen_atom(r, sites))),
        _ => HFilter::Or(Box::new(gen_atom(r, sites)), Box::new(HFilter::Not(Box::new(gen_atom(r, sites))))),
    }
}

fn corpus13() -> Vec<(Prog, HFilter)> {
    let t = "c13";
    let s = std_sites(t);
    // the witness of the known class (Tunnel/Tunnel.v wit_filter): a DEBUG span with an event inside,
    // into a host limited to INFO
    let wit = single(
        vec![
            Op::NewSpan(0, ParentKind::Ctx, vec![]),
            Op::Enter(0),
            Op::NewSpan(3, ParentKind::Ctx, vec![]),
            Op::Enter(1),
            Op::Event(4, ParentKind::Ctx, vec![(0, Some(Prim::Str { s: "inside".into(), owned: false }))]),
            Op::Exit(1),
            Op::Drop(1),
            Op::Exit(0),
            Op::Drop(0),
        ],
        s.clone(),
    );
    // a disabled explicit parent: natively the child becomes an explicit root
    let disabled_parent = single(
        vec![
            Op::NewSpan(0, ParentKind::Ctx, vec![]),
            Op::NewSpan(3, ParentKind::Explicit(0), vec![(0, Some(Prim::Bool(true)))]),
            Op::NewSpan(0, ParentKind::Explicit(1), vec![]),
            Op::Event(4, ParentKind::Explicit(1), vec![]),
            Op::Enter(0),
            Op::Clone(1),
            Op::Record(1, vec![(0, Some(Prim::Int(IWidth::W64, 7)))]),
            Op::Follows(2, FollowTarget::Live(1)),
            Op::Follows(1, FollowTarget::Live(0)),
            Op::Drop(1),
            Op::Drop(1),
            Op::Exit(0),
        ],
        s.clone(),
    );
    // a disabled event call site only
    let event_only = single(
        vec![
            Op::NewSpan(0, ParentKind::Ctx, vec![]),
            Op::Enter(0),
            Op::Event(1, ParentKind::Ctx, vec![(1, Some(Prim::UInt(IWidth::W64, 1)))]),
            Op::Event(4, ParentKind::Ctx, vec![]),
            Op::Exit(0),
        ],
        s.clone(),
    );
    let info = HFilter::MaxLevel(TracingLevel::Info);
    vec![
        (wit.clone(), info.clone()),
        (wit.clone(), HFilter::MaxLevel(TracingLevel::Debug)),
        (wit.clone(), HFilter::MaxLevel(TracingLevel::Trace)),
        (wit.clone(), HFilter::MaxLevel(TracingLevel::Error)),
        (wit.clone(), HFilter::Not(Box::new(HFilter::TargetPrefix("c13::db".into())))),
        (wit, HFilter::And(Box::new(HFilter::IsSpan), Box::new(HFilter::Not(Box::new(HFilter::NameIs("detached".into())))))),
        (disabled_parent.clone(), info.clone()),
        (disabled_parent.clone(), HFilter::All),
        (disabled_parent, HFilter::Or(Box::new(HFilter::HasField("x".into())), Box::new(HFilter::NameIs("warning".into())))),
        (event_only.clone(), info),
        (event_only, HFilter::IsSpan),
    ]
}

pub fn run(o: &Opts) {
    let mut sink = Sink::new(&o.out, o.shards, "Judge.C13", o.only.clone());
    let mut idx = 0u64;
    let modes = [Mode::Sometimes, Mode::Static];

    // 1. corpus (incl. the witness of the known class), in both interest modes
    for (prog, f) in corpus13() {
        for mode in modes {
            filter_case(&mut sink, idx, "corpus", &prog, &f, mode);
            idx += 1;
        }
    }
    // the corpus of C01 (explicit roots outside entered spans only) under two level thresholds
    for prog in corpus("c13") {
        if in_root_class(&prog) {
            continue;
        }
        for (k, l) in [TracingLevel::Info, TracingLevel::Trace].into_iter().enumerate() {
            filter_case(&mut sink, idx, "corpus-c01", &prog, &HFilter::MaxLevel(l), modes[k % 2]);
            idx += 1;
        }
    }

    // 2. small scope: every well-formed op sequence up to length L on two spans (a DEBUG span call
    //    site and a WARN event call site) under INFO (span disabled), ERROR (both disabled) and DEBUG
    let len = if o.thorough { 4 } else { 3 };
    let small_sites = vec![
        site(CallSiteKind::Span, "s", "c13::small", TracingLevel::Debug, &["a"]),
        site(CallSiteKind::Event, "e", "c13::small", TracingLevel::Warn, &["a"]),
    ];
    for (n, ops) in small_scope(len, false).into_iter().enumerate() {
        let prog = single(ops, small_sites.clone());
        let l = [TracingLevel::Info, TracingLevel::Error, TracingLevel::Debug][n % 3];
        filter_case(&mut sink, idx, "small-scope", &prog, &HFilter::MaxLevel(l), modes[(n / 3) % 2]);
        idx += 1;
    }

    // 3. random programs x 3 random filters built from the program's own call sites
    let n_progs = if o.thorough { 15_000 } else { 450 } * o.scale;
    for _ in 0..n_progs {
        let mut r = Rng::for_case(o.seed, "C13-balanced", idx);
        let wanted = (0..3).any(|k| sink.wants(idx + k));
        if wanted {
            let mut cfg = GenCfg::balanced("c13");
            cfg.explicit_roots = false; // the known class of C01 is not this property's subject
            let prog = gen_prog(&mut r, &cfg);
            for k in 0..3u64 {
                let f = if k == 0 { HFilter::MaxLevel(*r.pick(&LEVELS)) } else { gen_filter(&mut r, &prog.sites) };
                let mode = modes[r.below(2) as usize];
                filter_case(&mut sink, idx + k, "random", &prog, &f, mode);
            }
        }
        idx += 3;
    }

    sink.finish(
        "one case = one guest program and one host filter (metadata predicate); the program is executed with the real tracing \
         API natively under a recording Subscriber enabling everything, natively under a recording Subscriber answering \
         enabled / register_callsite (interest sometimes, or always/never + max_level_hint) from the predicate, and under a real \
         TracingEventSender whose events (JSON round trip) are replayed through a real TracingEventReceiver into a recording \
         Subscriber with the same predicate; the same under Registry + CaptureLayer + predicate layer with the storages compared. \
         The judge compares the three logs with the model and evaluates the property on the implementation's own logs (nothing \
         rejected; filtered native trace = tunnel trace restricted to enabled call sites; tunnel trace = filtered native trace; \
         snapshots equal); inside the known class host-filter-ignored the failure must be the recorded one (the host receives \
         the unfiltered trace). corpus incl. the witness; small scope under three thresholds; random programs x 3 filters. \
         non-trivial = at least 3 host calls behind the tunnel; distinct = distinct (filter, program)",
        serde_json::json!({ "small_scope_len": len, "call_sites_built": sites_built() }),
    );
}
