//! Guest interpreter (layer L0): programs over the `tracing` API, mirrored from
//! `coq/theories/Guest/Program.v`, executed with the real `tracing` / `tracing-core` API on
//! dynamically built call sites; Gallina printers; a generator of well-formed programs.
//!
//! Shared by C01 C05 C12 C13 C14 C16 C19.  Trusted harness code: the dynamic call sites and the
//! replica of what `span!` / `event!` do before creating a span / event (tracing 0.1.41
//! `macros.rs`, `__macro_support::__is_enabled`).
#![allow(dead_code)]

use std::{
    collections::HashMap,
    error::Error,
    fmt,
    sync::{
        atomic::{AtomicU8, Ordering},
        Mutex, Once, OnceLock,
    },
};

use tracing::{
    field::{DebugValue, DisplayValue},
    Span,
};
use tracing_core::{
    callsite::Callsite,
    field::{Field, FieldSet, Value, ValueSet},
    identify_callsite,
    metadata::LevelFilter,
    span::Id,
    subscriber::Interest,
    Event, Kind, Level, Metadata,
};
use tracing_tunnel::{CallSiteData, CallSiteKind, TracingLevel};

use crate::{
    coq::{ccs, clist, cn, copt, cstr, cz},
    rng::Rng,
};

// ---- mirror types of Guest/Program.v ---------------------------------------------------------

#[derive(Clone, Copy, Debug, PartialEq, Eq)]
pub enum IWidth {
    W8,
    W16,
    W32,
    W64,
    W128,
    WSize,
}
pub const WIDTHS: [IWidth; 6] = [IWidth::W8, IWidth::W16, IWidth::W32, IWidth::W64, IWidth::W128, IWidth::WSize];

impl IWidth {
    pub fn bits(self) -> u32 {
        match self {
            IWidth::W8 => 8,
            IWidth::W16 => 16,
            IWidth::W32 => 32,
            IWidth::W64 => 64,
            IWidth::W128 => 128,
            IWidth::WSize => usize::BITS,
        }
    }
    pub fn int_min(self) -> i128 {
        if self.bits() == 128 { i128::MIN } else { -(1i128 << (self.bits() - 1)) }
    }
    pub fn int_max(self) -> i128 {
        if self.bits() == 128 { i128::MAX } else { (1i128 << (self.bits() - 1)) - 1 }
    }
    pub fn uint_max(self) -> u128 {
        if self.bits() == 128 { u128::MAX } else { (1u128 << self.bits()) - 1 }
    }
    fn coq(self) -> &'static str {
        match self {
            IWidth::W8 => "W8",
            IWidth::W16 => "W16",
            IWidth::W32 => "W32",
            IWidth::W64 => "W64",
            IWidth::W128 => "W128",
            IWidth::WSize => "WSize",
        }
    }
}

/// An object with different `Display` and `Debug` renderings.
#[derive(Clone, PartialEq, Eq)]
pub struct Obj {
    pub display: String,
    pub debug: String,
}
impl fmt::Display for Obj {
    fn fmt(&self, f: &mut fmt::Formatter<'_>) -> fmt::Result {
        write_mixed(f, &self.display)
    }
}
impl fmt::Debug for Obj {
    fn fmt(&self, f: &mut fmt::Formatter<'_>) -> fmt::Result {
        // hostile renderings (C16): while a hook is installed on this thread, rendering the object
        // whose debug text is the trigger runs the hook first (it emits a tracing event, or panics)
        DEBUG_EFFECT.with(|e| {
            if let Some((trigger, effect)) = &*e.borrow() {
                if *trigger == self.debug {
                    effect();
                }
            }
        });
        // the general form: a hook that is told every text rendered on this thread (cloned out of the
        // cell first: what it does may render further objects)
        let hook = DEBUG_HOOK.with(|h| h.borrow().clone());
        if let Some(hook) = hook {
            // a value that misbehaves does so half-way through its text
            let mut cut = self.debug.len() / 2;
            while !self.debug.is_char_boundary(cut) {
                cut += 1;
            }
            f.write_str(&self.debug[..cut])?;
            hook(&self.debug);
            return f.write_str(&self.debug[cut..]);
        }
        write_mixed(f, &self.debug)
    }
}

thread_local! {
    /// see `impl Debug for Obj`
    pub static DEBUG_HOOK: std::cell::RefCell<Option<std::rc::Rc<dyn Fn(&str)>>> = const { std::cell::RefCell::new(None) };
}

thread_local! {
    /// `(debug text that triggers, what happens before it is rendered)`; see `impl Debug for Obj`.
    pub static DEBUG_EFFECT: std::cell::RefCell<Option<(String, Box<dyn Fn()>)>> = const { std::cell::RefCell::new(None) };
}

/// A primitive value a program records.  `Int`/`UInt` must be in the range of their width.
#[derive(Clone, Debug, PartialEq)]
pub enum Prim {
    Int(IWidth, i128),
    UInt(IWidth, u128),
    F32(f32),
    F64(f64),
    Bool(bool),
    /// `owned`: recorded as a `String` rather than a `&str` (same model value `PStr`)
    Str { s: String, owned: bool },
    /// recorded with `%` (`tracing::field::display`); the model sees `obj.display`
    Display(Obj),
    /// recorded with `?` (`tracing::field::debug`); the model sees `obj.debug`
    Debug(Obj),
    /// `&dyn Error`: message of the outermost error, then the messages of its source chain
    Error(String, Vec<String>),
}

#[derive(Clone, Copy, Debug, PartialEq, Eq)]
pub enum ParentKind {
    Ctx,
    Root,
    Explicit(usize),
}
#[derive(Clone, Copy, Debug, PartialEq, Eq)]
pub enum FollowTarget {
    Live(usize),
    Stale(u64),
}
/// (field index in the call site, `None` = `Empty`)
pub type ValSet = Vec<(usize, Option<Prim>)>;

#[derive(Clone, Debug, PartialEq)]
pub enum Op {
    NewSpan(usize, ParentKind, ValSet),
    Record(usize, ValSet),
    Enter(usize),
    Exit(usize),
    Clone(usize),
    Drop(usize),
    Follows(usize, FollowTarget),
    Event(usize, ParentKind, ValSet),
}
impl Op {
    pub fn name(&self) -> &'static str {
        match self {
            Op::NewSpan(..) => "new_span",
            Op::Record(..) => "record",
            Op::Enter(..) => "enter",
            Op::Exit(..) => "exit",
            Op::Clone(..) => "clone",
            Op::Drop(..) => "drop",
            Op::Follows(..) => "follows_from",
            Op::Event(..) => "event",
        }
    }
}

#[derive(Clone, Debug)]
pub struct Prog {
    pub sites: Vec<CallSiteData>,
    /// (thread id, op); thread 0 for single-threaded programs
    pub ops: Vec<(usize, Op)>,
}

// ---- Gallina printers ------------------------------------------------------------------------

pub fn cprim(p: &Prim) -> String {
    match p {
        Prim::Int(w, z) => format!("(PInt {} {})", w.coq(), cz(z)),
        Prim::UInt(w, z) => format!("(PUInt {} {})", w.coq(), cz(z)),
        Prim::F32(f) => format!("(PF32 {})", cn((*f as f64).to_bits())),
        Prim::F64(f) => format!("(PF64 {})", cn(f.to_bits())),
        Prim::Bool(b) => format!("(PBool {})", if *b { "true" } else { "false" }),
        Prim::Str { s, .. } => format!("(PStr {})", cstr(s)),
        Prim::Display(o) => format!("(PDisplay {})", cstr(&o.display)),
        Prim::Debug(o) => format!("(PDebug {})", cstr(&o.debug)),
        Prim::Error(m, chain) => format!("(PError {} {})", cstr(m), clist(chain.iter(), |s| cstr(s))),
    }
}
pub fn cvalset(vs: &ValSet) -> String {
    clist(vs.iter(), |(i, p)| format!("({}%nat, {})", i, copt(p.as_ref(), cprim)))
}
fn cparent(p: &ParentKind) -> String {
    match p {
        ParentKind::Ctx => "PKCtx".into(),
        ParentKind::Root => "PKRoot".into(),
        ParentKind::Explicit(k) => format!("(PKExplicit {k})"),
    }
}
pub fn cop(op: &Op) -> String {
    match op {
        Op::NewSpan(cs, p, vs) => format!("(ONewSpan {cs} {} {})", cparent(p), cvalset(vs)),
        Op::Record(k, vs) => format!("(ORecord {k} {})", cvalset(vs)),
        Op::Enter(k) => format!("(OEnter {k})"),
        Op::Exit(k) => format!("(OExit {k})"),
        Op::Clone(k) => format!("(OClone {k})"),
        Op::Drop(k) => format!("(ODrop {k})"),
        Op::Follows(k, FollowTarget::Live(j)) => format!("(OFollows {k} (FLive {j}))"),
        Op::Follows(k, FollowTarget::Stale(raw)) => format!("(OFollows {k} (FStale {raw}))"),
        Op::Event(cs, p, vs) => format!("(OEvent {cs} {} {})", cparent(p), cvalset(vs)),
    }
}
/// `mk_prog [sites] [(tid, op); ..]` (call sites are interned by `ccs` when interning is active)
pub fn cprog(p: &Prog) -> String {
    format!(
        "(mk_prog {} {})",
        clist(p.sites.iter(), ccs),
        clist(p.ops.iter(), |(tid, op)| format!("({tid}%nat, {})", cop(op)))
    )
}

// ---- dynamic call sites ----------------------------------------------------------------------

const INTEREST_NEVER: u8 = 0;
const INTEREST_SOMETIMES: u8 = 1;
const INTEREST_ALWAYS: u8 = 2;

/// A call site built at run time.  Like `DefaultCallsite`, it registers itself with tracing-core on
/// the first `interest()` query (i.e. under the dispatcher(s) live at its first use), caches the
/// `Interest` tracing-core computes for it, and has that cache rebuilt whenever a dispatcher is
/// created or dropped.
pub struct DynSite {
    interest: AtomicU8,
    registration: Once,
    meta: OnceLock<Metadata<'static>>,
    pub data: CallSiteData,
}

impl Callsite for DynSite {
    fn set_interest(&self, interest: Interest) {
        let v = if interest.is_never() {
            INTEREST_NEVER
        } else if interest.is_always() {
            INTEREST_ALWAYS
        } else {
            INTEREST_SOMETIMES
        };
        self.interest.store(v, Ordering::SeqCst);
    }
    fn metadata(&self) -> &Metadata<'_> {
        self.meta.get().expect("call site metadata is set before the site is published")
    }
}

impl DynSite {
    pub fn metadata(&'static self) -> &'static Metadata<'static> {
        self.meta.get().expect("call site metadata")
    }
    /// `DefaultCallsite::interest`: registers on first use, then reads the cached interest.
    pub fn interest(&'static self) -> Interest {
        self.registration.call_once(|| tracing_core::callsite::register(self));
        match self.interest.load(Ordering::SeqCst) {
            INTEREST_NEVER => Interest::never(),
            INTEREST_ALWAYS => Interest::always(),
            _ => Interest::sometimes(),
        }
    }
    /// What `span!` / `event!` evaluate before they create anything:
    /// `level_enabled!(lvl) && { interest = CALLSITE.interest(); !interest.is_never() }
    ///  && __is_enabled(meta, interest)`, where `__is_enabled` is
    /// `interest.is_always() || dispatcher::get_default(|d| d.enabled(meta))`.
    /// (`STATIC_MAX_LEVEL` is TRACE in this build: no `max_level_*` feature.)
    pub fn is_enabled(&'static self) -> bool {
        let meta = self.metadata();
        if !(*meta.level() <= tracing::level_filters::STATIC_MAX_LEVEL && *meta.level() <= LevelFilter::current()) {
            return false;
        }
        let interest = self.interest();
        if interest.is_never() {
            return false;
        }
        interest.is_always() || tracing::dispatcher::get_default(|d| d.enabled(meta))
    }
    /// the `Field`s of the call site, by declaration index (names may repeat)
    pub fn fields(&'static self) -> Vec<Field> {
        self.metadata().fields().iter().collect()
    }
}

fn leak_str(s: &str) -> &'static str {
    Box::leak(s.to_owned().into_boxed_str())
}
pub fn level_of(l: TracingLevel) -> Level {
    match l {
        TracingLevel::Error => Level::ERROR,
        TracingLevel::Warn => Level::WARN,
        TracingLevel::Info => Level::INFO,
        TracingLevel::Debug => Level::DEBUG,
        TracingLevel::Trace => Level::TRACE,
    }
}

fn build_site(data: &CallSiteData) -> &'static DynSite {
    let site: &'static DynSite = Box::leak(Box::new(DynSite {
        interest: AtomicU8::new(INTEREST_SOMETIMES),
        registration: Once::new(),
        meta: OnceLock::new(),
        data: data.clone(),
    }));
    let names: Vec<&'static str> = data.fields.iter().map(|f| leak_str(f)).collect();
    let names: &'static [&'static str] = Box::leak(names.into_boxed_slice());
    let meta = Metadata::new(
        leak_str(&data.name),
        leak_str(&data.target),
        level_of(data.level),
        data.file.as_deref().map(leak_str),
        data.line,
        data.module_path.as_deref().map(leak_str),
        FieldSet::new(names, identify_callsite!(site)),
        match data.kind {
            CallSiteKind::Span => Kind::SPAN,
            CallSiteKind::Event => Kind::EVENT,
        },
    );
    if site.meta.set(meta).is_err() {
        unreachable!("fresh call site");
    }
    site
}

fn site_cache() -> &'static Mutex<HashMap<String, &'static DynSite>> {
    static CACHE: OnceLock<Mutex<HashMap<String, &'static DynSite>>> = OnceLock::new();
    CACHE.get_or_init(Default::default)
}
fn cached_site(data: &CallSiteData, occurrence: usize) -> &'static DynSite {
    let key = format!("{data:?}#{occurrence}");
    let mut cache = site_cache().lock().unwrap();
    *cache.entry(key).or_insert_with(|| build_site(data))
}
/// The call site for this description; the same description yields the same (leaked) call site
/// for the rest of the harness run, so repeated programs do not leak unboundedly.
pub fn make_site(data: &CallSiteData) -> &'static DynSite {
    cached_site(data, 0)
}
/// The call sites of a program's pool.  Equal descriptions at different pool positions are
/// different call sites (as two macro invocations with equal metadata would be).
pub fn make_sites(sites: &[CallSiteData]) -> Vec<&'static DynSite> {
    let mut seen: HashMap<String, usize> = HashMap::new();
    sites
        .iter()
        .map(|d| {
            let n = seen.entry(format!("{d:?}")).or_insert(0);
            let site = cached_site(d, *n);
            *n += 1;
            site
        })
        .collect()
}
/// Number of call sites leaked so far in this process.
pub fn sites_built() -> usize {
    site_cache().lock().unwrap().len()
}

// ---- value sets ------------------------------------------------------------------------------

/// Error with a message and an optional source; its `Debug` output differs from its message.
pub struct ChainError {
    msg: String,
    source: Option<Box<ChainError>>,
}
impl ChainError {
    pub fn new(msg: &str, chain: &[String]) -> Self {
        let source = chain.split_first().map(|(m, rest)| Box::new(ChainError::new(m, rest)));
        ChainError { msg: msg.to_owned(), source }
    }
}
impl fmt::Display for ChainError {
    fn fmt(&self, f: &mut fmt::Formatter<'_>) -> fmt::Result {
        f.write_str(&self.msg)
    }
}
impl fmt::Debug for ChainError {
    fn fmt(&self, f: &mut fmt::Formatter<'_>) -> fmt::Result {
        write!(f, "ChainError<{}>", self.msg)
    }
}
impl Error for ChainError {
    fn source(&self) -> Option<&(dyn Error + 'static)> {
        self.source.as_deref().map(|e| e as &(dyn Error + 'static))
    }
}

/// The same chains with every source stored INLINE, as the first field of its wrapper (`repr(C)`): the
/// wrapper and its source then have the same address, as newtype-style error wrappers do.
#[repr(C)]
struct InlineError<E> {
    source: E,
    msg: String,
}
impl<E> fmt::Display for InlineError<E> {
    fn fmt(&self, f: &mut fmt::Formatter<'_>) -> fmt::Result {
        f.write_str(&self.msg)
    }
}
impl<E> fmt::Debug for InlineError<E> {
    fn fmt(&self, f: &mut fmt::Formatter<'_>) -> fmt::Result {
        write!(f, "InlineError<{}>", self.msg)
    }
}
impl<E: Error + 'static> Error for InlineError<E> {
    fn source(&self) -> Option<&(dyn Error + 'static)> {
        Some(&self.source)
    }
}
fn inline_error(msg: &str, chain: &[String]) -> Option<Box<dyn Error + 'static>> {
    let leaf = |m: &str| ChainError { msg: m.to_owned(), source: None };
    let wrap = |m: &str| m.to_owned();
    Some(match chain {
        [] => return None,
        [a] => Box::new(InlineError { source: leaf(a), msg: wrap(msg) }),
        [a, b] => Box::new(InlineError { source: InlineError { source: leaf(b), msg: wrap(a) }, msg: wrap(msg) }),
        [a, b, c] => Box::new(InlineError {
            source: InlineError { source: InlineError { source: leaf(c), msg: wrap(b) }, msg: wrap(a) },
            msg: wrap(msg),
        }),
        [a, b, c, d] => Box::new(InlineError {
            source: InlineError { source: InlineError { source: InlineError { source: leaf(d), msg: wrap(c) }, msg: wrap(b) }, msg: wrap(a) },
            msg: wrap(msg),
        }),
        _ => return None,
    })
}

/// A real Rust value of the type a `Prim` stands for.
enum Held {
    I8(i8),
    I16(i16),
    I32(i32),
    I64(i64),
    I128(i128),
    ISize(isize),
    U8(u8),
    U16(u16),
    U32(u32),
    U64(u64),
    U128(u128),
    USize(usize),
    F32(f32),
    F64(f64),
    Bool(bool),
    StrRef(String),
    StrOwned(String),
    Display(DisplayValue<Obj>),
    Debug(DebugValue<Obj>),
    Error(Box<dyn Error + 'static>),
}

fn hold(p: &Prim) -> Held {
    fn fit<T: TryFrom<i128>>(z: i128) -> T {
        T::try_from(z).ok().expect("signed value in range of its width")
    }
    fn ufit<T: TryFrom<u128>>(z: u128) -> T {
        T::try_from(z).ok().expect("unsigned value in range of its width")
    }
    match p {
        Prim::Int(IWidth::W8, z) => Held::I8(fit(*z)),
        Prim::Int(IWidth::W16, z) => Held::I16(fit(*z)),
        Prim::Int(IWidth::W32, z) => Held::I32(fit(*z)),
        Prim::Int(IWidth::W64, z) => Held::I64(fit(*z)),
        Prim::Int(IWidth::W128, z) => Held::I128(*z),
        Prim::Int(IWidth::WSize, z) => Held::ISize(fit(*z)),
        Prim::UInt(IWidth::W8, z) => Held::U8(ufit(*z)),
        Prim::UInt(IWidth::W16, z) => Held::U16(ufit(*z)),
        Prim::UInt(IWidth::W32, z) => Held::U32(ufit(*z)),
        Prim::UInt(IWidth::W64, z) => Held::U64(ufit(*z)),
        Prim::UInt(IWidth::W128, z) => Held::U128(*z),
        Prim::UInt(IWidth::WSize, z) => Held::USize(ufit(*z)),
        Prim::F32(f) => Held::F32(*f),
        Prim::F64(f) => Held::F64(*f),
        Prim::Bool(b) => Held::Bool(*b),
        Prim::Str { s, owned: false } => Held::StrRef(s.clone()),
        Prim::Str { s, owned: true } => Held::StrOwned(s.clone()),
        Prim::Display(o) => Held::Display(tracing::field::display(o.clone())),
        Prim::Debug(o) => Held::Debug(tracing::field::debug(o.clone())),
        // chains of 1..=4 sources are built with inline sources when the messages' total length is odd
        // (a deterministic choice that the model does not see), with boxed sources otherwise
        Prim::Error(m, chain) => {
            let odd = (m.len() + chain.iter().map(String::len).sum::<usize>()) % 2 == 1;
            match (odd, inline_error(m, chain)) {
                (true, Some(e)) => Held::Error(e),
                _ => Held::Error(Box::new(ChainError::new(m, chain))),
            }
        }
    }
}

/// Values that are recorded through a reference to a reference (`&str`, `&dyn Error`), as the
/// macros do for `field = some_str` / `field = err as &dyn Error`.
enum Borrowed<'a> {
    None,
    Str(&'a str),
    Err(&'a (dyn Error + 'static)),
}

macro_rules! with_array {
    ($fields:expr, $entries:expr, $f:expr, [$($n:expr,)+]) => {
        match $entries.len() {
            0 => $f(&$fields.value_set(&[])),
            $(
            $n => $f(&$fields.value_set(<&[(&Field, Option<&dyn Value>); $n]>::try_from($entries).unwrap())),
            )+
            n => panic!("a ValueSet has at most 32 entries, got {n}"),
        }
    };
}

/// Builds the `ValueSet` for `vals` on `site` (entries in the given order; `None` = `Empty`, i.e.
/// `None::<&dyn Value>`) and calls `f` with it.
pub fn with_value_set<R>(site: &'static DynSite, vals: &[(usize, Option<Prim>)], f: impl FnOnce(&ValueSet<'_>) -> R) -> R {
    let fields: Vec<Field> = site.fields();
    let held: Vec<Option<Held>> = vals.iter().map(|(_, p)| p.as_ref().map(hold)).collect();
    let borrowed: Vec<Borrowed<'_>> = held
        .iter()
        .map(|h| match h {
            Some(Held::StrRef(s)) => Borrowed::Str(s.as_str()),
            Some(Held::Error(e)) => Borrowed::Err(e.as_ref()),
            _ => Borrowed::None,
        })
        .collect();
    let entries: Vec<(&Field, Option<&dyn Value>)> = vals
        .iter()
        .zip(held.iter().zip(borrowed.iter()))
        .map(|((i, _), (h, b))| {
            let v: Option<&dyn Value> = match (h, b) {
                (None, _) => None,
                (Some(_), Borrowed::Str(s)) => Some(s as &dyn Value),
                (Some(_), Borrowed::Err(e)) => Some(e as &dyn Value),
                (Some(h), Borrowed::None) => Some(match h {
                    Held::I8(v) => v as &dyn Value,
                    Held::I16(v) => v,
                    Held::I32(v) => v,
                    Held::I64(v) => v,
                    Held::I128(v) => v,
                    Held::ISize(v) => v,
                    Held::U8(v) => v,
                    Held::U16(v) => v,
                    Held::U32(v) => v,
                    Held::U64(v) => v,
                    Held::U128(v) => v,
                    Held::USize(v) => v,
                    Held::F32(v) => v,
                    Held::F64(v) => v,
                    Held::Bool(v) => v,
                    Held::StrOwned(v) => v,
                    Held::Display(v) => v,
                    Held::Debug(v) => v,
                    Held::StrRef(_) | Held::Error(_) => unreachable!("recorded through Borrowed"),
                }),
            };
            (&fields[*i], v)
        })
        .collect();
    let entries: &[(&Field, Option<&dyn Value>)] = &entries;
    let fieldset = site.metadata().fields();
    with_array!(
        fieldset,
        entries,
        f,
        [1, 2, 3, 4, 5, 6, 7, 8, 9, 10, 11, 12, 13, 14, 15, 16, 17, 18, 19, 20, 21, 22, 23, 24, 25, 26, 27, 28, 29, 30, 31, 32,]
    )
}

// ---- execution -------------------------------------------------------------------------------

#[derive(Default)]
pub struct ExecResult {
    /// creation index -> live handles of that span (empty once all are dropped); disabled spans
    /// hold `Span::none()` handles
    pub handles: Vec<Vec<Span>>,
    /// creation index -> the span was enabled (has an id)
    pub enabled: Vec<bool>,
    /// creation index -> call-site index
    pub span_sites: Vec<usize>,
    pub ops_run: usize,
    /// ops of threads other than 0 (not executed yet)
    pub ops_skipped: usize,
    pub events_dispatched: usize,
    pub events_disabled: usize,
    /// variant execution: an explicit-root event is emitted with the id of a span the `Registry`
    /// has already closed as its explicit parent (`event!(parent: stale_id, ..)`) when there is one
    pub stale_roots: bool,
    /// ids of spans whose last handle was dropped
    pub dead_ids: Vec<Id>,
    /// how many events were emitted with a stale explicit parent
    pub stale_used: usize,
}

/// An id among `dead` that the `Registry` under the current dispatcher no longer knows.
fn closed_id(dead: &[Id]) -> Option<Id> {
    tracing::dispatcher::get_default(|d| {
        let registry = d.downcast_ref::<tracing_subscriber::Registry>()?;
        dead.iter().find(|id| tracing_subscriber::registry::LookupSpan::span(registry, id).is_none()).cloned()
    })
}

impl ExecResult {
    /// Leaks the remaining handles.  Call this AFTER the observations have been taken, still
    /// inside the dispatcher scope or not: a leaked handle never calls `try_close`.
    pub fn leak(mut self) {
        for hs in std::mem::take(&mut self.handles) {
            for h in hs {
                std::mem::forget(h);
            }
        }
    }
    pub fn live_handles(&self) -> usize {
        self.handles.iter().map(Vec::len).sum()
    }
}

/// Runs the ops of thread 0 under the CURRENT default dispatcher (the caller installs it, e.g.
/// with `tracing::subscriber::with_default`).  The program must be well-formed (`wf_prog_b`).
/// Remaining handles are returned alive: drop them inside the dispatcher scope, or `leak()` them
/// after taking observations.
///
/// Extension point for multi-threaded programs: partition `prog.ops` by thread id and run each
/// partition on its own thread with a shared handle table (`Span` is `Send + Sync`); the per-op
/// code below does not depend on the thread.
pub fn exec(prog: &Prog) -> ExecResult {
    let sites = make_sites(&prog.sites);
    exec_on(prog, &sites)
}

pub fn exec_on(prog: &Prog, sites: &[&'static DynSite]) -> ExecResult {
    let mut r = ExecResult::default();
    for (tid, op) in &prog.ops {
        if *tid != 0 {
            r.ops_skipped += 1;
            continue;
        }
        exec_op(&mut r, sites, op);
        r.ops_run += 1;
    }
    r
}

fn handle(r: &ExecResult, k: usize) -> &Span {
    r.handles[k].last().expect("op on a span without a live handle (ill-formed program)")
}

pub fn exec_op(r: &mut ExecResult, sites: &[&'static DynSite], op: &Op) {
    match op {
        Op::NewSpan(cs, parent, vals) => {
            let site = sites[*cs];
            let span = if site.is_enabled() {
                let meta = site.metadata();
                with_value_set(site, vals, |vs| match parent {
                    ParentKind::Ctx => Span::new(meta, vs),
                    ParentKind::Root => Span::new_root(meta, vs),
                    // `span!(parent: &p, ..)`: `&Span: Into<Option<Id>>`; a disabled parent gives
                    // `None`, which `child_of` turns into an explicit ROOT
                    ParentKind::Explicit(k) => Span::child_of(handle(r, *k).id(), meta, vs),
                })
            } else {
                Span::none() // `__disabled_span` without the `log` feature
            };
            r.enabled.push(span.id().is_some());
            r.span_sites.push(*cs);
            r.handles.push(vec![span]);
        }
        Op::Record(k, vals) => {
            let site = sites[r.span_sites[*k]];
            let span = handle(r, *k);
            with_value_set(site, vals, |vs| {
                span.record_all(vs);
            });
        }
        // what `Span::enter` / dropping `Entered` do, without the borrow
        Op::Enter(k) => {
            handle(r, *k).with_subscriber(|(id, d)| d.enter(id));
        }
        Op::Exit(k) => {
            handle(r, *k).with_subscriber(|(id, d)| d.exit(id));
        }
        Op::Clone(k) => {
            let c = handle(r, *k).clone();
            r.handles[*k].push(c);
        }
        Op::Drop(k) => {
            let h = r.handles[*k].pop().expect("drop of a span without a live handle");
            let id = h.id();
            drop(h);
            if r.handles[*k].is_empty() {
                r.dead_ids.extend(id);
            }
        }
        Op::Follows(k, FollowTarget::Live(j)) => {
            handle(r, *k).follows_from(handle(r, *j).id());
        }
        Op::Follows(k, FollowTarget::Stale(raw)) => {
            handle(r, *k).follows_from(Id::from_u64(*raw));
        }
        Op::Event(cs, parent, vals) => {
            let site = sites[*cs];
            if site.is_enabled() {
                let meta = site.metadata();
                let stale = if r.stale_roots && matches!(parent, ParentKind::Root) { closed_id(&r.dead_ids) } else { None };
                with_value_set(site, vals, |vs| match parent {
                    ParentKind::Ctx => Event::dispatch(meta, vs),
                    // `event!(parent: None, ..)`: explicit root; in the variant execution, an explicit
                    // parent that no longer exists
                    ParentKind::Root => Event::child_of(stale.clone(), meta, vs),
                    ParentKind::Explicit(k) => Event::child_of(handle(r, *k).id(), meta, vs),
                });
                r.stale_used += usize::from(stale.is_some());
                r.events_dispatched += 1;
            } else {
                r.events_disabled += 1;
            }
        }
    }
}

/// Dropping the interpreter state drops the remaining handles in creation order, as before; but a
/// handle whose `try_close` panics (a capture layer with a poisoned storage, say) must not take the
/// process down: while a panic is already unwinding, and after the first panicking drop, the
/// remaining handles are leaked instead (a second panic during unwinding aborts the process).
impl Drop for ExecResult {
    fn drop(&mut self) {
        let handles = std::mem::take(&mut self.handles);
        if std::thread::panicking() {
            for h in handles.into_iter().flatten() {
                std::mem::forget(h);
            }
            return;
        }
        let mut it = handles.into_iter().flatten();
        while let Some(h) = it.next() {
            if let Err(e) = std::panic::catch_unwind(std::panic::AssertUnwindSafe(move || drop(h))) {
                for rest in it {
                    std::mem::forget(rest);
                }
                std::panic::resume_unwind(e);
            }
        }
    }
}

// ---- generator -------------------------------------------------------------------------------

#[derive(Clone, Debug)]
pub struct GenCfg {
    /// put into the `target` of every call site (keeps cases independent in global registries)
    pub nonce: String,
    pub min_ops: usize,
    pub max_ops: usize,
    /// weights of the op kinds: new_span, record, enter, exit, clone, drop, follows, event
    pub weights: [u64; 8],
    /// probability (percent) that a call site gets many (up to 32) fields instead of 0..=5
    pub wide_sites: u64,
    /// allow `FollowTarget::Stale` (C16; `wf_prog_stale_b`)
    pub stale_follows: bool,
    /// allow `ParentKind::Root` (explicit roots are a known class of C01)
    pub explicit_roots: bool,
    /// `Some(u)`: call sites are drawn from a fixed universe of `2 * u` descriptions (a function of
    /// `nonce` and a template number only), so that long runs do not keep leaking new call sites.
    /// Every call site ever registered is re-announced (`register_callsite`) to every dispatcher
    /// created later in the process, so unbounded site creation makes runs quadratic.
    /// `None`: every program gets fresh random descriptions.
    pub site_universe: Option<u64>,
}

impl GenCfg {
    /// balanced walk over all op kinds
    pub fn balanced(nonce: &str) -> Self {
        GenCfg {
            nonce: nonce.to_owned(),
            min_ops: 1,
            max_ops: 40,
            weights: [18, 10, 16, 14, 6, 14, 4, 18],
            wide_sites: 15,
            stale_follows: false,
            explicit_roots: true,
            site_universe: Some(400),
        }
    }
    /// mostly value-carrying ops (C14)
    pub fn values(nonce: &str) -> Self {
        GenCfg {
            nonce: nonce.to_owned(),
            min_ops: 1,
            max_ops: 8,
            weights: [30, 30, 3, 3, 2, 4, 1, 30],
            wide_sites: 30,
            stale_follows: false,
            explicit_roots: true,
            site_universe: Some(400),
        }
    }
}

const FIELD_NAMES: &[&str] = &["a", "b", "c", "message", "x", "error", "len", "id", "ключ", "f.g", "r#type", ""];
const STRS: &[&str] = &[
    "", "x", "hello world", "ключ", "a\nb", "tab\there", "q\"uote", "42", "true", "\u{1F600}", "back\\slash",
    // longer than any small buffer a renderer may keep on its stack, with characters that `Debug` escapes
    // (two lengths of different parity: see `write_mixed`)
    "a long value: the quick brown fox jumps over the lazy dog, then says \"done\" and leaves\ttabbed \u{2014} ok",
    "a long value: the quick brown fox jumps over the lazy dog, then says \"done\" and leaves\ttabbed \u{2014} ok!",
];

/// The guest's objects write their text the way real `Debug` / `Display` impls do: in one piece, or a
/// short piece, a long piece and then single characters (`<str as Debug>`, padding, `{:?}` of chars ..), depending on
/// the parity of the length.  The text written is the same.
fn write_mixed(f: &mut fmt::Formatter<'_>, s: &str) -> fmt::Result {
    use fmt::Write as _;
    if s.len() % 2 == 0 {
        return f.write_str(s);
    }
    // a short piece, one long piece, then single characters
    let (mut a, mut b) = (s.len() / 6, s.len() * 5 / 6);
    while !s.is_char_boundary(a) {
        a += 1;
    }
    while !s.is_char_boundary(b) {
        b += 1;
    }
    f.write_str(&s[..a])?;
    f.write_str(&s[a..b])?;
    for ch in s[b..].chars() {
        f.write_char(ch)?;
    }
    Ok(())
}
const F64_BITS: &[u64] = &[
    0, 0x8000_0000_0000_0000, 0x3FF0_0000_0000_0000, 0xBFF0_0000_0000_0000, 0x7FF0_0000_0000_0000,
    0xFFF0_0000_0000_0000, 0x7FF8_0000_0000_0000, 0xFFF8_0000_0000_0000, 0x7FF0_0000_0000_0001,
    0x7FEF_FFFF_FFFF_FFFF, 1, 0x8000_0000_0000_0001, 0x000F_FFFF_FFFF_FFFF, 0x0010_0000_0000_0000,
    0x3FB9_9999_9999_999A, 0x7FFF_FFFF_FFFF_FFFF,
];
const F32_BITS: &[u32] = &[
    0, 0x8000_0000, 0x3F80_0000, 0xBF80_0000, 0x7F80_0000, 0xFF80_0000, 0x7FC0_0000, 0xFFC0_0000,
    0x7F80_0001, 0x7F7F_FFFF, 1, 0x8000_0001, 0x007F_FFFF, 0x0080_0000, 0x3DCC_CCCD, 0x7FFF_FFFF,
];

pub fn gen_int(r: &mut Rng, w: IWidth) -> i128 {
    match r.below(8) {
        0 => 0,
        1 => 1,
        2 => -1,
        3 => w.int_min(),
        4 => w.int_max(),
        5 => w.int_min() + 1,
        6 => w.int_max() - 1,
        _ => {
            let raw = r.u128() as i128 >> r.below(127);
            let shift = 128 - w.bits();
            (raw << shift) >> shift >> r.below(u64::from(w.bits()))
        }
    }
}
pub fn gen_uint(r: &mut Rng, w: IWidth) -> u128 {
    match r.below(6) {
        0 => 0,
        1 => 1,
        2 => w.uint_max(),
        3 => w.uint_max() - 1,
        4 => w.uint_max() / 2 + 1,
        _ => (r.u128() & w.uint_max()) >> r.below(u64::from(w.bits())),
    }
}
pub fn gen_obj(r: &mut Rng) -> Obj {
    let d = *r.pick(STRS);
    Obj { display: format!("{d}"), debug: format!("Dbg({d:?})") }
}
pub fn gen_prim(r: &mut Rng) -> Prim {
    match r.below(12) {
        0 | 1 => {
            let w = *r.pick(&WIDTHS);
            Prim::Int(w, gen_int(r, w))
        }
        2 | 3 => {
            let w = *r.pick(&WIDTHS);
            Prim::UInt(w, gen_uint(r, w))
        }
        4 => Prim::F32(f32::from_bits(if r.chance(60) { *r.pick(F32_BITS) } else { r.next() as u32 })),
        5 => Prim::F64(f64::from_bits(if r.chance(60) { *r.pick(F64_BITS) } else { r.next() })),
        6 => Prim::Bool(r.chance(50)),
        7 | 8 => Prim::Str { s: (*r.pick(STRS)).to_owned(), owned: r.chance(50) },
        9 => Prim::Display(gen_obj(r)),
        10 => Prim::Debug(gen_obj(r)),
        _ => {
            let depth = r.range(0, 4);
            let chain = (0..depth).map(|i| format!("{}#{i}", r.pick(STRS))).collect();
            Prim::Error((*r.pick(STRS)).to_owned(), chain)
        }
    }
}

/// A value set for a call site with `nfields` fields: macro-like (all fields in declaration
/// order), a subset in declaration order, a shuffled subset, or arbitrary entries with repeated
/// indices; `Empty` entries mixed in; at most 32 entries.
pub fn gen_valset(r: &mut Rng, nfields: usize) -> ValSet {
    if nfields == 0 {
        return vec![];
    }
    let mut idxs: Vec<usize> = match r.below(10) {
        0..=2 => (0..nfields).collect(),
        3 | 4 => (0..nfields).filter(|_| r.chance(60)).collect(),
        5..=7 => {
            let mut v: Vec<usize> = (0..nfields).filter(|_| r.chance(70)).collect();
            for i in (1..v.len()).rev() {
                let j = r.below(i as u64 + 1) as usize;
                v.swap(i, j);
            }
            v
        }
        _ => {
            let n = r.range(0, (nfields + 3).min(32));
            (0..n).map(|_| r.below(nfields as u64) as usize).collect()
        }
    };
    idxs.truncate(32);
    let empty_pct = *r.pick(&[0u64, 0, 15, 40, 100]);
    idxs.into_iter().map(|i| (i, if r.chance(empty_pct) { None } else { Some(gen_prim(r)) })).collect()
}

pub fn gen_site(r: &mut Rng, cfg: &GenCfg, kind: CallSiteKind, idx: usize) -> CallSiteData {
    let nfields = if r.chance(cfg.wide_sites) { r.range(6, 32) } else { r.range(0, 5) };
    // a small alphabet makes repeated field names frequent
    let alphabet = r.range(1, FIELD_NAMES.len());
    let distinct = r.chance(50);
    let fields: Vec<std::borrow::Cow<'static, str>> = (0..nfields)
        .map(|i| {
            if distinct {
                format!("{}{i}", FIELD_NAMES[i % alphabet]).into()
            } else {
                let base = FIELD_NAMES[r.below(alphabet as u64) as usize];
                if r.chance(30) { format!("{base}{}", r.below(3)).into() } else { base.into() }
            }
        })
        .collect();
    let levels = [TracingLevel::Error, TracingLevel::Warn, TracingLevel::Info, TracingLevel::Debug, TracingLevel::Trace];
    let name = match kind {
        CallSiteKind::Span => format!("span{idx}"),
        CallSiteKind::Event => format!("event src/lib{idx}.rs:{}", 10 + idx),
    };
    CallSiteData {
        kind,
        name: name.into(),
        target: format!("guest::{}::m{}", cfg.nonce, r.below(3)).into(),
        level: *r.pick(&levels),
        module_path: if r.chance(70) { Some(format!("guest::m{}", r.below(3)).into()) } else { None },
        file: if r.chance(70) { Some(format!("src/lib{}.rs", r.below(3)).into()) } else { None },
        line: if r.chance(70) { Some(*r.pick(&[0u32, 1, 42, 65_536, u32::MAX])) } else { None },
        fields,
    }
}

/// Weighted random walk over the op alphabet that keeps the symbolic handle table of
/// `wf_prog_b`, so the program is well-formed by construction; single-threaded (thread 0).
pub fn gen_prog(r: &mut Rng, cfg: &GenCfg) -> Prog {
    // pool of 2..=6 sites, at least one of each kind
    let nsites = r.range(2, 6);
    let mut sites = vec![];
    for i in 0..nsites {
        let kind = match i {
            0 => CallSiteKind::Span,
            1 => CallSiteKind::Event,
            _ => if r.chance(50) { CallSiteKind::Span } else { CallSiteKind::Event },
        };
        let data = match cfg.site_universe {
            Some(u) => {
                let template = r.below(u.max(1));
                let kind_bit = u64::from(matches!(kind, CallSiteKind::Event));
                let mut sr = Rng::for_case(0x517E, "guest-site", 2 * template + kind_bit);
                gen_site(&mut sr, cfg, kind, template as usize)
            }
            None => gen_site(r, cfg, kind, i),
        };
        sites.push(data);
    }
    // a "twin": a second call site that differs from one of the pool in exactly one attribute (what one
    // macro invocation emitting at two levels, or two builds of one crate, produce)
    if r.chance(35) {
        let k = r.below(sites.len() as u64) as usize;
        let mut twin = sites[k].clone();
        match r.below(6) {
            0..=2 => {
                let levels = [TracingLevel::Error, TracingLevel::Warn, TracingLevel::Info, TracingLevel::Debug, TracingLevel::Trace];
                let cur = levels.iter().position(|l| *l == twin.level).unwrap_or(0);
                twin.level = levels[(cur + 1 + r.below(4) as usize) % 5];
            }
            3 => twin.line = Some(twin.line.map_or(7, |l| l.wrapping_add(1))),
            4 => twin.module_path = if twin.module_path.is_some() { None } else { Some("guest::twin".into()) },
            _ => {
                if twin.fields.len() < 32 {
                    twin.fields.push("twin_extra".into());
                } else {
                    twin.fields.pop();
                }
            }
        }
        sites.push(twin);
    }
    let nsites = sites.len();
    let span_sites: Vec<usize> = (0..nsites).filter(|i| matches!(sites[*i].kind, CallSiteKind::Span)).collect();
    let event_sites: Vec<usize> = (0..nsites).filter(|i| matches!(sites[*i].kind, CallSiteKind::Event)).collect();

    // symbolic state
    let mut site_of: Vec<usize> = vec![];
    let mut handles: Vec<u32> = vec![];
    let mut stack: Vec<usize> = vec![];
    // spans whose handles should go away soon (explicit parents of fresh children)
    let mut doomed: Vec<usize> = vec![];

    let n = r.range(cfg.min_ops, cfg.max_ops);
    let mut ops: Vec<Op> = vec![];
    let total: u64 = cfg.weights.iter().sum();
    let mut budget = 64 * (n + 1);
    while ops.len() < n && budget > 0 {
        budget -= 1;
        let live: Vec<usize> = (0..handles.len()).filter(|k| handles[*k] > 0).collect();
        // explicit parents dropped before their children are used
        if let Some(pos) = doomed.iter().position(|k| handles[*k] > 0 && !stack.contains(k)) {
            if r.chance(70) {
                let k = doomed[pos];
                while handles[k] > 0 {
                    ops.push(Op::Drop(k));
                    handles[k] -= 1;
                }
                doomed.swap_remove(pos);
                continue;
            }
        }
        let mut pick = r.below(total);
        let mut kind = 0;
        for (i, w) in cfg.weights.iter().enumerate() {
            if pick < *w {
                kind = i;
                break;
            }
            pick -= *w;
        }
        let parent = |r: &mut Rng, live: &[usize]| -> ParentKind {
            match r.below(10) {
                0..=4 => ParentKind::Ctx,
                5 if cfg.explicit_roots => ParentKind::Root,
                _ if !live.is_empty() => ParentKind::Explicit(*r.pick(live)),
                _ => ParentKind::Ctx,
            }
        };
        match kind {
            0 => {
                let cs = *r.pick(&span_sites);
                let p = parent(r, &live);
                let vals = gen_valset(r, sites[cs].fields.len());
                if let ParentKind::Explicit(k) = p {
                    if r.chance(50) {
                        doomed.push(k);
                    }
                }
                ops.push(Op::NewSpan(cs, p, vals));
                site_of.push(cs);
                handles.push(1);
            }
            1 if !live.is_empty() => {
                let k = *r.pick(&live);
                ops.push(Op::Record(k, gen_valset(r, sites[site_of[k]].fields.len())));
            }
            2 if !live.is_empty() => {
                // re-entrant enters: prefer a span that is already on the stack
                let k = if !stack.is_empty() && r.chance(35) { *r.pick(&stack) } else { *r.pick(&live) };
                if handles[k] > 0 {
                    ops.push(Op::Enter(k));
                    stack.push(k);
                }
            }
            3 if !stack.is_empty() => {
                // mostly LIFO, sometimes any position
                let pos = if r.chance(75) { stack.len() - 1 } else { r.below(stack.len() as u64) as usize };
                let k = stack[pos];
                if handles[k] > 0 {
                    // the model removes the most recent occurrence
                    let last = stack.iter().rposition(|j| *j == k).unwrap();
                    stack.remove(last);
                    ops.push(Op::Exit(k));
                }
            }
            4 if !live.is_empty() => {
                // clone / drop burst
                let k = *r.pick(&live);
                let burst = r.range(1, 4);
                for _ in 0..burst {
                    ops.push(Op::Clone(k));
                    handles[k] += 1;
                }
                let drops = r.range(0, burst);
                for _ in 0..drops {
                    ops.push(Op::Drop(k));
                    handles[k] -= 1;
                }
            }
            5 if !live.is_empty() => {
                let k = *r.pick(&live);
                if handles[k] > 1 || !stack.contains(&k) {
                    ops.push(Op::Drop(k));
                    handles[k] -= 1;
                }
            }
            6 if !live.is_empty() => {
                let k = *r.pick(&live);
                let t = if cfg.stale_follows && r.chance(40) {
                    FollowTarget::Stale(*r.pick(&[1u64, 2, 77, 1 << 40, u64::MAX]))
                } else {
                    FollowTarget::Live(*r.pick(&live))
                };
                ops.push(Op::Follows(k, t));
            }
            7 => {
                let cs = *r.pick(&event_sites);
                let p = parent(r, &live);
                ops.push(Op::Event(cs, p, gen_valset(r, sites[cs].fields.len())));
            }
            _ => {}
        }
    }
    Prog { sites, ops: ops.into_iter().map(|op| (0, op)).collect() }
}

// ---- self-test -------------------------------------------------------------------------------

/// Runs a fib-shaped program natively under `Registry + CaptureLayer` and checks what was
/// captured; also checks the interest replica against a subscriber that disables one call site.
/// Panics (after printing to stderr) on failure.
pub fn selftest() {
    use tracing_capture::{CaptureLayer, SharedStorage};
    use tracing_subscriber::layer::SubscriberExt;

    fn check(cond: bool, what: &str) {
        if !cond {
            eprintln!("guest selftest failed: {what}");
            panic!("guest selftest failed: {what}");
        }
    }
    let site = |kind, name: &str, level, fields: &[&'static str]| CallSiteData {
        kind,
        name: name.to_owned().into(),
        target: "guest::selftest".into(),
        level,
        module_path: Some("guest".into()),
        file: None,
        line: Some(7),
        fields: fields.iter().map(|f| (*f).into()).collect(),
    };
    let prog = Prog {
        sites: vec![
            site(CallSiteKind::Span, "fib", TracingLevel::Info, &["approx", "iter"]),
            site(CallSiteKind::Event, "event lib.rs:14", TracingLevel::Debug, &["message", "current", "current"]),
            site(CallSiteKind::Span, "child", TracingLevel::Trace, &[]),
        ],
        ops: [
            Op::NewSpan(0, ParentKind::Ctx, vec![(0, None), (1, Some(Prim::UInt(IWidth::WSize, 5)))]),
            Op::Enter(0),
            Op::Event(1, ParentKind::Ctx, vec![(0, Some(Prim::Debug(Obj { display: "x".into(), debug: "iteration".into() }))), (1, Some(Prim::UInt(IWidth::W64, 1))), (2, None)]),
            Op::NewSpan(2, ParentKind::Explicit(0), vec![]),
            Op::Event(1, ParentKind::Explicit(1), vec![(2, Some(Prim::Int(IWidth::W8, -1))), (1, Some(Prim::Bool(true)))]),
            Op::Record(0, vec![(0, Some(Prim::F32(1.5)))]),
            Op::Exit(0),
            Op::Drop(1),
            Op::Drop(0),
            Op::Event(1, ParentKind::Root, vec![(0, Some(Prim::Error("outer".into(), vec!["inner".into()])))]),
        ]
        .into_iter()
        .map(|op| (0, op))
        .collect(),
    };

    let storage = SharedStorage::default();
    let subscriber = tracing_subscriber::registry().with(CaptureLayer::new(&storage));
    let result = tracing::subscriber::with_default(subscriber, || {
        let r = exec(&prog);
        (r.ops_run, r.live_handles(), r.events_dispatched, r.enabled.clone())
    });
    check(result == (10, 0, 3, vec![true, true]), "exec counters of the fib program");
    let storage = storage.lock();
    check(storage.all_spans().len() == 2, "two spans captured");
    check(storage.all_events().len() == 3, "three events captured");
    check(storage.root_spans().len() == 1 && storage.root_events().len() == 1, "one root span, one root event");
    let fib = storage.all_spans().next().unwrap();
    check(fib.metadata().name() == "fib" && fib.stats().entered == 1 && fib.stats().exited == 1 && fib.stats().is_closed, "fib span stats");
    check(fib.children().len() == 1 && fib.events().len() == 1, "explicit child and contextual event under fib");
    // (values are not checked here: what is captured from a value set is C14's subject, and a defect
    // there must surface as a verdict, not as a failure of the harness)
    let child = fib.children().next().unwrap();
    check(child.events().len() == 1, "event with an explicit parent under the child span");
    drop(storage);

    // interest replica: a subscriber limited to INFO disables the DEBUG event site and the TRACE span
    let storage = SharedStorage::default();
    let subscriber = tracing_subscriber::registry()
        .with(CaptureLayer::new(&storage))
        .with(tracing_subscriber::filter::LevelFilter::INFO);
    let result = tracing::subscriber::with_default(subscriber, || {
        let r = exec(&prog);
        (r.events_dispatched, r.events_disabled, r.enabled.clone())
    });
    check(result == (0, 3, vec![true, false]), "INFO filter: events disabled, child span disabled");
    let storage = storage.lock();
    check(storage.all_spans().len() == 1 && storage.all_events().len() == 0, "INFO filter: one span, no events");
}
