//! C16: capturing never panics and is independent of other layers in the stack.
//!
//! * `registry`: the Registry model against the real Registry (recording layer), on programs with
//!   stale follows-from targets (`wf_prog_stale_b`);
//! * `stack`: `Registry::default().with(l_1)...with(l_n)`, where the `l_i` are 1-3 `CaptureLayer`s with
//!   independent filters and storages and pass-through layers (an empty `impl Layer`) in any
//!   position.  Panics are caught; afterwards every storage must be lockable.  Every storage is
//!   dumped through the public API and compared with the model of the stack (`corr`) and with the
//!   storage of a run of the same program under that capture layer alone (`ok`), which in turn must be
//!   what the reference specification prescribes.
//!
//! The filter AST, the recording layer, the storage dump and the hand-written programs are those of
//! `c05.rs`, included here as a private module so that cargo feature `c16` implies no other.
#[path = "c05.rs"]
#[allow(dead_code)]
mod base;

use std::panic::{catch_unwind, AssertUnwindSafe};

use tracing_capture::{CaptureLayer, SharedStorage};
use tracing_core::Subscriber;
use tracing_subscriber::{layer::SubscriberExt, registry::LookupSpan, Layer, Registry};
use tracing_tunnel::TracingLevel;

use self::base::{
    bump_prog, cids, corpus, corpus_sites, dump_shared, exec_collect, exec_hostile, gen_filter, registry_case, run_capture,
    show_prog,
    single, FExpr, FilterSpec,
};
use crate::{coq::*, guest::*, out::Sink, rng::Rng, Opts};

/// A layer that overrides nothing.
struct PassLayer;
impl<S: Subscriber> Layer<S> for PassLayer {}

/// A layer that keeps its own data in the extensions of every span (as `fmt` layers, OpenTelemetry
/// layers etc. do) and touches it in every span callback.
struct ExtLayer;
struct ExtLayerData(u64);
impl<S: Subscriber + for<'a> LookupSpan<'a>> Layer<S> for ExtLayer {
    fn on_new_span(&self, _: &tracing_core::span::Attributes<'_>, id: &tracing_core::span::Id, ctx: tracing_subscriber::layer::Context<'_, S>) {
        if let Some(span) = ctx.span(id) {
            // (several layers of this type may be in one stack: `insert` asserts that the type is new)
            let mut extensions = span.extensions_mut();
            if extensions.get_mut::<ExtLayerData>().is_none() {
                extensions.insert(ExtLayerData(0));
            }
        }
    }
    fn on_enter(&self, id: &tracing_core::span::Id, ctx: tracing_subscriber::layer::Context<'_, S>) {
        if let Some(span) = ctx.span(id) {
            if let Some(data) = span.extensions_mut().get_mut::<ExtLayerData>() {
                data.0 += 1;
            }
        }
    }
    fn on_close(&self, id: tracing_core::span::Id, ctx: tracing_subscriber::layer::Context<'_, S>) {
        if let Some(span) = ctx.span(&id) {
            let _ = span.extensions_mut().remove::<ExtLayerData>();
        }
    }
}

/// Other layers of the stack: all of them are pass-through layers for the model.
#[derive(Clone, Copy, Debug, PartialEq)]
enum PassKind {
    /// overrides nothing
    Plain,
    /// overrides nothing, behind a per-layer filter (`Layer::with_filter(LevelFilter)`)
    PerLayerFiltered(u8),
    /// stores its own extension in every span
    Extensions,
}

#[derive(Clone, Debug)]
enum LayerSpec {
    Capture(FilterSpec),
    Pass(PassKind),
}

type BoxLayer<S> = Box<dyn Layer<S> + Send + Sync + 'static>;

/// One layer of the stack, for whatever subscriber type it is put on.
fn mk_layer<S>(spec: &LayerSpec, storages: &mut Vec<SharedStorage>) -> BoxLayer<S>
where
    S: Subscriber + for<'a> LookupSpan<'a> + 'static,
{
    match spec {
        LayerSpec::Pass(PassKind::Plain) => Box::new(PassLayer),
        LayerSpec::Pass(PassKind::PerLayerFiltered(l)) => {
            use tracing_subscriber::filter::LevelFilter;
            let filter = [LevelFilter::ERROR, LevelFilter::WARN, LevelFilter::INFO, LevelFilter::DEBUG, LevelFilter::OFF][*l as usize % 5];
            Box::new(PassLayer.with_filter(filter))
        }
        LayerSpec::Pass(PassKind::Extensions) => Box::new(ExtLayer),
        LayerSpec::Capture(f) => {
            let storage = SharedStorage::default();
            let layer = f.attach(CaptureLayer::new(&storage));
            storages.push(storage);
            Box::new(layer)
        }
    }
}

struct StackOut {
    /// one dump per capture layer, in stack order; `None` = the run panicked or a storage is poisoned
    dumps: Option<Vec<String>>,
    raws: Vec<u64>,
    panicked: bool,
    poisoned: bool,
}

thread_local! {
    /// how `finish_run` executes the program (hostile executions replace it)
    static EXECUTOR: std::cell::Cell<fn(&Prog) -> (ExecResult, Vec<u64>)> = const { std::cell::Cell::new(exec_collect) };
}

fn finish_run<S>(subscriber: S, storages: &[SharedStorage], prog: &Prog) -> StackOut
where
    S: Subscriber + Send + Sync + 'static,
{
    let run = catch_unwind(AssertUnwindSafe(|| {
        tracing::subscriber::with_default(subscriber, || {
            let (r, raws) = EXECUTOR.with(|e| e.get())(prog);
            // snapshots with the remaining handles alive; then the handles go away inside the scope
            let dumps: Vec<Option<String>> = storages.iter().map(|s| dump_shared(s).map(|d| d.0)).collect();
            drop(r);
            (dumps, raws)
        })
    }));
    // whatever happened, every storage must still be lockable
    let poisoned = storages.iter().any(|s| dump_shared(s).is_none());
    match run {
        Ok((dumps, raws)) => {
            let all: Option<Vec<String>> = dumps.into_iter().collect();
            StackOut { dumps: if poisoned { None } else { all }, raws, panicked: false, poisoned }
        }
        Err(_) => StackOut { dumps: None, raws: vec![], panicked: true, poisoned },
    }
}

macro_rules! stack_of {
    ($specs:expr, $storages:expr, $($i:expr),*) => {
        Registry::default()$(.with(mk_layer(&$specs[$i], &mut $storages)))*
    };
}

fn run_stack(prog: &Prog, specs: &[LayerSpec]) -> StackOut {
    let mut st: Vec<SharedStorage> = vec![];
    match specs.len() {
        1 => {
            let s = stack_of!(specs, st, 0);
            finish_run(s, &st, prog)
        }
        2 => {
            let s = stack_of!(specs, st, 0, 1);
            finish_run(s, &st, prog)
        }
        3 => {
            let s = stack_of!(specs, st, 0, 1, 2);
            finish_run(s, &st, prog)
        }
        4 => {
            let s = stack_of!(specs, st, 0, 1, 2, 3);
            finish_run(s, &st, prog)
        }
        5 => {
            let s = stack_of!(specs, st, 0, 1, 2, 3, 4);
            finish_run(s, &st, prog)
        }
        6 => {
            let s = stack_of!(specs, st, 0, 1, 2, 3, 4, 5);
            finish_run(s, &st, prog)
        }
        7 => {
            let s = stack_of!(specs, st, 0, 1, 2, 3, 4, 5, 6);
            finish_run(s, &st, prog)
        }
        n => panic!("stacks of 1..=7 layers only, got {n}"),
    }
}

fn cspec(s: &LayerSpec) -> String {
    match s {
        LayerSpec::Capture(f) => format!("(SCapture {})", f.fexpr().coq()),
        LayerSpec::Pass(_) => "SPass".into(),
    }
}

fn stack_case(sink: &mut Sink, idx: u64, kind: &str, prog: &Prog, specs: &[LayerSpec]) {
    if !sink.wants(idx) {
        return;
    }
    intern_begin();
    let out = run_stack(prog, specs);
    // variant execution (as in C05): every event the program emits as an explicit root is emitted with an
    // explicit parent id that names a span the Registry has closed; "a root if there is none".  Only when
    // the program has such an event and a closed span before it.
    let has_root_event = prog.ops.iter().any(|(_, op)| matches!(op, Op::Event(_, ParentKind::Root, _)));
    let other = if has_root_event && idx % 2 == 0 {
        EXECUTOR.with(|e| e.set(exec_stale));
        let out2 = run_stack(prog, specs);
        EXECUTOR.with(|e| e.set(exec_collect));
        sink.bump("stack:variant-run-with-stale-explicit-parents");
        Some(out2)
    } else {
        None
    };
    stack_case_with(sink, idx, kind, prog, specs, out, other);
}

fn exec_stale(prog: &Prog) -> (ExecResult, Vec<u64>) {
    base::exec_collect_with(prog, true)
}

/// the case for a stack run that has already happened; `other`: a second run of the same stack that
/// must behave alike (judged too, the case gets the worse verdict: `vworst`, Base/Worst.v)
fn stack_case_with(sink: &mut Sink, idx: u64, kind: &str, prog: &Prog, specs: &[LayerSpec], out: StackOut, other: Option<StackOut>) {
    let key = format!("{} {}", cprog(prog), clist(specs.iter(), cspec));
    intern_begin();
    // the same program under each capture layer alone
    let mut singles = vec![];
    for s in specs {
        if let LayerSpec::Capture(f) = s {
            let (dump, raws, _, _) = run_capture(prog, f);
            // a fresh Registry issues the same ids for the same program; when it does not (a layer of the
            // stack disabled a span for the whole subscriber, say) the judge sees it in the storages
            if dump.is_some() && !out.panicked && raws != out.raws {
                sink.bump("stack:raw-ids-differ-from-single-layer-run");
            }
            singles.push(dump);
        }
    }
    let raws = if out.panicked { singles_raws(prog) } else { out.raws.clone() };
    let term_of = |o: &StackOut| {
        format!(
            "judge_stack {} {} {} {} {}",
            cprog(prog),
            cids(&raws),
            clist(specs.iter(), cspec),
            match &o.dumps {
                Some(ds) => format!("(Some {})", clist(ds.iter(), |d| d.clone())),
                None => "None".into(),
            },
            clist(singles.iter(), |d| copt(d.as_ref(), |t| t.clone()))
        )
    };
    let term = match &other {
        Some(o2) => format!("vworst ({}) ({})", term_of(&out), term_of(o2)),
        None => term_of(&out),
    };
    let judge = intern_wrap(&term);
    bump_prog(sink, prog);
    let ncap = specs.iter().filter(|s| matches!(s, LayerSpec::Capture(_))).count();
    sink.bump(&format!("stack:capture-layers:{ncap}"));
    sink.bump(&format!("stack:pass-layers:{}", specs.len() - ncap));
    for (pos, s) in specs.iter().enumerate() {
        if let LayerSpec::Pass(k) = s {
            sink.bump(&format!("stack:pass-at:{pos}"));
            sink.bump(match k {
                PassKind::Plain => "stack:pass-kind:plain",
                PassKind::PerLayerFiltered(_) => "stack:pass-kind:per-layer-filtered",
                PassKind::Extensions => "stack:pass-kind:own-span-extensions",
            });
        }
    }
    if out.panicked {
        sink.bump("stack:panicked");
    }
    if out.poisoned {
        sink.bump("stack:poisoned");
    }
    let nontrivial = prog.ops.iter().any(|(_, op)| matches!(op, Op::NewSpan(..) | Op::Event(..)));
    sink.case(idx, kind, &judge, &key, nontrivial, || {
        serde_json::json!({
            "program": show_prog(prog), "stack": specs.iter().map(|s| format!("{s:?}")).collect::<Vec<_>>(),
            "raw_ids": raws, "panicked": out.panicked, "poisoned": out.poisoned,
            "storages": out.dumps, "single_layer_storages": singles,
        })
    });
}

// ---- hostile renderings ---------------------------------------------------------------------------

/// `hostile`: the program the guest runs, with misbehaving `Debug` values; `quiet`: the program whose
/// trace it must be captured as (the event emitted while a recorded value is rendered comes first;
/// an operation whose value panics while it is rendered is not captured).  One capture layer that
/// captures everything, pass-through layers around it.  The hostile run happens on a thread of its
/// own under a watchdog: a callback that never returns (re-entering the layer under its own lock)
/// shows as a missing storage.
fn hostile_case(sink: &mut Sink, idx: u64, kind: &str, hostile: &Prog, quiet: &Prog, specs: &[LayerSpec]) {
    hostile_case_expecting(sink, idx, kind, hostile, quiet, specs, None)
}

/// `max_panics`: `Some(n)` = at most `n` operations of the hostile run may be left by a panic (a layer that
/// does not capture a span has no business rendering what is recorded on it); more than that is handed to
/// the judge as a run that panicked.
fn hostile_case_expecting(sink: &mut Sink, idx: u64, kind: &str, hostile: &Prog, quiet: &Prog, specs: &[LayerSpec], max_panics: Option<usize>) {
    if !sink.wants(idx) {
        return;
    }
    let (h, sp) = (hostile.clone(), specs.to_vec());
    let (tx, rx) = std::sync::mpsc::channel();
    std::thread::spawn(move || {
        EXECUTOR.with(|e| e.set(exec_hostile));
        let mut out = run_stack(&h, &sp);
        let panics = base::HOSTILE_PANICS.with(|p| p.get());
        if max_panics.is_some_and(|m| panics > m) {
            out = StackOut { dumps: None, raws: out.raws, panicked: true, poisoned: out.poisoned };
        }
        let _ = tx.send(out);
    });
    let out = rx.recv_timeout(std::time::Duration::from_secs(20)).ok();
    sink.bump(match &out {
        None => "hostile:callback-never-returned",
        Some(o) if o.poisoned => "hostile:storage-poisoned",
        Some(o) if o.panicked => "hostile:panic-escaped",
        Some(_) => "hostile:completed",
    });
    let quiet_out = run_stack(quiet, specs);
    let differs = out.as_ref().map_or(true, |o| o.dumps.is_none() || o.dumps != quiet_out.dumps);
    if differs {
        sink.bump("hostile:DIFFERS-from-the-quiet-program");
    }
    // both runs are judged against the quiet program; the case gets the worse verdict
    let hostile_out = if differs {
        Some(out.unwrap_or(StackOut { dumps: None, raws: vec![], panicked: true, poisoned: true }))
    } else {
        None
    };
    stack_case_with(sink, idx, kind, quiet, specs, quiet_out, hostile_out);
}

fn hostile_cases(sink: &mut Sink, idx: &mut u64) {
    let scenarios = base::hostile_scenarios();
    for (name, hostile, quiet) in &scenarios {
        for specs in [
            vec![LayerSpec::Capture(FilterSpec::Unfiltered)],
            vec![LayerSpec::Pass(PassKind::Extensions), LayerSpec::Capture(FilterSpec::Unfiltered), LayerSpec::Pass(PassKind::Plain)],
        ] {
            hostile_case(sink, *idx, &format!("hostile-{name}"), hostile, quiet, &specs);
            *idx += 1;
        }
    }
    // panicking values recorded on a span the layer filtered out
    let (hostile, quiet) = base::hostile_filtered_scenario();
    for specs in [
        vec![LayerSpec::Capture(FilterSpec::Level(Some(TracingLevel::Info)))],
        vec![LayerSpec::Pass(PassKind::Plain), LayerSpec::Capture(FilterSpec::Level(Some(TracingLevel::Warn))), LayerSpec::Capture(FilterSpec::Level(Some(TracingLevel::Info)))],
    ] {
        hostile_case_expecting(sink, *idx, "hostile-bomb-recorded-on-a-filtered-span", &hostile, &quiet, &specs, Some(0));
        *idx += 1;
    }
}

/// the ids a fresh Registry issues for this program (used when the stack run panicked)
fn singles_raws(prog: &Prog) -> Vec<u64> {
    let subscriber = Registry::default().with(PassLayer);
    catch_unwind(AssertUnwindSafe(|| {
        tracing::subscriber::with_default(subscriber, || {
            let (r, raws) = exec_collect(prog);
            drop(r);
            raws
        })
    }))
    .unwrap_or_default()
}

fn gen_pass_kind(r: &mut Rng) -> PassKind {
    match r.below(4) {
        0 | 1 => PassKind::Plain,
        2 => PassKind::PerLayerFiltered(r.below(5) as u8),
        _ => PassKind::Extensions,
    }
}

/// the given capture layers with a pass-through layer at `pos` (0 = innermost)
fn with_pass_at(caps: &[FilterSpec], pos: usize) -> Vec<LayerSpec> {
    let mut out: Vec<LayerSpec> = caps.iter().cloned().map(LayerSpec::Capture).collect();
    out.insert(pos, LayerSpec::Pass(PassKind::Plain));
    out
}

fn stale_corpus() -> Vec<Prog> {
    use FollowTarget::{Live, Stale};
    use Op::*;
    use ParentKind::{Ctx, Explicit};
    vec![
        // F5: follows-from towards a span that has been closed (its id is taken from a live run: the
        // first span of a fresh Registry has id 1)
        single(corpus_sites(), vec![NewSpan(0, Ctx, vec![]), NewSpan(1, Ctx, vec![]), Drop(0), Follows(1, Stale(1)), Follows(1, Live(1))]),
        // unknown ids, the id of a live span given as a raw id, the id of the span itself
        single(
            corpus_sites(),
            vec![
                NewSpan(0, Ctx, vec![]),
                NewSpan(1, Ctx, vec![]),
                Follows(0, Stale(77)),
                Follows(0, Stale(u64::MAX)),
                Follows(0, Stale(2)),
                Follows(1, Stale(2)),
                Follows(1, Stale(1)),
                Follows(1, Stale(1 << 40)),
            ],
        ),
        // records, enters, exits, events and children on a span the layer filtered out
        single(
            corpus_sites(),
            vec![
                NewSpan(1, Ctx, vec![]),
                Record(0, vec![(0, Some(Prim::Bool(true)))]),
                Enter(0),
                Enter(0),
                Event(3, Ctx, vec![]),
                NewSpan(0, Ctx, vec![]),
                NewSpan(0, Explicit(0), vec![]),
                Follows(1, Live(0)),
                Follows(0, Live(1)),
                Follows(0, Stale(1)),
                Exit(0),
                Exit(0),
                Drop(0),
                Drop(1),
                Drop(2),
            ],
        ),
        // a closed span's slot is reused by a later span; the old id is stale, the new one is live
        single(
            corpus_sites(),
            vec![
                NewSpan(0, Ctx, vec![]),
                Drop(0),
                NewSpan(0, Ctx, vec![]),
                NewSpan(1, Ctx, vec![]),
                Follows(2, Stale(1)),
                Follows(2, Stale(2)),
                Follows(1, Stale(1)),
            ],
        ),
    ]
}

pub fn run(o: &Opts) {
    let mut sink = Sink::new(&o.out, o.shards, "Judge.C16 Judge.Hostile", o.only.clone());
    let mut idx = 0u64;

    selftest();

    let info = FilterSpec::Level(Some(TracingLevel::Info));
    let not_inner = FilterSpec::Ast(FExpr::Not(Box::new(FExpr::Name("inner".into()))));
    let events_only = FilterSpec::Ast(FExpr::Kind(tracing_tunnel::CallSiteKind::Event));
    let all = FilterSpec::Unfiltered;

    // 1. corpus: the hand-written programs of C05 and the stale follows-from programs, as Registry
    //    traces and under one, two and three capture layers with a pass-through layer in every position
    let mut programs = corpus();
    programs.extend(stale_corpus());
    let cap_sets: Vec<Vec<FilterSpec>> = vec![
        vec![all.clone()],
        vec![info.clone()],
        vec![all.clone(), all.clone()],
        vec![info.clone(), not_inner.clone()],
        vec![events_only.clone(), all.clone(), info.clone()],
    ];
    for prog in &programs {
        registry_case(&mut sink, idx, "corpus-registry", prog, true);
        idx += 1;
        for caps in &cap_sets {
            let plain: Vec<LayerSpec> = caps.iter().cloned().map(LayerSpec::Capture).collect();
            stack_case(&mut sink, idx, "corpus-stack", prog, &plain);
            idx += 1;
            for pos in 0..=caps.len() {
                stack_case(&mut sink, idx, "corpus-stack-pass", prog, &with_pass_at(caps, pos));
                idx += 1;
            }
        }
    }

    // 2. random programs with stale follows-from targets: Registry traces
    let mut cfg = GenCfg::balanced("c16");
    cfg.stale_follows = true;
    cfg.weights = [18, 8, 14, 12, 5, 14, 12, 14];
    let n_registry = if o.thorough { 20_000 } else { 400 } * o.scale;
    for _ in 0..n_registry {
        if sink.wants(idx) {
            let mut r = Rng::for_case(o.seed, "C16-registry", idx);
            let prog = gen_prog(&mut r, &cfg);
            registry_case(&mut sink, idx, "random-registry", &prog, true);
        }
        idx += 1;
    }

    // 2c. hostile renderings: values that log or panic while the layer renders them
    hostile_cases(&mut sink, &mut idx);

    // 3. random programs x random stacks: 1-3 capture layers with independent random filters; pass-through
    //    layers inserted at random positions (each of the n+1 positions with probability 1/2, at least one
    //    in every other case)
    let n_stack = if o.thorough { 60_000 } else { 1_300 } * o.scale;
    for _ in 0..n_stack {
        if sink.wants(idx) {
            let mut r = Rng::for_case(o.seed, "C16-stack", idx);
            let prog = gen_prog(&mut r, &cfg);
            let ncap = r.range(1, 3);
            let caps: Vec<FilterSpec> = (0..ncap)
                .map(|i| if i > 0 && r.chance(15) { FilterSpec::Unfiltered } else { gen_filter(&mut r, &prog) })
                .collect();
            let force = r.chance(50);
            let forced_pos = r.range(0, ncap);
            let mut specs = vec![];
            for (pos, f) in caps.iter().enumerate() {
                if r.chance(50) || (force && forced_pos == pos) {
                    specs.push(LayerSpec::Pass(gen_pass_kind(&mut r)));
                }
                specs.push(LayerSpec::Capture(f.clone()));
            }
            if r.chance(50) || (force && forced_pos == ncap) {
                specs.push(LayerSpec::Pass(gen_pass_kind(&mut r)));
            }
            stack_case(&mut sink, idx, "random-stack", &prog, &specs);
        }
        idx += 1;
    }

    // random hostile programs under a stack with pass-through layers around the capture layer
    idx = base::hostile_random_cases(&mut sink, o, "C16-hostile", idx, if o.thorough { 20_000 } else { 300 } * o.scale, true);
    let _ = idx;

    sink.finish(
        "one case = one guest program (stale follows-from targets allowed) executed with the real tracing API under Registry + a \
         recording layer (callback trace against the Registry model) or under Registry + a stack of 1-3 CaptureLayers with \
         independent filters and storages and pass-through layers in any position (panics caught, every storage locked \
         afterwards, every storage dumped through the public API and compared with the model of the stack and with the storage of \
         the same program under that capture layer alone, which must be what the specification prescribes). corpus (C05's \
         programs plus stale-target programs) x fixed stacks x a pass-through layer in every position; random programs x random \
         stacks. non-trivial = the program creates a span or an event; distinct = distinct canonical program and stack text",
        serde_json::json!({ "call_sites_built": sites_built() }),
    );
}
