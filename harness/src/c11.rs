//! C11: events and persisted state round-trip through serde and keep the 0.2 wire shape.
//!
//! The harness hands `serde_json::to_string` / `from_str` of the real types generated values and
//! perturbed documents and prints inputs and outcomes as Gallina terms for `Judge/C11.v`.
//! JSON text is turned into the model's tree by the small parser below (`serde_json::Value` cannot
//! hold 128-bit integers and would lose float bits).
use crate::{coq::*, out::Sink, rng::Rng, Opts};
use std::borrow::Cow;
use tracing_tunnel::{
    CallSiteData, CallSiteKind, PersistedMetadata, PersistedSpans, TracedValue, TracedValues,
    TracingEvent, TracingEventReceiver, TracingLevel,
};

// ---- JSON trees ----------------------------------------------------------------------------

#[derive(Clone, Debug, PartialEq)]
pub enum J {
    Null,
    Bool(bool),
    /// integer token, decimal text with an optional leading '-'
    Int(String),
    /// any other number token, as the bits of the parsed f64
    Float(u64),
    Str(String),
    Arr(Vec<J>),
    Obj(Vec<(String, J)>),
}

struct Parser<'a> {
    s: &'a [u8],
    i: usize,
}

impl Parser<'_> {
    fn ws(&mut self) {
        while matches!(self.s.get(self.i), Some(b' ' | b'\n' | b'\t' | b'\r')) {
            self.i += 1;
        }
    }
    fn lit(&mut self, word: &str, j: J) -> Result<J, String> {
        if self.s[self.i..].starts_with(word.as_bytes()) {
            self.i += word.len();
            Ok(j)
        } else {
            Err(format!("bad literal at {}", self.i))
        }
    }
    fn digits(&mut self) -> usize {
        let start = self.i;
        while matches!(self.s.get(self.i), Some(b'0'..=b'9')) {
            self.i += 1;
        }
        self.i - start
    }
    fn number(&mut self) -> Result<J, String> {
        let start = self.i;
        if self.s[self.i] == b'-' {
            self.i += 1;
        }
        if self.digits() == 0 {
            return Err(format!("bad number at {start}"));
        }
        let mut float = false;
        if self.s.get(self.i) == Some(&b'.') {
            float = true;
            self.i += 1;
            if self.digits() == 0 {
                return Err(format!("bad fraction at {start}"));
            }
        }
        if matches!(self.s.get(self.i), Some(b'e' | b'E')) {
            float = true;
            self.i += 1;
            if matches!(self.s.get(self.i), Some(b'+' | b'-')) {
                self.i += 1;
            }
            if self.digits() == 0 {
                return Err(format!("bad exponent at {start}"));
            }
        }
        let tok = std::str::from_utf8(&self.s[start..self.i]).unwrap();
        if float {
            let f: f64 = tok.parse().map_err(|e| format!("{e}"))?;
            Ok(J::Float(f.to_bits()))
        } else {
            Ok(J::Int(tok.to_owned()))
        }
    }
    fn string(&mut self) -> Result<String, String> {
        let start = self.i;
        self.i += 1;
        loop {
            match self.s.get(self.i) {
                None => return Err("unterminated string".into()),
                Some(b'\\') => self.i += 2,
                Some(b'"') => {
                    self.i += 1;
                    break;
                }
                Some(_) => self.i += 1,
            }
        }
        let tok = std::str::from_utf8(&self.s[start..self.i]).map_err(|e| format!("{e}"))?;
        serde_json::from_str::<String>(tok).map_err(|e| format!("{e}"))
    }
    fn value(&mut self) -> Result<J, String> {
        self.ws();
        match self.s.get(self.i) {
            None => Err("eof".into()),
            Some(b'n') => self.lit("null", J::Null),
            Some(b't') => self.lit("true", J::Bool(true)),
            Some(b'f') => self.lit("false", J::Bool(false)),
            Some(b'"') => Ok(J::Str(self.string()?)),
            Some(b'-' | b'0'..=b'9') => self.number(),
            Some(b'[') => {
                self.i += 1;
                let mut out = vec![];
                self.ws();
                if self.s.get(self.i) == Some(&b']') {
                    self.i += 1;
                    return Ok(J::Arr(out));
                }
                loop {
                    out.push(self.value()?);
                    self.ws();
                    match self.s.get(self.i) {
                        Some(b',') => self.i += 1,
                        Some(b']') => {
                            self.i += 1;
                            return Ok(J::Arr(out));
                        }
                        _ => return Err(format!("bad array at {}", self.i)),
                    }
                }
            }
            Some(b'{') => {
                self.i += 1;
                let mut out = vec![];
                self.ws();
                if self.s.get(self.i) == Some(&b'}') {
                    self.i += 1;
                    return Ok(J::Obj(out));
                }
                loop {
                    self.ws();
                    if self.s.get(self.i) != Some(&b'"') {
                        return Err(format!("bad key at {}", self.i));
                    }
                    let k = self.string()?;
                    self.ws();
                    if self.s.get(self.i) != Some(&b':') {
                        return Err(format!("missing colon at {}", self.i));
                    }
                    self.i += 1;
                    let v = self.value()?;
                    out.push((k, v));
                    self.ws();
                    match self.s.get(self.i) {
                        Some(b',') => self.i += 1,
                        Some(b'}') => {
                            self.i += 1;
                            return Ok(J::Obj(out));
                        }
                        _ => return Err(format!("bad object at {}", self.i)),
                    }
                }
            }
            Some(c) => Err(format!("unexpected byte {c} at {}", self.i)),
        }
    }
}

pub fn parse(text: &str) -> J {
    let mut p = Parser { s: text.as_bytes(), i: 0 };
    let v = p.value().unwrap_or_else(|e| panic!("harness JSON parser failed ({e}) on {text}"));
    p.ws();
    assert!(p.i == text.len(), "trailing bytes in {text}");
    self_check(&v, text);
    v
}

/// Cross-check of the harness parser against serde_json's own (shape, keys, strings, booleans;
/// numbers only by kind where serde_json::Value can hold them).
/// `serde_json::from_str`, cross-checked with the reader path of the same text: `from_reader` hands the
/// visitors OWNED strings (`visit_str` / `visit_string`) where `from_str` can lend borrowed ones
/// (`visit_borrowed_str`), so an impl that only works for one kind of string shows here.  The two
/// paths must both fail or both succeed with values that re-encode identically; a disagreement stops
/// the harness with the document in the message (reported by the driver as a broken correspondence).
fn decode<T: serde::de::DeserializeOwned + serde::Serialize>(text: &str) -> Option<T> {
    let borrowed: Option<T> = serde_json::from_str(text).ok();
    let owned: Option<T> = serde_json::from_reader(text.as_bytes()).ok();
    // compared as JSON trees with the members of every object sorted: two decoded hash maps re-encode
    // their entries in different orders
    fn sorted(j: J) -> J {
        match j {
            J::Obj(ms) => {
                let mut ms: Vec<(String, J)> = ms.into_iter().map(|(k, v)| (k, sorted(v))).collect();
                ms.sort_by(|a, b| a.0.cmp(&b.0));
                J::Obj(ms)
            }
            J::Arr(xs) => J::Arr(xs.into_iter().map(sorted).collect()),
            other => other,
        }
    }
    let enc = |v: &Option<T>| v.as_ref().map(|x| format!("{:?}", sorted(parse(&serde_json::to_string(x).expect("serialize")))));
    assert!(
        enc(&borrowed) == enc(&owned),
        "serde_json::from_str and serde_json::from_reader disagree on {text}: {:?} vs {:?}",
        enc(&borrowed),
        enc(&owned)
    );
    borrowed
}

fn self_check(j: &J, text: &str) {
    fn agree(j: &J, v: &serde_json::Value) -> bool {
        match (j, v) {
            (J::Null, serde_json::Value::Null) => true,
            (J::Bool(a), serde_json::Value::Bool(b)) => a == b,
            (J::Int(_) | J::Float(_), serde_json::Value::Number(_)) => true,
            (J::Str(a), serde_json::Value::String(b)) => a == b,
            (J::Arr(a), serde_json::Value::Array(b)) => a.len() == b.len() && a.iter().zip(b).all(|(x, y)| agree(x, y)),
            (J::Obj(a), serde_json::Value::Object(b)) => {
                let mut distinct: Vec<&String> = a.iter().map(|(k, _)| k).collect();
                distinct.sort();
                distinct.dedup();
                distinct.len() == b.len()
                    && a.iter().all(|(k, x)| {
                        let unique = a.iter().filter(|(k2, _)| k2 == k).count() == 1;
                        match b.get(k) {
                            Some(y) => !unique || agree(x, y),
                            None => false,
                        }
                    })
            }
            _ => false,
        }
    }
    // Value cannot represent integers beyond 64 bits exactly but still parses them (as f64)
    match serde_json::from_str::<serde_json::Value>(text) {
        Ok(v) => assert!(agree(j, &v), "harness parser disagrees with serde_json on {text}"),
        Err(e) => {
            // number out of f64 range is the only document we write that Value rejects
            assert!(e.to_string().contains("out of range"), "serde_json rejects harness document {text}: {e}");
        }
    }
}

pub fn cj(j: &J) -> String {
    match j {
        J::Null => "JNull".into(),
        J::Bool(b) => format!("(JBool {})", cbool(*b)),
        J::Int(t) => format!("(JInt ({t})%Z)"),
        J::Float(b) => format!("(JFloat {b})"),
        J::Str(s) => format!("(JStr {})", cstr(s)),
        J::Arr(l) => format!("(JArr {})", clist(l.iter(), cj)),
        J::Obj(ms) => format!("(JObj {})", clist(ms.iter(), |(k, v)| format!("({}, {})", cstr(k), cj(v)))),
    }
}

pub fn wj(j: &J, out: &mut String) {
    match j {
        J::Null => out.push_str("null"),
        J::Bool(b) => out.push_str(if *b { "true" } else { "false" }),
        J::Int(t) => out.push_str(t),
        J::Float(b) => {
            let f = f64::from_bits(*b);
            assert!(f.is_finite(), "harness never writes non-finite floats");
            out.push_str(&serde_json::to_string(&f).unwrap());
        }
        J::Str(s) => out.push_str(&serde_json::to_string(s).unwrap()),
        J::Arr(l) => {
            out.push('[');
            for (i, x) in l.iter().enumerate() {
                if i > 0 {
                    out.push(',');
                }
                wj(x, out);
            }
            out.push(']');
        }
        J::Obj(ms) => {
            out.push('{');
            for (i, (k, v)) in ms.iter().enumerate() {
                if i > 0 {
                    out.push(',');
                }
                out.push_str(&serde_json::to_string(k).unwrap());
                out.push(':');
                wj(v, out);
            }
            out.push('}');
        }
    }
}
fn text_of(j: &J) -> String {
    let mut s = String::new();
    wj(j, &mut s);
    s
}

// ---- generators ----------------------------------------------------------------------------

pub const INT_BOUNDS: &[i128] = &[
    0, 1, -1, 2, 42, -42,
    i64::MAX as i128, i64::MAX as i128 + 1, i64::MIN as i128, i64::MIN as i128 - 1,
    u64::MAX as i128, u64::MAX as i128 + 1, i128::MAX, i128::MIN, i128::MAX - 1, i128::MIN + 1,
    i32::MAX as i128, i32::MIN as i128, 1 << 63, -(1 << 63) + 1, 1 << 53, (1 << 53) + 1,
];
pub const UINT_BOUNDS: &[u128] = &[
    0, 1, 2, 42, i64::MAX as u128, i64::MAX as u128 + 1, u64::MAX as u128, u64::MAX as u128 + 1,
    u128::MAX, u128::MAX - 1, i128::MAX as u128, i128::MAX as u128 + 1, u32::MAX as u128,
];
/// finite patterns first (13), then non-finite ones
pub const FLOAT_BITS: &[u64] = &[
    0, 0x8000_0000_0000_0000, 0x3FF0_0000_0000_0000, 0xBFF0_0000_0000_0000,
    0x7FEF_FFFF_FFFF_FFFF, 0xFFEF_FFFF_FFFF_FFFF, 1, 0x8000_0000_0000_0001, 0x4045_0000_0000_0000,
    0x3FB9_9999_9999_999A, 0x000F_FFFF_FFFF_FFFF, 0x0010_0000_0000_0000, 0x4340_0000_0000_0000,
    0x7FF0_0000_0000_0000, 0xFFF0_0000_0000_0000, 0x7FF8_0000_0000_0000, 0xFFF8_0000_0000_0000,
    0x7FF0_0000_0000_0001, 0x7FFF_FFFF_FFFF_FFFF,
];
const N_FINITE: usize = 13;
const ID_BOUNDS: &[u64] = &[
    0, 1, 2, 7, u32::MAX as u64, u32::MAX as u64 + 1, i64::MAX as u64, i64::MAX as u64 + 1,
    u64::MAX, u64::MAX - 1, 1 << 53, (1 << 53) + 1,
];
const STRS: &[&str] = &[
    "", "x", "hello world", "ключ", "日本語", "a\nb", "tab\there", "q\"uote", "back\\slash", "\u{0}",
    "\u{7f}", "\u{1F600}", "\u{2028}\u{2029}", "</script>", "\r\n", "\u{feff}bom", "null", "42",
    "{\"a\":1}", "\u{1}\u{1f}", "e\u{301}", "\\u0041", "/", "'",
];
const NAMES: &[&str] = &[
    "a", "b", "message", "", "ключ", "a b", "A", "q\"uote", "id", "values", "x.y", "\u{1F600}", "int", "source",
];

fn gen_string(r: &mut Rng) -> String {
    if r.chance(75) {
        (*r.pick(STRS)).to_owned()
    } else {
        let n = r.range(0, 12);
        let alphabet: Vec<char> = "abcXYZ09 _-\"\\/\n\t\u{0}\u{7f}\u{e9}\u{416}\u{4e2d}\u{1F600}\u{fffd}".chars().collect();
        (0..n).map(|_| *r.pick(&alphabet)).collect()
    }
}
fn gen_id(r: &mut Rng) -> u64 {
    match r.below(10) {
        0..=3 => *r.pick(ID_BOUNDS),
        4..=6 => r.below(10),
        _ => r.next() >> r.below(64),
    }
}
fn finite_bits(r: &mut Rng) -> u64 {
    let bits = if r.chance(50) { FLOAT_BITS[r.below(N_FINITE as u64) as usize] } else { r.next() };
    if f64::from_bits(bits).is_finite() {
        bits
    } else {
        (bits & 0x800F_FFFF_FFFF_FFFF) | 0x3FF0_0000_0000_0000
    }
}
pub fn gen_value(r: &mut Rng, sink: &mut Sink) -> TracedValue {
    match r.below(9) {
        0 => {
            sink.bump("value:bool");
            TracedValue::Bool(r.chance(50))
        }
        1 | 2 => {
            sink.bump("value:int");
            TracedValue::Int(if r.chance(60) { *r.pick(INT_BOUNDS) } else { r.u128() as i128 >> r.below(127) })
        }
        3 | 4 => {
            sink.bump("value:u_int");
            TracedValue::UInt(if r.chance(60) { *r.pick(UINT_BOUNDS) } else { r.u128() >> r.below(128) })
        }
        5 => {
            sink.bump("value:float");
            TracedValue::Float(f64::from_bits(finite_bits(r)))
        }
        6 => {
            sink.bump("value:string");
            TracedValue::String(gen_string(r))
        }
        7 => {
            sink.bump("value:object");
            mk_object(&gen_string(r))
        }
        _ => {
            let depth = r.range(1, 5);
            sink.bump(&format!("value:error depth {depth}"));
            let msgs: Vec<String> = (0..depth).map(|_| gen_string(r)).collect();
            mk_error(&msgs)
        }
    }
}
fn gen_pairs(r: &mut Rng, sink: &mut Sink) -> Vec<(String, TracedValue)> {
    let n = match r.below(10) {
        0 | 1 => 0,
        // a persisted span accumulates the values of several events: its set may exceed the 32 entries
        // one event can carry
        2 => *r.pick(&[32usize, 32, 33, 40]),
        3 => r.range(7, 31),
        _ => r.range(1, 6),
    };
    sink.bump(&format!(
        "values:len {}",
        match n { 0 => "0", 1..=6 => "1-6", 32 => "32", 33.. => "33-40", _ => "7-31" }
    ));
    let mut names: Vec<String> = vec![];
    let mut out = vec![];
    for i in 0..n {
        let mut name = (*r.pick(NAMES)).to_owned();
        if names.contains(&name) {
            name = format!("{name}{i}");
        }
        names.push(name.clone());
        out.push((name, gen_value(r, sink)));
    }
    out
}
fn to_values(pairs: &[(String, TracedValue)]) -> TracedValues<String> {
    pairs.iter().cloned().collect()
}
fn gen_cs(r: &mut Rng) -> CallSiteData {
    let nf = if r.chance(20) { 32 } else { r.range(0, 5) };
    CallSiteData {
        kind: if r.chance(50) { CallSiteKind::Span } else { CallSiteKind::Event },
        name: Cow::Owned(gen_string(r)),
        target: Cow::Owned(gen_string(r)),
        level: *r.pick(&[TracingLevel::Error, TracingLevel::Warn, TracingLevel::Info, TracingLevel::Debug, TracingLevel::Trace]),
        module_path: if r.chance(60) { Some(Cow::Owned(gen_string(r))) } else { None },
        file: if r.chance(60) { Some(Cow::Owned(gen_string(r))) } else { None },
        line: if r.chance(60) { Some(*r.pick(&[0u32, 1, 42, u32::MAX, u32::MAX - 1, 65536])) } else { None },
        fields: (0..nf).map(|i| Cow::Owned(if r.chance(50) { format!("f{i}") } else { gen_string(r) })).collect(),
    }
}
fn opt_id(r: &mut Rng) -> Option<u64> {
    if r.chance(50) { Some(gen_id(r)) } else { None }
}
fn gen_event(r: &mut Rng, sink: &mut Sink) -> TracingEvent {
    match r.below(12) {
        0 | 1 => TracingEvent::NewCallSite { id: gen_id(r), data: gen_cs(r) },
        2 | 3 => TracingEvent::NewSpan { id: gen_id(r), parent_id: opt_id(r), metadata_id: gen_id(r), values: to_values(&gen_pairs(r, sink)) },
        4 => TracingEvent::FollowsFrom { id: gen_id(r), follows_from: gen_id(r) },
        5 => TracingEvent::SpanEntered { id: gen_id(r) },
        6 => TracingEvent::SpanExited { id: gen_id(r) },
        7 => TracingEvent::SpanCloned { id: gen_id(r) },
        8 => TracingEvent::SpanDropped { id: gen_id(r) },
        9 => TracingEvent::ValuesRecorded { id: gen_id(r), values: to_values(&gen_pairs(r, sink)) },
        _ => TracingEvent::NewEvent { metadata_id: gen_id(r), parent: opt_id(r), values: to_values(&gen_pairs(r, sink)) },
    }
}
fn variant_name(e: &TracingEvent) -> &'static str {
    match e {
        TracingEvent::NewCallSite { .. } => "new_call_site",
        TracingEvent::NewSpan { .. } => "new_span",
        TracingEvent::FollowsFrom { .. } => "follows_from",
        TracingEvent::SpanEntered { .. } => "span_entered",
        TracingEvent::SpanExited { .. } => "span_exited",
        TracingEvent::SpanCloned { .. } => "span_cloned",
        TracingEvent::SpanDropped { .. } => "span_dropped",
        TracingEvent::ValuesRecorded { .. } => "values_recorded",
        TracingEvent::NewEvent { .. } => "new_event",
        _ => "other",
    }
}
fn event_values(e: &TracingEvent) -> Option<&TracedValues<String>> {
    match e {
        TracingEvent::NewSpan { values, .. } | TracingEvent::ValuesRecorded { values, .. } | TracingEvent::NewEvent { values, .. } => Some(values),
        _ => None,
    }
}
fn gen_json(r: &mut Rng, depth: usize) -> J {
    match r.below(if depth == 0 { 5 } else { 7 }) {
        0 => J::Null,
        1 => J::Bool(r.chance(50)),
        2 => J::Int(format!("{}", (r.u128() as i128) >> r.below(127))),
        3 => J::Float(finite_bits(r)),
        4 => J::Str(gen_string(r)),
        5 => J::Arr((0..r.range(0, 3)).map(|_| gen_json(r, depth - 1)).collect()),
        _ => J::Obj((0..r.range(0, 3)).map(|_| ((*r.pick(NAMES)).to_owned(), gen_json(r, depth - 1))).collect()),
    }
}

// ---- trusted float conversions, exercised directly ------------------------------------------

/// every finite float must survive serde_json's text form bit-exactly, through serde_json's
/// parser and through the parser used by the harness for trees
fn float_text_ok(f: f64, sink: &mut Sink) -> bool {
    let text = serde_json::to_string(&f).unwrap();
    let back: f64 = serde_json::from_str(&text).unwrap_or(f64::NAN);
    let own: f64 = text.parse().unwrap_or(f64::NAN);
    let ok = back.to_bits() == f.to_bits() && own.to_bits() == f.to_bits();
    sink.bump(if ok { "float:text roundtrip bit-exact" } else { "float:text roundtrip FAILED" });
    ok
}
fn floats_ok(vs: Option<&TracedValues<String>>, sink: &mut Sink) -> bool {
    let mut ok = true;
    if let Some(vs) = vs {
        for (_, v) in vs.iter() {
            if let TracedValue::Float(f) = v {
                if f.is_finite() {
                    ok &= float_text_ok(*f, sink);
                }
            }
        }
    }
    ok
}

// ---- (a) encode conformance -----------------------------------------------------------------

struct Samples {
    events: Vec<String>,
    spans: Vec<String>,
    metadata: Vec<String>,
}

fn enc_event_case(sink: &mut Sink, samples: &mut Samples, idx: u64, kind: &str, e: &TracingEvent) {
    if !sink.wants(idx) {
        return;
    }
    let text = serde_json::to_string(e).expect("serialize event");
    let tree = parse(&text);
    let redec: Option<TracingEvent> = decode(&text);
    let reenc = redec.as_ref().map(|e2| parse(&serde_json::to_string(e2).unwrap()));
    let fl = floats_ok(event_values(e), sink);
    sink.bump(&format!("variant:{}", variant_name(e)));
    sink.bump(if redec.is_some() { "enc:redecoded" } else { "enc:not redecoded" });
    if samples.events.len() < 400 && redec.is_some() {
        samples.events.push(text.clone());
    }
    let input = cevent(e);
    let judge = format!(
        "judge_enc_event {input} {} {} {} {}",
        cj(&tree),
        copt(redec.as_ref(), cevent),
        copt(reenc.as_ref(), cj),
        cbool(fl)
    );
    let nontrivial = event_values(e).map_or(matches!(e, TracingEvent::NewCallSite { .. }), |v| v.len() > 0);
    sink.case(idx, kind, &judge, &input, nontrivial, || serde_json::json!({ "event": input, "text": text }));
}

fn nonfinite_case(sink: &mut Sink, idx: u64, bits: u64) {
    if !sink.wants(idx) {
        return;
    }
    let v = TracedValue::Float(f64::from_bits(bits));
    let text = serde_json::to_string(&v).unwrap();
    let dec: Option<TracedValue> = decode(&text);
    let judge = format!("judge_nonfinite_value {bits} {} {}", cj(&parse(&text)), copt(dec.as_ref(), ctv));
    sink.bump("float:non-finite");
    sink.case(idx, "nonfinite", &judge, &format!("{bits}"), true, || serde_json::json!({ "bits": bits, "text": text }));
}

/// harness-side picture of SpanData (the real type is private)
#[derive(Clone)]
struct MSpan {
    meta: u64,
    parent: Option<u64>,
    refs: u64,
    values: Vec<(String, TracedValue)>,
}
fn cspan(s: &MSpan) -> String {
    format!("(mk_sd {} {} {} {})", s.meta, copt(s.parent, cn), s.refs, clist(s.values.iter(), |(k, v)| ckv(k, v)))
}
fn cspans(m: &[(u64, MSpan)]) -> String {
    clist(m.iter(), |(k, s)| format!("({k}, {})", cspan(s)))
}
fn jvalues(vs: &[(String, TracedValue)]) -> J {
    J::Obj(vs.iter().map(|(k, v)| (k.clone(), parse(&serde_json::to_string(v).unwrap()))).collect())
}
fn jspan(s: &MSpan) -> J {
    let mut ms = vec![("metadata_id".to_owned(), J::Int(s.meta.to_string()))];
    if let Some(p) = s.parent {
        ms.push(("parent_id".to_owned(), J::Int(p.to_string())));
    }
    ms.push(("ref_count".to_owned(), J::Int(s.refs.to_string())));
    ms.push(("values".to_owned(), jvalues(&s.values)));
    J::Obj(ms)
}
fn jspans(m: &[(u64, MSpan)]) -> J {
    J::Obj(m.iter().map(|(k, s)| (k.to_string(), jspan(s))).collect())
}
fn gen_spans(r: &mut Rng, sink: &mut Sink) -> Vec<(u64, MSpan)> {
    let n = r.range(0, 8);
    sink.bump(&format!("persisted:entries {n}"));
    let mut out: Vec<(u64, MSpan)> = vec![];
    while out.len() < n {
        let id = gen_id(r);
        if out.iter().any(|(k, _)| *k == id) {
            continue;
        }
        let s = MSpan { meta: gen_id(r), parent: opt_id(r), refs: if r.chance(30) { *r.pick(&[0, 1, u64::MAX, 1 << 32]) } else { r.below(5) }, values: gen_pairs(r, sink) };
        out.push((id, s));
    }
    out
}
fn gen_metadata(r: &mut Rng, sink: &mut Sink) -> Vec<(u64, CallSiteData)> {
    let n = r.range(0, 8);
    sink.bump(&format!("persisted:entries {n}"));
    let mut out: Vec<(u64, CallSiteData)> = vec![];
    while out.len() < n {
        let id = gen_id(r);
        if !out.iter().any(|(k, _)| *k == id) {
            out.push((id, gen_cs(r)));
        }
    }
    out
}
fn cmeta(m: &[(u64, CallSiteData)]) -> String {
    clist(m.iter(), |(k, d)| format!("({k}, {})", ccs(d)))
}
fn jmeta(m: &[(u64, CallSiteData)]) -> J {
    J::Obj(m.iter().map(|(k, d)| (k.to_string(), parse(&serde_json::to_string(d).unwrap()))).collect())
}
fn listing(m: &PersistedMetadata) -> Vec<(u64, CallSiteData)> {
    let mut l: Vec<(u64, CallSiteData)> = m.iter().map(|(k, d)| (k, d.clone())).collect();
    l.sort_by_key(|(k, _)| *k);
    l
}

fn enc_spans_case(sink: &mut Sink, samples: &mut Samples, idx: u64, kind: &str, m: &[(u64, MSpan)]) {
    if !sink.wants(idx) {
        return;
    }
    let doc = text_of(&jspans(m));
    let decoded: Option<PersistedSpans> = decode(&doc);
    let out = decoded.as_ref().map(|p| serde_json::to_string(p).unwrap());
    if let Some(t) = &out {
        if samples.spans.len() < 100 {
            samples.spans.push(t.clone());
        }
    }
    let mut fl = true;
    for (_, s) in m {
        fl &= floats_ok(Some(&to_values(&s.values)), sink);
    }
    let input = cspans(m);
    let judge = if fl {
        format!(
            "judge_enc_spans {input} {} {} {}",
            cj(&parse(&doc)),
            copt(out.as_ref(), |t| cj(&parse(t))),
            decoded.as_ref().map_or(0, |p| p.len())
        )
    } else {
        "judge_trusted false".to_owned()
    };
    sink.case(idx, kind, &judge, &input, !m.is_empty(), || serde_json::json!({ "spans": input, "text": doc }));
}

fn enc_metadata_case(sink: &mut Sink, samples: &mut Samples, idx: u64, kind: &str, value: &PersistedMetadata) {
    if !sink.wants(idx) {
        return;
    }
    let m = listing(value);
    let text = serde_json::to_string(value).unwrap();
    if samples.metadata.len() < 100 {
        samples.metadata.push(text.clone());
    }
    let redec: Option<PersistedMetadata> = decode(&text);
    let reenc = redec.as_ref().map(|p| parse(&serde_json::to_string(p).unwrap()));
    let input = cmeta(&m);
    let judge = format!(
        "judge_enc_metadata {input} {} {} {}",
        cj(&parse(&text)),
        copt(redec.as_ref(), |p| cmeta(&listing(p))),
        copt(reenc.as_ref(), cj)
    );
    sink.case(idx, kind, &judge, &input, !m.is_empty(), || serde_json::json!({ "metadata": input, "text": text }));
}

/// drives a real receiver (no subscriber installed) and persists its state
fn real_receiver_case(sink: &mut Sink, samples: &mut Samples, idx: u64, r: &mut Rng) -> u64 {
    // two cases: spans, metadata
    if !sink.wants(idx) && !sink.wants(idx + 1) {
        return 2;
    }
    let mut recv = TracingEventReceiver::default();
    let ncs = r.range(1, 3);
    let mut cs_ids = vec![];
    for c in 0..ncs {
        let mut data = gen_cs(r);
        data.kind = CallSiteKind::Span;
        data.name = Cow::Owned(format!("c11-{idx}-{c}"));
        data.fields = (0..6).map(|i| Cow::Owned(format!("f{i}"))).collect();
        let id = 100 + c as u64;
        cs_ids.push(id);
        let _ = recv.try_receive(TracingEvent::NewCallSite { id, data });
    }
    let nspans = r.range(0, 6);
    for s in 0..nspans {
        let id = if r.chance(20) { u64::MAX - s as u64 } else { s as u64 * 3 };
        let nv = r.range(0, 4);
        let values: Vec<(String, TracedValue)> = (0..nv).map(|i| (format!("f{i}"), gen_value(r, sink))).collect();
        let parent_id = if s > 0 && r.chance(40) { Some(0) } else { None };
        let _ = recv.try_receive(TracingEvent::NewSpan { id, parent_id, metadata_id: *r.pick(&cs_ids), values: to_values(&values) });
        for _ in 0..r.below(3) {
            let _ = recv.try_receive(TracingEvent::SpanCloned { id });
        }
        if r.chance(50) {
            let more: Vec<(String, TracedValue)> = (0..r.range(1, 3)).map(|i| (format!("f{}", 5 - i), gen_value(r, sink))).collect();
            let _ = recv.try_receive(TracingEvent::ValuesRecorded { id, values: to_values(&more) });
        }
    }
    let metadata = recv.persist_metadata();
    let (spans, _local) = recv.persist();
    if sink.wants(idx) {
        let text = serde_json::to_string(&spans).unwrap();
        if samples.spans.len() < 200 {
            samples.spans.push(text.clone());
        }
        let redec: Option<PersistedSpans> = decode(&text);
        let reenc = redec.as_ref().map(|p| parse(&serde_json::to_string(p).unwrap()));
        let judge = format!("judge_real_spans {} {}", cj(&parse(&text)), copt(reenc.as_ref(), cj));
        sink.bump(&format!("real:spans {}", spans.len().min(9)));
        sink.case(idx, "real-receiver-spans", &judge, &text, spans.len() > 0, || serde_json::json!({ "text": text }));
    }
    enc_metadata_case(sink, samples, idx + 1, "real-receiver-metadata", &metadata);
    2
}

// ---- (b) decoding perturbed documents ---------------------------------------------------------

fn shuffle<T>(r: &mut Rng, v: &mut Vec<T>) {
    for i in (1..v.len()).rev() {
        let j = r.below(i as u64 + 1) as usize;
        v.swap(i, j);
    }
}
const UNKNOWN_KEYS: &[&str] = &["zzz", "extra", "ID", "Id", "parent-id", "", "metadata", "value", "_", "ключ", "Kind", "ref"];
fn add_unknown(r: &mut Rng, ms: &mut Vec<(String, J)>) {
    for _ in 0..r.range(1, 3) {
        let pos = r.range(0, ms.len());
        ms.insert(pos, ((*r.pick(UNKNOWN_KEYS)).to_owned(), gen_json(r, 2)));
    }
}
fn out_of_range(r: &mut Rng) -> J {
    J::Int((*r.pick(&[
        "18446744073709551616", "-1", "4294967296", "170141183460469231731687303715884105728",
        "-170141183460469231731687303715884105729", "340282366920938463463374607431768211456",
        "18446744073709551615", "4294967295", "99999999999999999999999999999999999999999999",
    ])).to_owned())
}
fn wrong_type(r: &mut Rng, old: &J) -> J {
    loop {
        let j = match r.below(8) {
            0 => J::Null,
            1 => J::Bool(true),
            2 => J::Int("5".into()),
            3 => J::Float(0x4014_0000_0000_0000),
            4 => J::Str("5".into()),
            5 => J::Arr(vec![]),
            6 => J::Obj(vec![]),
            _ => J::Arr(vec![J::Int("1".into())]),
        };
        if std::mem::discriminant(&j) != std::mem::discriminant(old) {
            return j;
        }
    }
}
/// visits the error objects (`{"message":..,"source":..}`, innermost first) of the values of an event document
fn with_errors(doc: &mut J, f: &mut dyn FnMut(&mut Vec<(String, J)>)) {
    fn visit(j: &mut J, f: &mut dyn FnMut(&mut Vec<(String, J)>)) {
        if let J::Obj(ems) = j {
            for (k, v) in ems.iter_mut() {
                if k == "source" {
                    visit(v, f);
                }
            }
            f(ems);
        }
    }
    if let J::Obj(top) = doc {
        if let Some((_, J::Obj(ms))) = top.first_mut() {
            if let Some((_, J::Obj(vals))) = ms.iter_mut().find(|(k, _)| k == "values") {
                for (_, v) in vals.iter_mut() {
                    if let J::Obj(inner) = v {
                        if inner.len() == 1 && inner[0].0 == "error" {
                            visit(&mut inner[0].1, f);
                        }
                    }
                }
            }
        }
    }
}
fn to_seq(ms: &[(String, J)], fields: &[&str]) -> J {
    J::Arr(fields.iter().map(|f| ms.iter().find(|(k, _)| k == f).map_or(J::Null, |(_, v)| v.clone())).collect())
}
fn fields_of(tag: &str) -> &'static [&'static str] {
    match tag {
        "new_call_site" => &["id", "kind", "name", "target", "level", "module_path", "file", "line", "fields"],
        "new_span" => &["id", "parent_id", "metadata_id", "values"],
        "follows_from" => &["id", "follows_from"],
        "values_recorded" => &["id", "values"],
        "new_event" => &["metadata_id", "parent", "values"],
        _ => &["id"],
    }
}
const OPTIONALS: &[&str] = &["parent_id", "parent", "module_path", "file", "line"];

/// Generic perturbations of the members of one struct object.  Returns the label, or None if the
/// kind does not apply.  `benign` kinds never change the decoded value.
fn perturb_members(r: &mut Rng, ms: &mut Vec<(String, J)>, kind: u64, required: &[&str]) -> Option<&'static str> {
    match kind {
        0 => {
            if ms.is_empty() {
                return None;
            }
            let i = r.below(ms.len() as u64) as usize;
            let mut copy = ms[i].clone();
            if r.chance(40) {
                copy.1 = gen_json(r, 1);
            }
            let pos = r.range(0, ms.len());
            ms.insert(pos, copy);
            Some("dup-field")
        }
        1 => {
            let present: Vec<usize> = (0..ms.len()).filter(|i| required.contains(&ms[*i].0.as_str())).collect();
            if present.is_empty() {
                return None;
            }
            ms.remove(*r.pick(&present));
            Some("missing-required")
        }
        2 => {
            let nums: Vec<usize> = (0..ms.len()).filter(|i| matches!(ms[*i].1, J::Int(_))).collect();
            if nums.is_empty() {
                return None;
            }
            ms[*r.pick(&nums)].1 = out_of_range(r);
            Some("out-of-range")
        }
        _ => {
            if ms.is_empty() {
                return None;
            }
            let i = r.below(ms.len() as u64) as usize;
            ms[i].1 = wrong_type(r, &ms[i].1.clone());
            Some("wrong-type")
        }
    }
}

fn without_optional(e: &TracingEvent, name: &str) -> TracingEvent {
    let mut e = e.clone();
    match &mut e {
        TracingEvent::NewSpan { parent_id, .. } if name == "parent_id" => *parent_id = None,
        TracingEvent::NewEvent { parent, .. } if name == "parent" => *parent = None,
        TracingEvent::NewCallSite { data, .. } => match name {
            "module_path" => data.module_path = None,
            "file" => data.file = None,
            "line" => data.line = None,
            _ => {}
        },
        _ => {}
    }
    e
}

/// Returns (document, benign, expected value for benign documents, label)
fn perturb_event(r: &mut Rng, e: &TracingEvent, base: &J) -> (J, bool, Option<TracingEvent>, String) {
    for _ in 0..12 {
        let kind = r.below(16);
        if let Some(out) = perturb_event_kind(r, e, base, kind) {
            return out;
        }
    }
    (base.clone(), true, Some(e.clone()), "none".into())
}

fn perturb_event_kind(r: &mut Rng, e: &TracingEvent, base: &J, kind: u64) -> Option<(J, bool, Option<TracingEvent>, String)> {
    let (tag, mut ms) = match base {
        J::Obj(top) if top.len() == 1 => match &top[0].1 {
            J::Obj(ms) => (top[0].0.clone(), ms.clone()),
            _ => unreachable!(),
        },
        _ => unreachable!(),
    };
    let wrap = |ms: Vec<(String, J)>| J::Obj(vec![(tag.clone(), J::Obj(ms))]);
    let fields = fields_of(&tag);
    let required: Vec<&str> = fields.iter().copied().filter(|f| !OPTIONALS.contains(f)).collect();
    Some(match kind {
        0 => (base.clone(), true, Some(e.clone()), "none".into()),
        1 => {
            shuffle(r, &mut ms);
            (wrap(ms), true, Some(e.clone()), "reorder".into())
        }
        2 => {
            add_unknown(r, &mut ms);
            (wrap(ms), true, Some(e.clone()), "unknown-members".into())
        }
        3 => {
            // toggle an optional member: drop it when present, write null when absent
            let opts: Vec<&str> = fields.iter().copied().filter(|f| OPTIONALS.contains(f)).collect();
            if opts.is_empty() {
                shuffle(r, &mut ms);
                add_unknown(r, &mut ms);
                return Some((wrap(ms), true, Some(e.clone()), "reorder+unknown".into()));
            }
            let name = *r.pick(&opts);
            if let Some(i) = ms.iter().position(|(k, _)| k == name) {
                if r.chance(50) {
                    ms.remove(i);
                } else {
                    ms[i].1 = J::Null;
                }
                (wrap(ms), true, Some(without_optional(e, name)), "optional-dropped".into())
            } else {
                let pos = r.range(0, ms.len());
                ms.insert(pos, (name.to_owned(), J::Null));
                (wrap(ms), true, Some(e.clone()), "optional-null".into())
            }
        }
        4 | 5 => {
            // everything benign at once, including inside error objects and unit variants
            shuffle(r, &mut ms);
            add_unknown(r, &mut ms);
            let mut doc = wrap(ms);
            let mut rr = r.clone();
            with_errors(&mut doc, &mut |ems| {
                if rr.chance(50) {
                    ems.reverse();
                }
                if rr.chance(50) {
                    ems.push(("backtrace".to_owned(), J::Arr(vec![J::Str("frame".into())])));
                }
                // the innermost "source": null may be left out
                if rr.chance(50) {
                    if let Some(i) = ems.iter().position(|(k, v)| k == "source" && *v == J::Null) {
                        ems.remove(i);
                    }
                }
            });
            if let J::Obj(top) = &mut doc {
                if let J::Obj(ms) = &mut top[0].1 {
                    for (k, v) in ms.iter_mut() {
                        if (k == "kind" || k == "level") && r.chance(50) {
                            if let J::Str(s) = v.clone() {
                                *v = J::Obj(vec![(s, J::Null)]);
                            }
                        }
                    }
                }
            }
            (doc, true, Some(e.clone()), "benign-mix".into())
        }
        6..=9 => match perturb_members(r, &mut ms, kind - 6, &required) {
            Some(l) => (wrap(ms), false, None, l.into()),
            None => return None,
        },
        10 => {
            // a duplicate name inside the values object: accepted, the later entry overwrites in place
            if let Some((_, J::Obj(vals))) = ms.iter_mut().find(|(k, _)| k == "values") {
                if !vals.is_empty() {
                    let i = r.below(vals.len() as u64) as usize;
                    let other = vals[r.below(vals.len() as u64) as usize].1.clone();
                    let pos = r.range(0, vals.len());
                    vals.insert(pos, (vals[i].0.clone(), other));
                    return Some((wrap(ms), false, None, "dup-value-name".into()));
                }
            }
            return None;
        }
        11 => {
            // positional (array) form of the struct
            let seq = to_seq(&ms, fields);
            (J::Obj(vec![(tag.clone(), seq)]), false, None, "seq-form".into())
        }
        12 => {
            let doc = match r.below(6) {
                0 => J::Str(tag.clone()),
                1 => J::Obj(vec![(tag.clone(), J::Obj(ms.clone())), ("span_exited".into(), J::Obj(vec![("id".into(), J::Int("1".into()))]))]),
                2 => J::Obj(vec![]),
                3 => J::Obj(vec![("new_spam".into(), J::Obj(ms))]),
                4 => J::Obj(vec![(tag.to_uppercase(), J::Obj(ms))]),
                _ => J::Arr(vec![J::Str(tag.clone()), J::Obj(ms)]),
            };
            (doc, false, None, "enum-shape".into())
        }
        13 => {
            // damage inside the values: numbers of the wrong kind or range, wrong payloads
            if let Some((_, J::Obj(vals))) = ms.iter_mut().find(|(k, _)| k == "values") {
                if !vals.is_empty() {
                    let i = r.below(vals.len() as u64) as usize;
                    if let J::Obj(inner) = &mut vals[i].1 {
                        let label = match (inner[0].0.as_str(), r.below(4)) {
                            ("float", 0 | 1) => {
                                inner[0].1 = J::Int(format!("{}", (r.u128() as i128) >> r.below(127)));
                                "int-token-for-float"
                            }
                            ("int" | "u_int", 0) => {
                                inner[0].1 = J::Float(0x4014_0000_0000_0000);
                                "float-token-for-int"
                            }
                            ("int" | "u_int", 1) => {
                                inner[0].1 = out_of_range(r);
                                "value-out-of-range"
                            }
                            (_, 2) => {
                                inner[0].0 = (*r.pick(&["Int", "uint", "f64", "str", "err", "bool", "int", "float"])).to_owned();
                                "value-tag-changed"
                            }
                            _ => {
                                inner[0].1 = wrong_type(r, &inner[0].1.clone());
                                "value-wrong-type"
                            }
                        };
                        return Some((wrap(ms), false, None, label.into()));
                    }
                }
            }
            return None;
        }
        14 => {
            // damage inside error objects
            let mut doc = wrap(ms);
            let mut hit = false;
            let mut rr = r.clone();
            with_errors(&mut doc, &mut |ems| {
                if !hit {
                    hit = true;
                    match rr.below(4) {
                        0 => ems.retain(|(k, _)| k != "message"),
                        1 => ems.push(("source".to_owned(), J::Null)),
                        2 => {
                            let seq = to_seq(ems, &["message", "source"]);
                            if let J::Arr(l) = seq {
                                // cannot replace the object in place through this reference: encode the
                                // positional form as the value of "source" of a fresh wrapper instead
                                *ems = vec![("message".to_owned(), J::Str("wrapper".into())), ("source".to_owned(), J::Arr(l))];
                            }
                        }
                        _ => {
                            if let Some(m) = ems.iter_mut().find(|(k, _)| k == "message") {
                                m.1 = J::Int("1".into());
                            }
                        }
                    }
                }
            });
            if hit {
                (doc, false, None, "error-shape".into())
            } else {
                return None;
            }
        }
        _ => {
            // boundary ids that are still in range stay accepted
            if let Some(m) = ms.iter_mut().find(|(k, v)| (k == "id" || k == "metadata_id") && matches!(v, J::Int(_))) {
                m.1 = J::Int("18446744073709551615".into());
            }
            (wrap(ms), false, None, "id-max".into())
        }
    })
}

fn dec_event_case(sink: &mut Sink, idx: u64, r: &mut Rng) {
    let mut e = gen_event(r, sink);
    // most decode cases should carry values or call-site data
    for _ in 0..2 {
        if event_values(&e).map_or(matches!(e, TracingEvent::NewCallSite { .. }), |v| v.len() > 0) {
            break;
        }
        e = gen_event(r, sink);
    }
    let base = parse(&serde_json::to_string(&e).unwrap());
    let (doc, benign, expect, label) = perturb_event(r, &e, &base);
    let text = text_of(&doc);
    let tree = parse(&text);
    let impl_out: Option<TracingEvent> = decode(&text);
    sink.bump(&format!("perturb:{label}"));
    sink.bump(if impl_out.is_some() { "dec:accepted" } else { "dec:rejected" });
    let input = format!("{} {} {}", cbool(benign), copt(expect.as_ref(), cevent), cj(&tree));
    let judge = format!("judge_dec_event {input} {}", copt(impl_out.as_ref(), cevent));
    sink.case(idx, "dec-event", &judge, &input, label != "none", || serde_json::json!({ "perturbation": label, "text": text }));
}

const BAD_KEYS: &[&str] = &["01", "", "+1", " 1", "1 ", "1.0", "-0", "-1", "1e1", "18446744073709551616", "abc", "0x10", "00", "１"];

fn dec_spans_case(sink: &mut Sink, idx: u64, r: &mut Rng) {
    let mut m = gen_spans(r, sink);
    let mut doc = jspans(&m);
    let kind = r.below(13);
    let mut benign = true;
    let mut label = "none";
    if let J::Obj(entries) = &mut doc {
        match kind {
            0 => {}
            1 => {
                shuffle(r, entries);
                label = "reorder-entries";
            }
            2 | 3 => {
                for (_, s) in entries.iter_mut() {
                    if let J::Obj(ms) = s {
                        shuffle(r, ms);
                        add_unknown(r, ms);
                    }
                }
                shuffle(r, entries);
                label = "reorder+unknown";
            }
            4 if !entries.is_empty() => {
                let i = r.below(entries.len() as u64) as usize;
                if let J::Obj(ms) = &mut entries[i].1 {
                    if let Some(p) = ms.iter().position(|(k, _)| k == "parent_id") {
                        if r.chance(50) {
                            ms.remove(p);
                        } else {
                            ms[p].1 = J::Null;
                        }
                        m[i].1.parent = None;
                        label = "optional-dropped";
                    } else {
                        ms.push(("parent_id".to_owned(), J::Null));
                        label = "optional-null";
                    }
                }
            }
            5 if !entries.is_empty() => {
                // duplicate id key: HashMap::insert, the last one wins
                let i = r.below(entries.len() as u64) as usize;
                let other = MSpan { meta: 77, parent: None, refs: 9, values: vec![] };
                let pos = r.range(0, entries.len());
                entries.insert(pos, (entries[i].0.clone(), jspan(&other)));
                benign = false;
                label = "dup-id-key";
            }
            6 if !entries.is_empty() => {
                let i = r.below(entries.len() as u64) as usize;
                entries[i].0 = (*r.pick(BAD_KEYS)).to_owned();
                benign = false;
                label = "bad-key";
            }
            7..=10 if !entries.is_empty() => {
                let i = r.below(entries.len() as u64) as usize;
                if let J::Obj(ms) = &mut entries[i].1 {
                    if let Some(l) = perturb_members(r, ms, kind - 7, &["metadata_id", "ref_count", "values"]) {
                        benign = false;
                        label = l;
                    }
                }
            }
            11 if !entries.is_empty() => {
                let i = r.below(entries.len() as u64) as usize;
                if let J::Obj(ms) = entries[i].1.clone() {
                    entries[i].1 = to_seq(&ms, &["metadata_id", "parent_id", "ref_count", "values"]);
                    benign = false;
                    label = "seq-form";
                }
            }
            12 => {
                benign = false;
                label = "top-level-type";
            }
            _ => {}
        }
    }
    if label == "top-level-type" {
        doc = match r.below(3) {
            0 => J::Arr(vec![]),
            1 => J::Null,
            _ => J::Str("{}".into()),
        };
    }
    let text = text_of(&doc);
    let tree = parse(&text);
    let decoded: Option<PersistedSpans> = decode(&text);
    let out = decoded.as_ref().map(|p| parse(&serde_json::to_string(p).unwrap()));
    sink.bump(&format!("perturb:{label}"));
    sink.bump(if decoded.is_some() { "dec:accepted" } else { "dec:rejected" });
    let expect = if benign { format!("(Some {})", cspans(&m)) } else { "None".to_owned() };
    let input = format!("{} {expect} {}", cbool(benign), cj(&tree));
    let judge = format!("judge_dec_spans {input} {} {}", copt(out.as_ref(), cj), decoded.as_ref().map_or(0, |p| p.len()));
    sink.case(idx, "dec-spans", &judge, &input, label != "none", || serde_json::json!({ "perturbation": label, "text": text }));
}

fn dec_metadata_case(sink: &mut Sink, idx: u64, r: &mut Rng) {
    let mut m = gen_metadata(r, sink);
    let mut doc = jmeta(&m);
    let kind = r.below(13);
    let mut benign = true;
    let mut label = "none";
    if let J::Obj(entries) = &mut doc {
        match kind {
            0 => {}
            1 => {
                shuffle(r, entries);
                label = "reorder-entries";
            }
            2 | 3 => {
                for (_, s) in entries.iter_mut() {
                    if let J::Obj(ms) = s {
                        shuffle(r, ms);
                        add_unknown(r, ms);
                        for (k, v) in ms.iter_mut() {
                            if (k == "kind" || k == "level") && r.chance(30) {
                                if let J::Str(s) = v.clone() {
                                    *v = J::Obj(vec![(s, J::Null)]);
                                }
                            }
                        }
                    }
                }
                label = "reorder+unknown";
            }
            4 if !entries.is_empty() => {
                let i = r.below(entries.len() as u64) as usize;
                let name = *r.pick(&["module_path", "file", "line"]);
                if let J::Obj(ms) = &mut entries[i].1 {
                    if let Some(p) = ms.iter().position(|(k, _)| k == name) {
                        if r.chance(50) {
                            ms.remove(p);
                        } else {
                            ms[p].1 = J::Null;
                        }
                        match name {
                            "module_path" => m[i].1.module_path = None,
                            "file" => m[i].1.file = None,
                            _ => m[i].1.line = None,
                        }
                        label = "optional-dropped";
                    } else {
                        ms.insert(0, (name.to_owned(), J::Null));
                        label = "optional-null";
                    }
                }
            }
            5 if !entries.is_empty() => {
                let i = r.below(entries.len() as u64) as usize;
                let other = parse(&serde_json::to_string(&gen_cs(r)).unwrap());
                let pos = r.range(0, entries.len());
                entries.insert(pos, (entries[i].0.clone(), other));
                benign = false;
                label = "dup-id-key";
            }
            6 if !entries.is_empty() => {
                let i = r.below(entries.len() as u64) as usize;
                entries[i].0 = (*r.pick(BAD_KEYS)).to_owned();
                benign = false;
                label = "bad-key";
            }
            7..=10 if !entries.is_empty() => {
                let i = r.below(entries.len() as u64) as usize;
                if let J::Obj(ms) = &mut entries[i].1 {
                    if let Some(l) = perturb_members(r, ms, kind - 7, &["kind", "name", "target", "level", "fields"]) {
                        benign = false;
                        label = l;
                    }
                }
            }
            11 if !entries.is_empty() => {
                let i = r.below(entries.len() as u64) as usize;
                if let J::Obj(ms) = entries[i].1.clone() {
                    entries[i].1 = to_seq(&ms, &["kind", "name", "target", "level", "module_path", "file", "line", "fields"]);
                    benign = false;
                    label = "seq-form";
                }
            }
            12 => {
                benign = false;
                label = "top-level-type";
            }
            _ => {}
        }
    }
    if label == "top-level-type" {
        doc = J::Arr(vec![]);
    }
    let text = text_of(&doc);
    let tree = parse(&text);
    let decoded: Option<PersistedMetadata> = decode(&text);
    sink.bump(&format!("perturb:{label}"));
    sink.bump(if decoded.is_some() { "dec:accepted" } else { "dec:rejected" });
    let expect = if benign { format!("(Some {})", cmeta(&m)) } else { "None".to_owned() };
    let input = format!("{} {expect} {}", cbool(benign), cj(&tree));
    let judge = format!("judge_dec_metadata {input} {}", copt(decoded.as_ref(), |p| cmeta(&listing(p))));
    sink.case(idx, "dec-metadata", &judge, &input, label != "none", || serde_json::json!({ "perturbation": label, "text": text }));
}

/// hand-written documents: (type, text); judged for agreement with the model only
fn corpus_docs() -> Vec<(&'static str, &'static str)> {
    vec![
        ("ev", r#"{"span_entered":[5]}"#),
        ("ev", r#"{"span_entered":[5,6]}"#),
        ("ev", r#"{"span_entered":[]}"#),
        ("ev", r#""span_entered""#),
        ("ev", r#"{"new_span":[1,null,2,{}]}"#),
        ("ev", r#"{"new_span":[1,3,2]}"#),
        ("ev", r#"{"new_span":{"id":1,"parent_id":null,"metadata_id":2,"values":{}}}"#),
        ("ev", r#"{"new_span":{"id":1,"metadata_id":2,"values":{},"id":1}}"#),
        ("ev", r#"{"new_span":{"id":1,"metadata_id":2}}"#),
        ("ev", r#"{"new_span":{"id":1,"metadata_id":2,"values":[]}}"#),
        ("ev", r#"{"new_span":{"id":1.0,"metadata_id":2,"values":{}}}"#),
        ("ev", r#"{"new_span":{"id":18446744073709551615,"metadata_id":2,"values":{}}}"#),
        ("ev", r#"{"new_span":{"id":18446744073709551616,"metadata_id":2,"values":{}}}"#),
        ("ev", r#"{"values_recorded":{"id":1,"values":{"a":{"int":-170141183460469231731687303715884105728},"b":{"u_int":340282366920938463463374607431768211455}}}}"#),
        ("ev", r#"{"values_recorded":{"id":1,"values":{"a":{"int":170141183460469231731687303715884105728}}}}"#),
        ("ev", r#"{"values_recorded":{"id":1,"values":{"a":{"u_int":340282366920938463463374607431768211456}}}}"#),
        ("ev", r#"{"values_recorded":{"id":1,"values":{"a":{"int":1.0}}}}"#),
        ("ev", r#"{"values_recorded":{"id":1,"values":{"a":{"float":1}}}}"#),
        ("ev", r#"{"values_recorded":{"id":1,"values":{"a":{"float":-7}}}}"#),
        ("ev", r#"{"values_recorded":{"id":1,"values":{"a":{"float":18446744073709551617}}}}"#),
        ("ev", r#"{"values_recorded":{"id":1,"values":{"a":{"float":9007199254740993}}}}"#),
        ("ev", r#"{"values_recorded":{"id":1,"values":{"a":{"float":-9007199254740995}}}}"#),
        ("ev", r#"{"values_recorded":{"id":1,"values":{"a":{"float":340282366920938463463374607431768211455}}}}"#),
        ("ev", r#"{"values_recorded":{"id":1,"values":{"a":{"float":null}}}}"#),
        ("ev", r#"{"values_recorded":{"id":1,"values":{"a":{"float":1e308},"b":{"float":4.9e-324},"c":{"float":1E+2},"d":{"float":-0.0}}}}"#),
        ("ev", r#"{"values_recorded":{"id":1,"values":{"a":{"error":{"message":"x"}}}}}"#),
        ("ev", r#"{"values_recorded":{"id":1,"values":{"a":{"error":["x",null]}}}}"#),
        ("ev", r#"{"values_recorded":{"id":1,"values":{"a":{"error":["x"]}}}}"#),
        ("ev", r#"{"values_recorded":{"id":1,"values":{"a":{"error":["x",["y",null]]}}}}"#),
        ("ev", r#"{"values_recorded":{"id":1,"values":{"a":{"error":{"source":null,"message":"x","source":null}}}}}"#),
        ("ev", r#"{"values_recorded":{"id":1,"values":{"a":"bool"}}}"#),
        ("ev", r#"{"values_recorded":{"id":1,"values":{"a":{"bool":true,"int":1}}}}"#),
        ("ev", r#"{"values_recorded":{"id":1,"values":{"a":{"int":1},"b":{"int":2},"a":{"int":3}}}}"#),
        ("ev", r#"{"new_call_site":{"kind":"span","name":"n","target":"t","level":"info","fields":["a"],"id":1,"line":4294967295,"file":null}}"#),
        ("ev", r#"{"new_call_site":{"id":1,"kind":"span","name":"n","target":"t","level":"info","fields":[],"line":4294967296}}"#),
        ("ev", r#"{"new_call_site":{"id":1,"kind":"span","name":"n","target":"t","level":"info","fields":[],"line":1.0}}"#),
        ("ev", r#"{"new_call_site":{"id":1,"kind":{"span":null},"name":"n","target":"t","level":{"info":null},"fields":[]}}"#),
        ("ev", r#"{"new_call_site":{"id":1,"kind":"span","name":"n","name":"n","target":"t","level":"info","fields":[]}}"#),
        ("ev", r#"{"new_call_site":{"id":1,"id":1,"kind":"span","name":"n","target":"t","level":"info","fields":[]}}"#),
        ("ev", r#"{"new_call_site":[1,"span","n","t","info",null,null,null,[]]}"#),
        ("ev", r#"{"new_call_site":{"id":1,"kind":"Span","name":"n","target":"t","level":"info","fields":[]}}"#),
        ("ev", r#"{"new_call_site":{"id":1,"kind":"span","name":"n","target":"t","level":"info","fields":[1]}}"#),
        ("sp", r#"{}"#),
        ("sp", r#"[]"#),
        ("sp", r#"{"01":{"metadata_id":1,"ref_count":1,"values":{}}}"#),
        ("sp", r#"{"":{"metadata_id":1,"ref_count":1,"values":{}}}"#),
        ("sp", r#"{"+1":{"metadata_id":1,"ref_count":1,"values":{}}}"#),
        ("sp", r#"{" 1":{"metadata_id":1,"ref_count":1,"values":{}}}"#),
        ("sp", r#"{"1 ":{"metadata_id":1,"ref_count":1,"values":{}}}"#),
        ("sp", r#"{"-0":{"metadata_id":1,"ref_count":1,"values":{}}}"#),
        ("sp", r#"{"0":{"metadata_id":1,"ref_count":1,"values":{}}}"#),
        ("sp", r#"{"1e1":{"metadata_id":1,"ref_count":1,"values":{}}}"#),
        ("sp", r#"{"18446744073709551615":{"metadata_id":1,"ref_count":1,"values":{}}}"#),
        ("sp", r#"{"18446744073709551616":{"metadata_id":1,"ref_count":1,"values":{}}}"#),
        ("sp", r#"{"1":{"metadata_id":1,"ref_count":1,"values":{}},"1":{"metadata_id":2,"ref_count":1,"values":{}}}"#),
        ("sp", r#"{"1":[1,null,1,{}]}"#),
        ("sp", r#"{"1":[1,1,{}]}"#),
        ("sp", r#"{"1":{"metadata_id":1,"ref_count":18446744073709551616,"values":{}}}"#),
        ("sp", r#"{"1":{"metadata_id":1,"parent_id":7,"ref_count":0,"values":{"x":{"float":0.1}}}}"#),
        ("md", r#"{"1":{"kind":"span","name":"n","target":"t","level":"info","fields":[]}}"#),
        ("md", r#"{"1":["span","n","t","info",null,null,null,[]]}"#),
        ("md", r#"{"1":["span","n","t","info",null,null,null]}"#),
        ("md", r#"{"1":["span","n","t","info",[]]}"#),
        ("md", r#"{"2":{"kind":"event","name":"n","target":"t","level":"trace","fields":["x"],"line":7},"2":{"kind":"span","name":"m","target":"t","level":"error","fields":[]}}"#),
    ]
}

fn corpus_doc_case(sink: &mut Sink, idx: u64, ty: &str, text: &str) {
    if !sink.wants(idx) {
        return;
    }
    let tree = parse(text);
    let judge = match ty {
        "ev" => {
            let out: Option<TracingEvent> = serde_json::from_str(text).ok();
            sink.bump(if out.is_some() { "dec:accepted" } else { "dec:rejected" });
            format!("judge_dec_event false None {} {}", cj(&tree), copt(out.as_ref(), cevent))
        }
        "sp" => {
            let dec: Option<PersistedSpans> = serde_json::from_str(text).ok();
            sink.bump(if dec.is_some() { "dec:accepted" } else { "dec:rejected" });
            let out = dec.as_ref().map(|p| parse(&serde_json::to_string(p).unwrap()));
            format!("judge_dec_spans false None {} {} {}", cj(&tree), copt(out.as_ref(), cj), dec.as_ref().map_or(0, |p| p.len()))
        }
        _ => {
            let dec: Option<PersistedMetadata> = serde_json::from_str(text).ok();
            sink.bump(if dec.is_some() { "dec:accepted" } else { "dec:rejected" });
            format!("judge_dec_metadata false None {} {}", cj(&tree), copt(dec.as_ref(), |p| cmeta(&listing(p))))
        }
    };
    sink.case(idx, "corpus-doc", &judge, text, true, || serde_json::json!({ "type": ty, "text": text }));
}

// ---- driver -----------------------------------------------------------------------------------

fn ev_with(v: TracedValue) -> TracingEvent {
    TracingEvent::ValuesRecorded { id: 1, values: to_values(&[("v".to_owned(), v)]) }
}

pub fn run(o: &Opts) {
    let mut sink = Sink::new(&o.out, o.shards, "Judge.C11", o.only.clone());
    let mut samples = Samples { events: vec![], spans: vec![], metadata: vec![] };
    let mut idx = 0u64;

    // 1. corpus: hand-written values and documents
    let chain3 = mk_error(&["outer".to_owned(), "middle".to_owned(), "inner".to_owned()]);
    let vals32: Vec<(String, TracedValue)> = (0..32).map(|i| (format!("f{i}"), TracedValue::UInt(i as u128))).collect();
    let extremes = vec![
        ("min".to_owned(), TracedValue::Int(i128::MIN)),
        ("max".to_owned(), TracedValue::Int(i128::MAX)),
        ("umax".to_owned(), TracedValue::UInt(u128::MAX)),
        ("f".to_owned(), TracedValue::Float(0.1)),
        ("negzero".to_owned(), TracedValue::Float(-0.0)),
        ("s".to_owned(), TracedValue::String("х\n\"".to_owned())),
        ("o".to_owned(), mk_object("Foo { x: 1 }")),
        ("e".to_owned(), chain3),
        ("b".to_owned(), TracedValue::Bool(true)),
    ];
    let corpus_events = vec![
        TracingEvent::NewSpan { id: u64::MAX, parent_id: Some(0), metadata_id: 7, values: to_values(&extremes) },
        TracingEvent::NewEvent { metadata_id: 1, parent: None, values: TracedValues::new() },
        TracingEvent::ValuesRecorded { id: 3, values: to_values(&vals32) },
        TracingEvent::NewEvent { metadata_id: 1, parent: Some(u64::MAX), values: to_values(&vals32) },
        TracingEvent::FollowsFrom { id: 0, follows_from: u64::MAX },
        // outside the property: a non-finite float inside an event (judged OutOfScope)
        ev_with(TracedValue::Float(f64::NAN)),
        ev_with(TracedValue::Float(f64::INFINITY)),
    ];
    for e in &corpus_events {
        enc_event_case(&mut sink, &mut samples, idx, "corpus", e);
        idx += 1;
    }
    for (ty, text) in corpus_docs() {
        corpus_doc_case(&mut sink, idx, ty, text);
        idx += 1;
    }
    // integer tokens where an f64 is expected: accepted and rounded to nearest-even (validates f64_of_Z)
    let mut int_tokens: Vec<String> = INT_BOUNDS.iter().map(|i| i.to_string()).chain(UINT_BOUNDS.iter().map(|u| u.to_string())).collect();
    for k in 0..40u64 {
        let mut r = Rng::for_case(o.seed, "C11-int-as-float", k);
        let z = (r.u128() as i128) >> r.below(127);
        int_tokens.push(z.to_string());
        // neighbours of rounding ties at 2^53 .. 2^64
        let sh = 53 + r.below(12);
        let tie = (1u128 << sh) + (1u128 << (sh - 53)) * (2 * r.below(1000) as u128 + 1) / 2 * 2 + (1u128 << (sh - 53)) / 2;
        int_tokens.push((tie + r.below(3) as u128).saturating_sub(1).to_string());
    }
    int_tokens.push("9".repeat(400));
    for t in &int_tokens {
        let text = format!("{{\"values_recorded\":{{\"id\":1,\"values\":{{\"v\":{{\"float\":{t}}}}}}}}}");
        corpus_doc_case(&mut sink, idx, "ev", &text);
        idx += 1;
    }
    for bits in &FLOAT_BITS[N_FINITE..] {
        nonfinite_case(&mut sink, idx, *bits);
        idx += 1;
    }

    // 2. small-scope exhaustive: every boundary scalar as a value, every variant x boundary ids,
    //    every combination of kind x level x optional call-site members
    let mut grid: Vec<TracingEvent> = vec![];
    grid.extend(INT_BOUNDS.iter().map(|i| ev_with(TracedValue::Int(*i))));
    grid.extend(UINT_BOUNDS.iter().map(|u| ev_with(TracedValue::UInt(*u))));
    grid.extend(FLOAT_BITS[..N_FINITE].iter().map(|b| ev_with(TracedValue::Float(f64::from_bits(*b)))));
    grid.extend(STRS.iter().map(|s| ev_with(TracedValue::String((*s).to_owned()))));
    grid.extend(STRS.iter().map(|s| ev_with(mk_object(s))));
    for depth in 1..=5 {
        let msgs: Vec<String> = (0..depth).map(|i| STRS[(i * 5 + depth) % STRS.len()].to_owned()).collect();
        grid.push(ev_with(mk_error(&msgs)));
    }
    grid.push(ev_with(TracedValue::Bool(true)));
    grid.push(ev_with(TracedValue::Bool(false)));
    for id in ID_BOUNDS {
        let id = *id;
        grid.push(TracingEvent::SpanEntered { id });
        grid.push(TracingEvent::SpanExited { id });
        grid.push(TracingEvent::SpanCloned { id });
        grid.push(TracingEvent::SpanDropped { id });
        grid.push(TracingEvent::FollowsFrom { id, follows_from: id ^ 1 });
        grid.push(TracingEvent::NewSpan { id, parent_id: Some(id), metadata_id: id, values: TracedValues::new() });
        grid.push(TracingEvent::NewSpan { id, parent_id: None, metadata_id: id, values: TracedValues::new() });
        grid.push(TracingEvent::NewEvent { metadata_id: id, parent: Some(id), values: TracedValues::new() });
        grid.push(TracingEvent::NewEvent { metadata_id: id, parent: None, values: TracedValues::new() });
    }
    for kind in [CallSiteKind::Span, CallSiteKind::Event] {
        for level in [TracingLevel::Error, TracingLevel::Warn, TracingLevel::Info, TracingLevel::Debug, TracingLevel::Trace] {
            for mask in 0..8u32 {
                grid.push(TracingEvent::NewCallSite {
                    id: u64::from(mask),
                    data: CallSiteData {
                        kind,
                        name: "name".into(),
                        target: "crate::target".into(),
                        level,
                        module_path: if mask & 1 != 0 { Some("crate::module".into()) } else { None },
                        file: if mask & 2 != 0 { Some("src/lib.rs".into()) } else { None },
                        line: if mask & 4 != 0 { Some(u32::MAX) } else { None },
                        fields: vec!["a".into(), "b".into()],
                    },
                });
            }
        }
    }
    for e in &grid {
        enc_event_case(&mut sink, &mut samples, idx, "enc-grid", e);
        idx += 1;
    }

    // 3. random structured values
    let n_ev = if o.thorough { 90_000 } else { 1_300 } * o.scale;
    for _ in 0..n_ev {
        if sink.wants(idx) {
            let mut r = Rng::for_case(o.seed, "C11-enc-event", idx);
            let e = gen_event(&mut r, &mut sink);
            enc_event_case(&mut sink, &mut samples, idx, "enc-event", &e);
        }
        idx += 1;
    }
    let n_pers = if o.thorough { 8_000 } else { 120 } * o.scale;
    for _ in 0..n_pers {
        if sink.wants(idx) {
            let mut r = Rng::for_case(o.seed, "C11-enc-spans", idx);
            let m = gen_spans(&mut r, &mut sink);
            enc_spans_case(&mut sink, &mut samples, idx, "enc-spans", &m);
        }
        idx += 1;
    }
    for _ in 0..n_pers {
        if sink.wants(idx) {
            let mut r = Rng::for_case(o.seed, "C11-enc-metadata", idx);
            let m = gen_metadata(&mut r, &mut sink);
            let value: PersistedMetadata = serde_json::from_str(&text_of(&jmeta(&m))).expect("metadata document");
            enc_metadata_case(&mut sink, &mut samples, idx, "enc-metadata", &value);
        }
        idx += 1;
    }
    let n_real = if o.thorough { 400 } else { 25 } * o.scale;
    for _ in 0..n_real {
        let mut r = Rng::for_case(o.seed, "C11-real", idx);
        idx += real_receiver_case(&mut sink, &mut samples, idx, &mut r);
    }

    // 4. perturbed documents
    let n_dec = if o.thorough { 60_000 } else { 900 } * o.scale;
    for _ in 0..n_dec {
        if sink.wants(idx) {
            let mut r = Rng::for_case(o.seed, "C11-dec-event", idx);
            dec_event_case(&mut sink, idx, &mut r);
        }
        idx += 1;
    }
    let n_decp = if o.thorough { 10_000 } else { 150 } * o.scale;
    for _ in 0..n_decp {
        if sink.wants(idx) {
            let mut r = Rng::for_case(o.seed, "C11-dec-spans", idx);
            dec_spans_case(&mut sink, idx, &mut r);
        }
        idx += 1;
    }
    for _ in 0..n_decp {
        if sink.wants(idx) {
            let mut r = Rng::for_case(o.seed, "C11-dec-metadata", idx);
            dec_metadata_case(&mut sink, idx, &mut r);
        }
        idx += 1;
    }

    // sample documents for the optional JSON-schema validation (integration/validate_wire_schema.py)
    let join = |v: &Vec<String>| v.join(",");
    let doc = format!(
        "{{\"events\":[{}],\"spans\":[{}],\"metadata\":[{}]}}",
        join(&samples.events),
        join(&samples.spans),
        join(&samples.metadata)
    );
    std::fs::write(o.out.join("wire_samples.json"), doc).unwrap();

    sink.finish(
        "encode cases: corpus (128-bit extremes, 3-deep error chain, empty and 32-entry value sets), grid of every boundary scalar / \
         string / error depth 1..5 as a value, every variant x boundary ids, every kind x level x optional-member combination of call sites, \
         then random events, persisted spans (read from harness-written documents) and persisted metadata, plus state persisted by a real \
         receiver; decode cases: hand-written documents, then model-shaped documents perturbed by one of: nothing, reordering, unknown \
         members, absent/null optionals, duplicate fields, missing required members, out-of-range numbers, wrong types, duplicate value \
         names / id keys, positional form, enum shape, bad map keys. non-trivial = carries values or call-site data (encode), is perturbed \
         (decode). distinct = distinct canonical input text",
        serde_json::json!({ "float_text_roundtrip": "every finite float of every encode case: serde_json text -> serde_json parser and -> str::parse, bit-exact (histogram float:*)" }),
    );
}
