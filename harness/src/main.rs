//! Correspondence harness: runs the implementation in /repo on generated inputs and writes the
//! inputs together with the implementation's canonicalised outputs as Gallina cases.
mod coq;
mod out;
mod rng;

mod c15;

use std::{collections::HashSet, path::PathBuf};

pub struct Opts {
    pub prop: String,
    pub thorough: bool,
    pub seed: u64,
    pub out: PathBuf,
    pub shards: usize,
    pub only: Option<HashSet<u64>>,
    /// multiplies the random budget (used by the search phase of the driver)
    pub scale: u64,
}

fn main() {
    let args: Vec<String> = std::env::args().collect();
    if args.len() < 3 || args[1] != "gen" {
        eprintln!("usage: tt-harness gen <Cxx> [--tier quick|thorough] [--seed N] [--out DIR] [--shards K] [--only i,j] [--scale N]");
        std::process::exit(2);
    }
    let mut o = Opts {
        prop: args[2].clone(),
        thorough: false,
        seed: 0,
        out: PathBuf::from("run"),
        shards: 16,
        only: None,
        scale: 1,
    };
    let mut i = 3;
    while i < args.len() {
        let v = args.get(i + 1).cloned().unwrap_or_default();
        match args[i].as_str() {
            "--tier" => o.thorough = v == "thorough",
            "--seed" => o.seed = v.parse().expect("seed"),
            "--out" => o.out = PathBuf::from(v),
            "--shards" => o.shards = v.parse().expect("shards"),
            "--scale" => o.scale = v.parse().expect("scale"),
            "--only" => o.only = Some(v.split(',').filter(|s| !s.is_empty()).map(|s| s.parse().expect("idx")).collect()),
            other => panic!("unknown option {other}"),
        }
        i += 2;
    }
    std::panic::set_hook(Box::new(|_| {}));
    match o.prop.as_str() {
        "C15" => c15::run(&o),
        p => {
            eprintln!("unknown property {p}");
            std::process::exit(2);
        }
    }
}
