//! Correspondence harness: runs the implementation in /repo on generated inputs and writes the
//! inputs together with the implementation's canonicalised outputs as Gallina cases.
mod coq;
mod out;
mod rng;
#[cfg(any(feature = "c02", feature = "c03", feature = "c04", feature = "c06", feature = "c07", feature = "c08"))]
mod recv;
#[cfg(any(feature = "c02", feature = "c03", feature = "c04", feature = "c06", feature = "c07", feature = "c08"))]
mod recv2;
#[cfg(any(feature = "c01", feature = "c05", feature = "c12", feature = "c13", feature = "c14", feature = "c16", feature = "c19"))]
mod guest;

#[cfg(feature = "c01")]
mod c01;
#[cfg(feature = "c02")]
mod c02;
#[cfg(feature = "c03")]
mod c03;
#[cfg(feature = "c04")]
mod c04;
#[cfg(feature = "c05")]
mod c05;
#[cfg(feature = "c06")]
mod c06;
#[cfg(feature = "c07")]
mod c07;
#[cfg(feature = "c08")]
mod c08;
#[cfg(feature = "c09")]
mod c09;
#[cfg(feature = "c10")]
mod c10;
#[cfg(feature = "c11")]
mod c11;
#[cfg(feature = "c12")]
mod c12;
#[cfg(feature = "c13")]
mod c13;
#[cfg(feature = "c14")]
mod c14;
#[cfg(feature = "c15")]
mod c15;
#[cfg(feature = "c16")]
mod c16;
#[cfg(feature = "c17")]
mod c17;
#[cfg(feature = "c18")]
mod c18;
#[cfg(feature = "c19")]
mod c19;
#[cfg(feature = "c20")]
mod c20;

use std::{collections::HashSet, path::PathBuf};

pub struct Opts {
    pub prop: String,
    pub thorough: bool,
    pub seed: u64,
    pub out: PathBuf,
    pub shards: usize,
    pub only: Option<HashSet<u64>>,
    /// multiplies the random budget (used by the search phase of the driver)
    pub scale: u64,
}

/// Shrinking support: when set, step-list cases keep only the steps whose mask character is '1'.
pub static MASK: std::sync::OnceLock<Vec<bool>> = std::sync::OnceLock::new();

pub fn apply_mask<T: Clone>(steps: &[T]) -> Vec<T> {
    match MASK.get() {
        Some(m) if m.len() == steps.len() => steps.iter().zip(m).filter(|(_, k)| **k).map(|(s, _)| s.clone()).collect(),
        _ => steps.to_vec(),
    }
}

fn main() {
    let args: Vec<String> = std::env::args().collect();
    if args.len() < 3 || args[1] != "gen" {
        eprintln!("usage: tt-harness gen <Cxx> [--tier quick|thorough] [--seed N] [--out DIR] [--shards K] [--only i,j] [--scale N]");
        std::process::exit(2);
    }
    let mut o = Opts {
        prop: args[2].clone(),
        thorough: false,
        seed: 0,
        out: PathBuf::from("run"),
        shards: 16,
        only: None,
        scale: 1,
    };
    let mut i = 3;
    while i < args.len() {
        let v = args.get(i + 1).cloned().unwrap_or_default();
        match args[i].as_str() {
            "--tier" => o.thorough = v == "thorough",
            "--seed" => o.seed = v.parse().expect("seed"),
            "--out" => o.out = PathBuf::from(v),
            "--shards" => o.shards = v.parse().expect("shards"),
            "--scale" => o.scale = v.parse().expect("scale"),
            "--mask" => {
                let _ = MASK.set(v.chars().map(|c| c == '1').collect());
            }
            "--only" => o.only = Some(v.split(',').filter(|s| !s.is_empty()).map(|s| s.parse().expect("idx")).collect()),
            other => panic!("unknown option {other}"),
        }
        i += 2;
    }
    // panics of the implementation are expected and caught; TT_VERBOSE=1 keeps their messages
    if std::env::var_os("TT_VERBOSE").is_none() {
        std::panic::set_hook(Box::new(|_| {}));
    }
    match o.prop.as_str() {
        #[cfg(feature = "c01")]
        "C01" => c01::run(&o),
        #[cfg(feature = "c02")]
        "C02" => c02::run(&o),
        #[cfg(feature = "c03")]
        "C03" => c03::run(&o),
        #[cfg(feature = "c04")]
        "C04" => c04::run(&o),
        #[cfg(feature = "c05")]
        "C05" => c05::run(&o),
        #[cfg(feature = "c06")]
        "C06" => c06::run(&o),
        #[cfg(feature = "c07")]
        "C07" => c07::run(&o),
        #[cfg(feature = "c08")]
        "C08" => c08::run(&o),
        #[cfg(feature = "c09")]
        "C09" => c09::run(&o),
        #[cfg(feature = "c10")]
        "C10" => c10::run(&o),
        #[cfg(feature = "c11")]
        "C11" => c11::run(&o),
        #[cfg(feature = "c12")]
        "C12" => c12::run(&o),
        #[cfg(feature = "c13")]
        "C13" => c13::run(&o),
        #[cfg(feature = "c14")]
        "C14" => c14::run(&o),
        #[cfg(feature = "c15")]
        "C15" => c15::run(&o),
        #[cfg(feature = "c16")]
        "C16" => c16::run(&o),
        #[cfg(feature = "c17")]
        "C17" => c17::run(&o),
        #[cfg(feature = "c18")]
        "C18" => c18::run(&o),
        #[cfg(feature = "c19")]
        "C19" => c19::run(&o),
        #[cfg(feature = "c20")]
        "C20" => c20::run(&o),
        p => {
            eprintln!("unknown property {p}");
            std::process::exit(2);
        }
    }
}
