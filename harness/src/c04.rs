//! C04: persist commits, drop rolls back, and the host's span context is always restored.
//!
//! Histories: streams with heavy re-entrant enters (the same span entered 2-4 times without an
//! exit, nested spans, exits in non-LIFO order), finalised by a persist or a drop at EVERY prefix
//! for short streams and at random points for long ones, preceded by persisted lifetimes; streams
//! that drop the last handle of an entered span (outside `wf_drop`); streams with bogus
//! references; retry pairs (a discarded segment vs. the run in which the discard never happened).
//! Every history is additionally run under a real `tracing_subscriber::Registry` with a host span
//! entered first: after every persist / drop `Span::current()` must be that host span.
use std::{collections::BTreeMap, panic};

use tracing_subscriber::Registry;
use tracing_tunnel::{
    CallSiteKind, LocalSpans, PersistedMetadata, PersistedSpans, TracingEvent, TracingEventReceiver,
};

use crate::{coq::*, out::Sink, recv::*, rng::Rng, Opts};

// ---------------------------------------------------------------------------------------------
// the direct host-level check

/// Host spans seen by a layer on the `Registry`: one record per `on_new_span` (the Registry recycles
/// ids), with the number of `on_close` callbacks it received.
#[derive(Default)]
struct CloseLog {
    records: Vec<u32>,
    by_id: std::collections::HashMap<u64, usize>,
}

#[derive(Clone, Default)]
struct CloseLayer(std::sync::Arc<std::sync::Mutex<CloseLog>>);

impl<S: tracing::Subscriber + for<'a> tracing_subscriber::registry::LookupSpan<'a>> tracing_subscriber::Layer<S> for CloseLayer {
    fn on_new_span(&self, _: &tracing::span::Attributes<'_>, id: &tracing::span::Id, _: tracing_subscriber::layer::Context<'_, S>) {
        let mut log = self.0.lock().unwrap();
        let k = log.records.len();
        log.records.push(0);
        log.by_id.insert(id.into_u64(), k);
    }
    fn on_close(&self, id: tracing::span::Id, _: tracing_subscriber::layer::Context<'_, S>) {
        let mut log = self.0.lock().unwrap();
        if let Some(&k) = log.by_id.get(&id.into_u64()) {
            log.records[k] += 1;
        }
    }
}

/// What the run under a real `Registry` showed.
#[derive(Clone, Copy, Debug)]
pub struct RegistryCheck {
    /// after every persist / drop the thread's current span is the host span again
    pub restored: bool,
    /// after every drop (of a lifetime without lazy re-creations) the Registry has closed, exactly
    /// once, every host span created for a `NewSpan` of that lifetime; no span was closed twice
    pub born_closed: bool,
    /// a drop closed no host span that existed before the lifetime; a persist closed nothing itself
    pub old_kept: bool,
    /// number of drops on which the closure check applied
    pub drops_checked: u64,
}

impl RegistryCheck {
    pub fn ok(&self) -> bool {
        self.restored && self.born_closed && self.old_kept
    }
}

/// Runs the history on a real `Registry` (plus a layer counting `on_close`) with a host span
/// entered first.
pub fn registry_check(steps: &[Step]) -> RegistryCheck {
    use tracing_subscriber::layer::SubscriberExt;
    let mut res = RegistryCheck { restored: true, born_closed: true, old_kept: true, drops_checked: 0 };
    let layer = CloseLayer::default();
    let log = layer.0.clone();
    tracing::subscriber::with_default(Registry::default().with(layer), || {
        let outer = tracing::info_span!("c04_host_outer");
        let _guard = outer.enter();
        let before = tracing::Span::current().id();
        assert!(before.is_some(), "the host span of the Registry check is not entered");
        let mut md = PersistedMetadata::default();
        let mut saved_spans = PersistedSpans::default();
        let mut receiver = TracingEventReceiver::default();
        // records created for `NewSpan` events of the current lifetime; was a span re-created lazily?
        let mut born: Vec<usize> = vec![];
        let mut lazy = false;
        let mut lifetime_start = log.lock().unwrap().records.len();
        // the guest's view, from the accepted events: handle count and host span record of every alive
        // guest span; records whose guest span lost its last handle (the receiver asked the host to close
        // them then; the Registry may close them later, when their children are gone)
        let mut guest: std::collections::HashMap<u64, (usize, Option<usize>)> = Default::default();
        let mut saved_guest = guest.clone();
        let mut released: std::collections::HashSet<usize> = Default::default();
        let mut drops = 0u32;
        let mut restores = 0u32;
        for step in steps {
            match step {
                Step::Recv(ev) => {
                    let ev = ev.clone();
                    let is_new_span = matches!(ev, TracingEvent::NewSpan { .. });
                    let n0 = log.lock().unwrap().records.len();
                    let r = panic::catch_unwind(panic::AssertUnwindSafe(|| receiver.try_receive(ev.clone())));
                    let n1 = log.lock().unwrap().records.len();
                    if is_new_span {
                        born.extend(n0..n1);
                    } else if n1 > n0 {
                        lazy = true;
                    }
                    let created = if n1 > n0 { Some(n1 - 1) } else { None };
                    if matches!(r, Ok(Ok(()))) {
                        match &ev {
                            TracingEvent::NewSpan { id, .. } => {
                                guest.insert(*id, (1, created));
                            }
                            TracingEvent::SpanEntered { id } => {
                                if let (Some(g), Some(k)) = (guest.get_mut(id), created) {
                                    g.1 = Some(k);
                                }
                            }
                            TracingEvent::SpanCloned { id } => {
                                if let Some(g) = guest.get_mut(id) {
                                    g.0 += 1;
                                }
                            }
                            TracingEvent::SpanDropped { id } => {
                                if let Some(g) = guest.get_mut(id) {
                                    g.0 -= 1;
                                    if g.0 == 0 {
                                        released.extend(g.1);
                                        guest.remove(id);
                                    }
                                }
                            }
                            _ => {}
                        }
                    }
                    if r.is_err() {
                        break;
                    }
                }
                Step::Persist { keep } => {
                    md.extend(receiver.persist_metadata());
                    let closed_before: Vec<u32> = log.lock().unwrap().records.clone();
                    let (spans, local) = receiver.persist();
                    res.restored &= tracing::Span::current().id() == before;
                    res.old_kept &= log.lock().unwrap().records == closed_before;
                    let (Ok(spans), Ok(md2)) = (json_roundtrip::<PersistedSpans>(&spans), json_roundtrip::<PersistedMetadata>(&md)) else {
                        res.restored = false; // state this build cannot read back
                        return;
                    };
                    md = md2;
                    saved_spans = spans.clone();
                    let local = if *keep { local } else { LocalSpans::default() };
                    restores += 1;
                    receiver = restore_receiver(restores, md.clone(), spans, local);
                    if !*keep {
                        // the host spans of the alive guest spans are orphaned
                        guest.values_mut().for_each(|g| g.1 = None);
                    }
                    saved_guest = guest.clone();
                    born.clear();
                    lazy = false;
                    lifetime_start = log.lock().unwrap().records.len();
                }
                Step::Drop => {
                    let closed_before: Vec<u32> = log.lock().unwrap().records.clone();
                    drops += 1;
                    if drops % 2 == 1 {
                        crate::recv::drop_while_unwinding(receiver);
                    } else {
                        drop(receiver);
                    }
                    res.restored &= tracing::Span::current().id() == before;
                    {
                        let log = log.lock().unwrap();
                        // no span that existed before the lifetime is closed by the rollback - except one the
                        // guest itself had released in this lifetime and that only waited for its children
                        res.old_kept &= (0..lifetime_start).all(|k| log.records[k] == closed_before[k] || released.contains(&k));
                        if !lazy {
                            res.drops_checked += 1;
                            res.born_closed &= born.iter().all(|&k| log.records[k] == 1);
                        }
                        res.born_closed &= log.records.iter().all(|&c| c <= 1);
                    }
                    restores += 1;
                    receiver = restore_receiver(restores, md.clone(), saved_spans.clone(), LocalSpans::default());
                    guest = saved_guest.clone();
                    guest.values_mut().for_each(|g| g.1 = None);
                    saved_guest = guest.clone();
                    born.clear();
                    lazy = false;
                    lifetime_start = log.lock().unwrap().records.len();
                }
            }
        }
        std::mem::forget(receiver);
        // the host's own guard is still the current span when the host leaves
        res.restored &= tracing::Span::current().id() == before;
    });
    res
}

// ---------------------------------------------------------------------------------------------
// streams with re-entrant enters

#[derive(Default)]
struct Guest {
    handles: BTreeMap<u64, u64>,
    /// one entry per unmatched enter (a multiset; exits pick any position)
    entered: Vec<u64>,
    next: u64,
}

fn alive(g: &Guest) -> Vec<u64> {
    g.handles.keys().copied().collect()
}

fn announce(nonce: &str) -> Vec<TracingEvent> {
    vec![
        TracingEvent::NewCallSite { id: 0, data: call_site(CallSiteKind::Span, nonce, "s", 2, false) },
        TracingEvent::NewCallSite { id: 1, data: call_site(CallSiteKind::Event, nonce, "e", 1, false) },
    ]
}

/// `len`: range of the number of events; `wf`: never drop the last handle of an entered span
/// (what the safe `tracing` API guarantees)
fn gen_ops(r: &mut Rng, g: &mut Guest, len: (usize, usize), max_spans: usize, wf: bool) -> Vec<TracingEvent> {
    let mut evs = vec![];
    if g.next == 0 {
        g.next = 1;
    }
    let len = r.range(len.0, len.1);
    while evs.len() < len {
        let al = alive(g);
        let choice = if al.is_empty() { 0 } else { r.below(20) };
        match choice {
            0..=2 => {
                if al.len() >= max_spans {
                    continue;
                }
                let id = g.next;
                g.next += 1;
                let parent_id = if !al.is_empty() && r.chance(30) { Some(*r.pick(&al)) } else { None };
                evs.push(TracingEvent::NewSpan { id, parent_id, metadata_id: 0, values: vals(0..r.range(0, 2)) });
                g.handles.insert(id, 1);
            }
            3..=8 => {
                let id = *r.pick(&al);
                // re-entrant burst: the same span entered 2-4 times without an exit in between
                let times = if r.chance(45) { r.range(2, 4) } else { 1 };
                for _ in 0..times {
                    evs.push(TracingEvent::SpanEntered { id });
                    g.entered.push(id);
                }
            }
            9..=12 => {
                if g.entered.is_empty() {
                    continue;
                }
                // guards may be dropped in any order
                let pos = if r.chance(50) { g.entered.len() - 1 } else { r.below(g.entered.len() as u64) as usize };
                let id = g.entered.remove(pos);
                evs.push(TracingEvent::SpanExited { id });
            }
            13 => {
                let id = *r.pick(&al);
                evs.push(TracingEvent::SpanCloned { id });
                *g.handles.get_mut(&id).unwrap() += 1;
            }
            14..=15 => {
                let id = *r.pick(&al);
                if wf && g.handles[&id] == 1 && g.entered.contains(&id) {
                    continue;
                }
                evs.push(TracingEvent::SpanDropped { id });
                let h = g.handles.get_mut(&id).unwrap();
                *h -= 1;
                if *h == 0 {
                    g.handles.remove(&id);
                    g.entered.retain(|x| *x != id);
                }
            }
            16 => {
                let id = *r.pick(&al);
                evs.push(TracingEvent::ValuesRecorded { id, values: vals(0..r.range(0, 2)) });
            }
            17 | 18 => {
                let parent = if r.chance(30) { Some(*r.pick(&al)) } else { None };
                evs.push(TracingEvent::NewEvent { metadata_id: 1, parent, values: vals(0..r.range(0, 1)) });
            }
            _ => {
                if al.len() >= 2 {
                    evs.push(TracingEvent::FollowsFrom { id: *r.pick(&al), follows_from: *r.pick(&al) });
                }
            }
        }
    }
    evs
}

fn recvs(evs: &[TracingEvent]) -> Vec<Step> {
    evs.iter().cloned().map(Step::Recv).collect()
}

// ---------------------------------------------------------------------------------------------
// emitting cases

struct Stats {
    persist_forced: u64,
    drop_forced: u64,
    drop_closes: u64,
    max_enter_count: u64,
}

fn observe_stats(obs: &[Obs]) -> Stats {
    let mut s = Stats { persist_forced: 0, drop_forced: 0, drop_closes: 0, max_enter_count: 0 };
    for o in obs {
        match o {
            Obs::Recv(_, _, snap) => {
                for (_, c) in &snap.entered {
                    s.max_enter_count = s.max_enter_count.max(*c as u64);
                }
            }
            Obs::Persist(exits, ..) => s.persist_forced += exits.len() as u64,
            Obs::Drop(calls, ..) => {
                for c in calls {
                    match c {
                        HCall::Exit(_) => s.drop_forced += 1,
                        HCall::TryClose(_) => s.drop_closes += 1,
                        _ => {}
                    }
                }
            }
        }
    }
    s
}

fn bump_stats(sink: &mut Sink, steps: &[Step], obs: &[Obs], reg_ok: bool) -> bool {
    let s = observe_stats(obs);
    for st in steps {
        match st {
            Step::Persist { keep: true } => sink.bump("fin:persist_keep"),
            Step::Persist { keep: false } => sink.bump("fin:persist_lose"),
            Step::Drop => sink.bump("fin:drop"),
            Step::Recv(_) => {}
        }
    }
    sink.bump_by("steps:total", steps.len() as u64);
    sink.bump_by("forced_exits:persist", s.persist_forced);
    sink.bump_by("forced_exits:drop", s.drop_forced);
    sink.bump_by("closes:drop", s.drop_closes);
    sink.bump(&format!("max_unmatched_enters:{}", s.max_enter_count.min(6)));
    sink.bump(if reg_ok { "registry:restored" } else { "registry:not_restored" });
    for o in obs {
        match o {
            Obs::Recv(Outcome::Accepted, ..) => sink.bump("outcome:accepted"),
            Obs::Recv(Outcome::Panicked, ..) => sink.bump("outcome:panicked"),
            Obs::Recv(..) => sink.bump("outcome:rejected"),
            _ => {}
        }
    }
    // non-trivial: some finalisation had to force an exit or close a span
    s.persist_forced + s.drop_forced + s.drop_closes > 0
}

fn case(sink: &mut Sink, idx: u64, kind: &str, steps: &[Step], nonce: &str) {
    if !sink.wants(idx) {
        return;
    }
    // the recording run first: it must see the call sites of this case registered afresh
    let obs = run_history(steps, nonce);
    let reg = registry_check(steps);
    let reg_ok = reg.ok();
    sink.bump_by("registry:drops_with_closure_check", reg.drops_checked);
    if !reg.born_closed {
        sink.bump("registry:born_span_not_closed_once");
    }
    if !reg.old_kept {
        sink.bump("registry:older_span_closed");
    }
    let nontrivial = bump_stats(sink, steps, &obs, reg.restored);
    let input = csteps(steps);
    intern_begin();
    let judge = format!("judge_c04 {} {} {}", csteps(steps), cobss(&obs), cbool(reg_ok));
    let judge = intern_wrap(&judge);
    sink.case(idx, kind, &judge, &input, nontrivial, || serde_json::json!({ "steps": csteps(steps), "registry_restored": reg.restored, "registry_born_spans_closed_once_on_drop": reg.born_closed, "registry_older_spans_kept": reg.old_kept }));
}

/// `pre ; persist k ; seg ; drop ; rest` against `pre ; persist k' ; rest` (rest = seg retried, then more)
#[allow(clippy::too_many_arguments)]
fn retry_case(
    sink: &mut Sink,
    idx: u64,
    kind: &str,
    build: &dyn Fn(&str) -> (Vec<Step>, Vec<Step>, Vec<Step>),
    k: bool,
    k2: bool,
    nonce: &str,
) {
    if !sink.wants(idx) {
        return;
    }
    let n1 = format!("{nonce}a");
    let n2 = format!("{nonce}b");
    let (pre1, seg1, rest1) = build(&n1);
    let (pre2, _seg2, rest2) = build(&n2);
    let mut steps1 = pre1.clone();
    steps1.push(Step::Persist { keep: k });
    steps1.extend(seg1.iter().cloned());
    steps1.push(Step::Drop);
    steps1.extend(rest1.iter().cloned());
    let mut steps2 = pre2.clone();
    steps2.push(Step::Persist { keep: k2 });
    steps2.extend(rest2.iter().cloned());
    let obs1 = run_history(&steps1, &n1);
    let obs2 = run_history(&steps2, &n2);
    let s = observe_stats(&obs1);
    sink.bump_by("steps:total", (steps1.len() + steps2.len()) as u64);
    sink.bump_by("retry:discarded_events", seg1.len() as u64);
    let nontrivial = s.drop_forced + s.drop_closes > 0;
    let input = csteps(&steps1);
    intern_begin();
    let judge = format!(
        "judge_c04_retry {} {} {} {} {} {} {} {} {}",
        csteps(&pre1),
        cbool(k),
        csteps(&seg1),
        csteps(&rest1),
        cobss(&obs1),
        csteps(&pre2),
        cbool(k2),
        csteps(&rest2),
        cobss(&obs2)
    );
    let judge = intern_wrap(&judge);
    sink.case(idx, kind, &judge, &input, nontrivial, || {
        serde_json::json!({ "with_discard": csteps(&steps1), "without": csteps(&steps2) })
    });
}

// ---------------------------------------------------------------------------------------------

pub fn run(o: &Opts) {
    let mut sink = Sink::new(&o.out, o.shards, "Judge.C04", o.only.clone());
    let mut idx = 0u64;

    // 1. the shared corpus (F2, F3, F4, bogus events)
    let ncorpus = corpus("x").len();
    for k in 0..ncorpus {
        let nonce = format!("c04_{}_c{k}", o.seed);
        let steps = corpus(&nonce).swap_remove(k);
        case(&mut sink, idx, "corpus", &steps, &nonce);
        idx += 1;
    }
    // hand-written: the two F4 shapes on their own, non-LIFO exits, nested re-entrancy, a span that
    // is force-exited by a persist and exited again by the guest in the next lifetime
    let e = |id| Step::Recv(TracingEvent::SpanEntered { id });
    let x = |id| Step::Recv(TracingEvent::SpanExited { id });
    let n = |id, p| Step::Recv(TracingEvent::NewSpan { id, parent_id: p, metadata_id: 0, values: vals(0..0) });
    let d = |id| Step::Recv(TracingEvent::SpanDropped { id });
    let hand: Vec<Vec<Step>> = vec![
        vec![n(1, None), e(1), e(1), Step::Persist { keep: true }],
        vec![n(1, None), e(1), e(1), x(1), Step::Drop],
        vec![n(1, None), n(2, Some(1)), e(1), e(2), e(1), e(2), x(1), Step::Persist { keep: true }, x(2), x(1), x(2), Step::Persist { keep: true }],
        vec![n(1, None), e(1), e(1), e(1), Step::Persist { keep: false }, e(1), x(1), x(1), x(1), x(1), Step::Drop],
        vec![n(1, None), Step::Persist { keep: true }, n(2, None), e(1), e(2), e(2), Step::Drop, e(1), Step::Persist { keep: true }],
        vec![n(1, None), e(1), e(1), x(1), x(1), x(1), Step::Persist { keep: true }],
        // outside wf_drop: the last handle is dropped inside the span
        vec![n(1, None), e(1), d(1), Step::Persist { keep: true }],
        vec![n(1, None), e(1), e(1), d(1), n(2, None), e(2), Step::Drop],
    ];
    for (k, body) in hand.into_iter().enumerate() {
        let nonce = format!("c04_{}_h{k}", o.seed);
        let mut steps = recvs(&announce(&nonce));
        steps.extend(body);
        case(&mut sink, idx, "hand", &steps, &nonce);
        idx += 1;
    }

    // 2. small scope: every abort point of short re-entrant streams, x {persist, drop},
    //    after 0 or 1 persisted lifetime (local map kept or lost)
    let nshort = if o.thorough { 1200 } else { 40 } * o.scale;
    for s in 0..nshort {
        let mut r = Rng::for_case(o.seed, "C04/prefix", s);
        let nonce = format!("c04_{}_p{s}", o.seed);
        let mut g = Guest::default();
        let with_pre = r.chance(60);
        let pre = if with_pre { gen_ops(&mut r, &mut g, (2, 6), 3, true) } else { vec![] };
        let keep = r.chance(60);
        let body = gen_ops(&mut r, &mut g, (4, 9), 3, true);
        let continue_after = r.chance(40);
        for p in 0..=body.len() {
            for fin in [Step::Persist { keep: true }, Step::Drop] {
                if sink.wants(idx) {
                    // call sites are unique per case: the arena must register them afresh
                    let case_nonce = format!("{nonce}_{idx}");
                    let mut r2 = Rng::for_case(o.seed, "C04/prefix-fin", idx);
                    let mut steps = recvs(&announce(&case_nonce));
                    if with_pre {
                        steps.extend(recvs(&pre));
                        steps.push(Step::Persist { keep });
                    }
                    steps.extend(recvs(&body[..p]));
                    steps.push(fin.clone());
                    if continue_after {
                        steps.extend(recvs(&body[p..]));
                        steps.push(if r2.chance(50) { Step::Drop } else { Step::Persist { keep: true } });
                    }
                    case(&mut sink, idx, "every_prefix", &steps, &case_nonce);
                }
                idx += 1;
            }
        }
    }

    // 3. long re-entrant streams, cut at random points (drop-heavy), always finalised at the end
    let nlong = if o.thorough { 20_000 } else { 450 } * o.scale;
    for _ in 0..nlong {
        if sink.wants(idx) {
            let mut r = Rng::for_case(o.seed, "C04/long", idx);
            let nonce = format!("c04_{}_{idx}", o.seed);
            let mut g = Guest::default();
            let mut evs = announce(&nonce);
            let max_spans = r.range(1, 5);
            evs.extend(gen_ops(&mut r, &mut g, (15, 60), max_spans, true));
            let cut = *r.pick(&[5u64, 12, 25]);
            let mut steps = with_cuts(&mut r, &evs, cut, 35, 50);
            if matches!(steps.last(), Some(Step::Recv(_))) {
                steps.push(if r.chance(50) { Step::Drop } else { Step::Persist { keep: true } });
            }
            case(&mut sink, idx, "long", &steps, &nonce);
        }
        idx += 1;
    }

    // 4. streams outside wf_drop (the last handle of an entered span is dropped)
    let nbad = if o.thorough { 5_000 } else { 150 } * o.scale;
    for _ in 0..nbad {
        if sink.wants(idx) {
            let mut r = Rng::for_case(o.seed, "C04/nowf", idx);
            let nonce = format!("c04_{}_{idx}", o.seed);
            let mut g = Guest::default();
            let mut evs = announce(&nonce);
            evs.extend(gen_ops(&mut r, &mut g, (8, 30), 3, false));
            let mut steps = with_cuts(&mut r, &evs, 15, 35, 50);
            if matches!(steps.last(), Some(Step::Recv(_))) {
                steps.push(if r.chance(50) { Step::Drop } else { Step::Persist { keep: true } });
            }
            case(&mut sink, idx, "no_wf_drop", &steps, &nonce);
        }
        idx += 1;
    }

    // 5. perturbed streams of the shared generator (bogus references, oversized value sets)
    let npert = if o.thorough { 5_000 } else { 150 } * o.scale;
    for _ in 0..npert {
        if sink.wants(idx) {
            let mut r = Rng::for_case(o.seed, "C04/perturbed", idx);
            let nonce = format!("c04_{}_{idx}", o.seed);
            let bad = *r.pick(&[0u64, 5, 15]);
            let cfg = StreamCfg { len: r.range(6, 40), bad, max_fields: 8, explicit_parents: true, respect_entered: bad == 0 };
            let evs = gen_stream(&mut r, &cfg, &nonce);
            let mut steps = with_cuts(&mut r, &evs, 15, 35, 50);
            steps.push(if r.chance(50) { Step::Drop } else { Step::Persist { keep: true } });
            case(&mut sink, idx, "perturbed", &steps, &nonce);
        }
        idx += 1;
    }

    // 6. retry pairs
    let nretry = if o.thorough { 8_000 } else { 300 } * o.scale;
    for _ in 0..nretry {
        if sink.wants(idx) {
            let seed_rng = Rng::for_case(o.seed, "C04/retry", idx);
            let nonce = format!("c04_{}_{idx}", o.seed);
            let mut r0 = seed_rng.clone();
            let k = r0.chance(60);
            let k2 = r0.chance(60);
            let build = move |nonce: &str| {
                let mut r = seed_rng.clone();
                r.next();
                r.next();
                let mut g = Guest::default();
                let mut pre = announce(nonce);
                pre.extend(gen_ops(&mut r, &mut g, (0, 10), 3, true));
                let mut pre = if r.chance(30) { with_cuts(&mut r, &pre, 15, 40, 30) } else { recvs(&pre) };
                if matches!(pre.last(), Some(Step::Persist { .. })) {
                    pre.pop();
                }
                // the discarded segment; sometimes it announces a call site of its own (lost by
                // the rollback, announced again by the retry) and sometimes it contains a drop
                let mut seg_evs = vec![];
                let late_site = r.chance(30);
                if late_site {
                    seg_evs.push(TracingEvent::NewCallSite { id: 2, data: call_site(CallSiteKind::Event, nonce, "late", 1, false) });
                }
                let seg_wf = r.chance(85);
                seg_evs.extend(gen_ops(&mut r, &mut g, (1, 12), 4, seg_wf));
                if late_site {
                    seg_evs.push(TracingEvent::NewEvent { metadata_id: 2, parent: None, values: vals(0..1) });
                }
                let mut seg = recvs(&seg_evs);
                if r.chance(15) && seg.len() > 2 {
                    let at = r.below(seg.len() as u64) as usize;
                    seg.insert(at, Step::Drop);
                }
                // the retry, then the execution goes on
                let mut rest: Vec<Step> = recvs(&seg_evs);
                let more = gen_ops(&mut r, &mut g, (0, 10), 4, true);
                rest.extend(with_cuts(&mut r, &more, 12, 40, 30));
                if !matches!(rest.last(), Some(Step::Persist { .. })) {
                    rest.push(Step::Persist { keep: true });
                }
                (pre, seg, rest)
            };
            retry_case(&mut sink, idx, "retry", &build, k, k2, &nonce);
        }
        idx += 1;
    }

    sink.finish(
        "histories = re-entrant streams (same span entered up to 4+ times without exit, nested spans, non-LIFO exits) finalised by persist or drop at every prefix (short streams) or at random points (long streams), after persisted lifetimes with the local map kept or lost; plus streams outside wf_drop, perturbed streams, and retry pairs; every history is also run under tracing_subscriber::Registry with a host span entered first; non-trivial = some finalisation had to force an exit or close a span; distinct = distinct canonical step list",
        serde_json::json!({}),
    );
}
