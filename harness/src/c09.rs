//! C09: call-site data reaches the host unchanged and is interned once per value.
//!
//! A case is a sequence of steps over 1..=4 real `TracingEventReceiver`s sharing the process-global
//! arena: announcements (`NewCallSite`), restores (`TracingEventReceiver::new` from the
//! `persist_metadata()` of another receiver, or from fresh data, always through a serde_json round
//! trip), uses (a `NewSpan` / `NewEvent` so that the host sees the metadata) and persists.
//! A recording `Subscriber` logs `register_callsite` and the metadata of spans / events with their
//! ADDRESSES; `verif_snapshot()` gives the address each receiver holds per id; the hook counters give
//! the number of leaked `Metadata` / strings.
//!
//! The arena outlives a case.  Independence of cases: every target carries the nonce
//! `c09<mode>_<seed>_<idx>::`, every other string is either nonce-prefixed or taken from `POOL`, which
//! is interned once at process start by the warm-up description (printed into every case, the model
//! interns it first too).
//!
//! The bucketing hash is forced through `HASH_OVERRIDE`, installed ONCE before any receiver exists and
//! never changed; it dispatches on the nonce: `k` = all descriptions of the case in one bucket,
//! `m` = two buckets per case (number of fields mod 2), `g` = two buckets shared by all `g` cases of
//! the process, `s` = the SipHash value the code computes by default (DefaultHasher over the derived
//! `Hash`), handed to the model as a table.
use std::{
    borrow::Cow,
    collections::{hash_map::DefaultHasher, BTreeMap, BTreeSet, HashMap},
    hash::{Hash, Hasher},
    sync::{atomic::Ordering, Arc, Mutex},
};

use tracing_core::{
    span::{Attributes, Id, Record},
    Dispatch, Event, Interest, Metadata, Subscriber,
};
use tracing_tunnel::{
    verif_hooks, CallSiteData, CallSiteKind, LocalSpans, PersistedMetadata, PersistedSpans,
    TracedValues, TracingEvent, TracingEventReceiver, TracingLevel,
};

use crate::{coq::*, out::Sink, rng::Rng, Opts};

// ---------------------------------------------------------------------------------------------
// strings shared by all cases (pre-interned by the warm-up description)

const POOL: &[&str] = &[
    "", " ", "a", "b", "x", "y", "A", "0", "00", "message", "approx", "return", "fib", "fib_", "fibonacci",
    "app", "app::", "app::module", "app::module::sub", "src/lib.rs", "src/lib.rs ", "src/main.rs",
    "C:\\src\\main.rs", "событие", "события", "日本語", "naïve", "naive", "🦀", "tab\there",
    "quote\"d", "new\nline", "\u{0}", "event src/lib.rs:7", "f0", "f1", "f2", "f3", "f4", "f5", "f6", "f7",
];
const WARM_TARGET: &str = "c09_w";
const LEVELS: &[TracingLevel] =
    &[TracingLevel::Error, TracingLevel::Warn, TracingLevel::Info, TracingLevel::Debug, TracingLevel::Trace];

fn owned(s: &str) -> Cow<'static, str> {
    Cow::Owned(s.to_owned())
}

/// The same description with every string borrowed from a static that is NOT part of the arena (what
/// an in-process `TracingEventSender` hands over: `CallSiteData::from(&Metadata)` borrows from the
/// guest's statics).  The strings are leaked: a few hundred bytes per case.
fn borrowed(d: &CallSiteData) -> CallSiteData {
    fn leak(s: &str) -> Cow<'static, str> {
        Cow::Borrowed(Box::leak(s.to_owned().into_boxed_str()))
    }
    CallSiteData {
        kind: d.kind.clone(),
        name: leak(&d.name),
        target: leak(&d.target),
        level: d.level,
        module_path: d.module_path.as_deref().map(leak),
        file: d.file.as_deref().map(leak),
        line: d.line,
        fields: d.fields.iter().map(|f| leak(f)).collect(),
    }
}

fn warm_descs() -> Vec<CallSiteData> {
    vec![CallSiteData {
        kind: CallSiteKind::Span,
        name: owned(WARM_TARGET),
        target: owned(WARM_TARGET),
        level: TracingLevel::Info,
        module_path: None,
        file: None,
        line: None,
        fields: POOL.iter().map(|s| owned(s)).collect(),
    }]
}

// ---------------------------------------------------------------------------------------------
// the hash override (mirrored by `hash_of` in Judge/C09.v)

fn sip(d: &CallSiteData) -> u64 {
    let mut h = DefaultHasher::new();
    d.hash(&mut h);
    h.finish()
}

fn hash_override(d: &CallSiteData) -> u64 {
    let t: &str = &d.target;
    if t == WARM_TARGET {
        return 0;
    }
    if let Some(rest) = t.strip_prefix("c09") {
        if let Some((head, _)) = rest.split_once("::") {
            let idx = head.rsplit('_').next().and_then(|s| s.parse::<u64>().ok()).unwrap_or(0);
            let parity = (d.fields.len() % 2) as u64;
            match head.as_bytes().first() {
                Some(b'k') => return idx,
                Some(b'm') => return 2 * idx + parity,
                Some(b'g') => return parity,
                _ => {}
            }
        }
    }
    sip(d)
}

#[derive(Clone, Copy, Debug, PartialEq)]
enum Mode {
    K,
    M,
    G,
    S,
    /// no override installed at all (child process): the code's own `hash_metadata`
    P,
}
impl Mode {
    fn letter(self) -> char {
        match self {
            Mode::K => 'k',
            Mode::M => 'm',
            Mode::G => 'g',
            Mode::S => 's',
            Mode::P => 'p',
        }
    }
}

// ---------------------------------------------------------------------------------------------
// recording host

#[derive(Default)]
struct HostLog {
    regs: Vec<(usize, CallSiteData)>,
    seen: Vec<(usize, CallSiteData)>,
    next: u64,
}
#[derive(Clone, Default)]
struct Host(Arc<Mutex<HostLog>>);

fn addr(m: &'static Metadata<'static>) -> usize {
    m as *const Metadata<'static> as usize
}

impl Subscriber for Host {
    fn register_callsite(&self, m: &'static Metadata<'static>) -> Interest {
        self.0.lock().unwrap().regs.push((addr(m), CallSiteData::from(m)));
        Interest::always()
    }
    fn enabled(&self, _: &Metadata<'_>) -> bool {
        true
    }
    fn new_span(&self, a: &Attributes<'_>) -> Id {
        let mut st = self.0.lock().unwrap();
        let m = a.metadata();
        st.seen.push((addr(m), CallSiteData::from(m)));
        st.next += 1;
        Id::from_u64(st.next)
    }
    fn record(&self, _: &Id, _: &Record<'_>) {}
    fn record_follows_from(&self, _: &Id, _: &Id) {}
    fn event(&self, e: &Event<'_>) {
        let m = e.metadata();
        self.0.lock().unwrap().seen.push((addr(m), CallSiteData::from(m)));
    }
    fn enter(&self, _: &Id) {}
    fn exit(&self, _: &Id) {}
    fn try_close(&self, _: Id) -> bool {
        true
    }
}

// ---------------------------------------------------------------------------------------------
// cases

#[derive(Clone, Debug)]
enum Step {
    Announce { r: usize, id: u64, d: CallSiteData },
    RestoreFrom { dst: usize, src: usize },
    RestoreData { dst: usize, entries: Vec<(u64, CallSiteData)> },
    Use { r: usize, id: u64 },
    Persist { r: usize },
}

struct Case {
    mode: Mode,
    nonce: String,
    idx: u64,
    nrecv: usize,
    steps: Vec<Step>,
}

#[derive(Debug)]
struct Obs {
    held: Vec<(u64, u64, CallSiteData)>,
    regs: Vec<(u64, CallSiteData)>,
    seen: Vec<(u64, CallSiteData)>,
    persist: Option<Vec<(u64, CallSiteData)>>,
    dm: usize,
    ds: usize,
}

fn persisted(r: &TracingEventReceiver) -> Vec<(u64, CallSiteData)> {
    let pm = r.persist_metadata();
    let mut v: Vec<(u64, CallSiteData)> = pm.iter().map(|(id, d)| (id, d.clone())).collect();
    v.sort_by_key(|(id, _)| *id);
    v
}

fn restore(pm: PersistedMetadata) -> TracingEventReceiver {
    TracingEventReceiver::new(pm, PersistedSpans::default(), LocalSpans::default())
}

fn execute(case: &Case) -> Vec<Obs> {
    let host = Host::default();
    let dispatch = Dispatch::new(host.clone());
    let mut out = vec![];
    tracing_core::dispatcher::with_default(&dispatch, || {
        let mut recvs: Vec<TracingEventReceiver> = (0..case.nrecv).map(|_| TracingEventReceiver::default()).collect();
        let mut canon: HashMap<usize, u64> = HashMap::new();
        let mut span_id = 0u64;
        let mut announced: std::collections::HashSet<String> = Default::default();
        for step in &case.steps {
            let m0 = verif_hooks::LEAKED_METADATA.load(Ordering::SeqCst);
            let s0 = verif_hooks::LEAKED_STRINGS.load(Ordering::SeqCst);
            let (r0, n0) = {
                let st = host.0.lock().unwrap();
                (st.regs.len(), st.seen.len())
            };
            let mut racer_fault = 0usize;
            let (r, only_id, with_persist) = match step {
                Step::Announce { r, id, d } => {
                    if case.idx % 5 == 0 {
                        // racing announcements: three more receivers, on threads of their own, announce
                        // the same description at the same moment.  Whoever wins, the step must leak one
                        // metadata object and register it once with the (shared) host: duplicates show in
                        // the leak counter and in the registrations observed for this step.
                        let start = std::sync::Barrier::new(4);
                        let racers_agree = std::thread::scope(|scope| {
                            let handles: Vec<_> = (0..3)
                                .map(|_| {
                                    let (start, dispatch, d) = (&start, dispatch.clone(), d.clone());
                                    scope.spawn(move || {
                                        tracing_core::dispatcher::with_default(&dispatch, || {
                                            let mut racer = TracingEventReceiver::default();
                                            start.wait();
                                            racer.try_receive(TracingEvent::NewCallSite { id: 7, data: d }).expect("announcement rejected");
                                            racer.verif_snapshot().metadata.first().map(|(_, _, a)| *a)
                                        })
                                    })
                                })
                                .collect();
                            start.wait();
                            recvs[*r]
                                .try_receive(TracingEvent::NewCallSite { id: *id, data: d.clone() })
                                .expect("announcement rejected");
                            let mine = recvs[*r].verif_snapshot().metadata.iter().find(|(i, ..)| i == id).map(|(_, _, a)| *a);
                            handles.into_iter().all(|h| h.join().map_or(false, |a| a == mine))
                        });
                        // reported through an impossible leak count
                        if !racers_agree {
                            racer_fault = 1000;
                        }
                    } else {
                        // a description that was announced before in this case is handed over with borrowed
                        // strings (none of them is new to the arena, so the leak counters are not concerned)
                        let data = if announced.contains(&serde_json::to_string(d).unwrap()) { borrowed(d) } else { d.clone() };
                        recvs[*r].try_receive(TracingEvent::NewCallSite { id: *id, data }).expect("announcement rejected");
                    }
                    announced.insert(serde_json::to_string(d).unwrap());
                    (*r, Some(*id), true)
                }
                Step::RestoreFrom { dst, src } => {
                    let pm = recvs[*src].persist_metadata();
                    let json = serde_json::to_string(&pm).expect("serialize metadata");
                    let pm: PersistedMetadata = serde_json::from_str(&json).expect("deserialize metadata");
                    recvs[*dst] = restore(pm);
                    (*dst, None, true)
                }
                Step::RestoreData { dst, entries } => {
                    let mut obj = serde_json::Map::new();
                    for (id, d) in entries {
                        obj.insert(id.to_string(), serde_json::to_value(d).expect("serialize data"));
                    }
                    let json = serde_json::to_string(&serde_json::Value::Object(obj)).unwrap();
                    let pm: PersistedMetadata = serde_json::from_str(&json).expect("deserialize metadata");
                    recvs[*dst] = restore(pm);
                    (*dst, None, true)
                }
                Step::Use { r, id } => {
                    let kind = recvs[*r]
                        .verif_snapshot()
                        .metadata
                        .iter()
                        .find(|(i, ..)| i == id)
                        .map(|(_, d, _)| d.kind.clone());
                    match kind {
                        Some(CallSiteKind::Span) => {
                            span_id += 1;
                            recvs[*r]
                                .try_receive(TracingEvent::NewSpan {
                                    id: span_id,
                                    parent_id: None,
                                    metadata_id: *id,
                                    values: TracedValues::new(),
                                })
                                .expect("span rejected");
                            recvs[*r].try_receive(TracingEvent::SpanDropped { id: span_id }).expect("drop rejected");
                        }
                        Some(_) => {
                            recvs[*r]
                                .try_receive(TracingEvent::NewEvent {
                                    metadata_id: *id,
                                    parent: None,
                                    values: TracedValues::new(),
                                })
                                .expect("event rejected");
                        }
                        None => {
                            let res = recvs[*r].try_receive(TracingEvent::NewEvent {
                                metadata_id: *id,
                                parent: None,
                                values: TracedValues::new(),
                            });
                            assert!(res.is_err(), "unknown call site accepted");
                        }
                    }
                    (*r, Some(*id), false)
                }
                Step::Persist { r } => (*r, None, true),
            };
            let dm = verif_hooks::LEAKED_METADATA.load(Ordering::SeqCst) - m0 + racer_fault;
            let ds = verif_hooks::LEAKED_STRINGS.load(Ordering::SeqCst) - s0;
            let mut number = |a: usize| -> u64 {
                let n = canon.len() as u64;
                *canon.entry(a).or_insert(n)
            };
            let snapshot = recvs[r].verif_snapshot().metadata;
            let held: Vec<(u64, u64, CallSiteData)> = snapshot
                .into_iter()
                .filter(|(id, ..)| only_id.map_or(true, |i| i == *id))
                .map(|(id, d, a)| (id, number(a), d))
                .collect();
            let (mut regs, seen) = {
                let st = host.0.lock().unwrap();
                let regs: Vec<(u64, CallSiteData)> = st.regs[r0..].iter().map(|(a, d)| (number(*a), d.clone())).collect();
                let seen: Vec<(u64, CallSiteData)> = st.seen[n0..].iter().map(|(a, d)| (number(*a), d.clone())).collect();
                (regs, seen)
            };
            // `new()` re-interns in HashMap order; the model interns by ascending id
            regs.sort_by_key(|(p, _)| *p);
            // after an announcement the whole map is listed only while it is small (or now and then)
            let listed = only_id.is_none() || recvs[r].persist_metadata().len() <= 6 || out.len() % 5 == 0;
            let persist = if with_persist && listed { Some(persisted(&recvs[r])) } else { None };
            out.push(Obs { held, regs, seen, persist, dm, ds });
        }
        drop(recvs);
    });
    out
}

// ---------------------------------------------------------------------------------------------
// printing

fn cstep(s: &Step) -> String {
    match s {
        Step::Announce { r, id, d } => format!("(AAnnounce {r} {id} {})", ccs(d)),
        Step::RestoreFrom { dst, src } => format!("(ARestoreFrom {dst} {src})"),
        Step::RestoreData { dst, entries } => {
            format!("(ARestoreData {dst} {})", clist(entries.iter(), |(id, d)| format!("({id}, {})", ccs(d))))
        }
        Step::Use { r, id } => format!("(AUse {r} {id})"),
        Step::Persist { r } => format!("(APersist {r})"),
    }
}
fn cpc(l: &[(u64, CallSiteData)]) -> String {
    clist(l.iter(), |(p, d)| format!("({p}, {})", ccs(d)))
}
fn cobs(o: &Obs) -> String {
    format!(
        "(mk_iobs {} {} {} {} {} {})",
        clist(o.held.iter(), |(id, p, d)| format!("({id}, {p}, {})", ccs(d))),
        cpc(&o.regs),
        cpc(&o.seen),
        copt(o.persist.as_ref(), |l| cpc(l)),
        o.dm,
        o.ds
    )
}

fn case_descs(case: &Case) -> Vec<&CallSiteData> {
    let mut v = vec![];
    for s in &case.steps {
        match s {
            Step::Announce { d, .. } => v.push(d),
            Step::RestoreData { entries, .. } => v.extend(entries.iter().map(|(_, d)| d)),
            _ => {}
        }
    }
    v
}

fn cmode(case: &Case) -> String {
    match case.mode {
        Mode::K => format!("(HConst {})", case.idx),
        Mode::M => format!("(HMod2 {})", 2 * case.idx),
        Mode::G => "(HMod2 0)".into(),
        Mode::S | Mode::P => {
            let mut seen = BTreeSet::new();
            let mut items = vec![];
            for d in case_descs(case) {
                let text = ccs(d);
                if seen.insert(text.clone()) {
                    items.push(format!("({text}, {})", sip(d)));
                }
            }
            format!("(HTable [{}])", items.join("; "))
        }
    }
}

/// In the child process of the no-override pass every case is also written here, for the parent.
static PLAIN_OUT: Mutex<Option<std::fs::File>> = Mutex::new(None);

fn emit(sink: &mut Sink, kind: &str, case: &Case) {
    let idx = case.idx;
    if !sink.wants(idx) {
        return;
    }
    let obs = execute(case);
    intern_begin();
    let warm = clist(warm_descs().iter(), ccs);
    let mode = cmode(case);
    let steps = clist(case.steps.iter(), cstep);
    let impl_ = clist(obs.iter(), cobs);
    let term = intern_wrap(&format!("judge_case {mode} {warm} {steps} {impl_}"));

    // statistics
    let descs = case_descs(case);
    let mut distinct: BTreeMap<String, usize> = BTreeMap::new();
    for d in &descs {
        *distinct.entry(format!("{d:?}")).or_insert(0) += 1;
    }
    let repeated = distinct.values().any(|n| *n >= 2);
    let nontrivial = distinct.len() >= 2 && repeated;
    sink.bump(&format!("mode:{}", case.mode.letter()));
    sink.bump(&format!("receivers:{}", case.nrecv));
    sink.bump(match case.steps.len() {
        0..=4 => "steps:0-4",
        5..=15 => "steps:5-15",
        16..=40 => "steps:16-40",
        _ => "steps:41+",
    });
    sink.bump(match distinct.len() {
        0..=1 => "distinct-descriptions:0-1",
        2..=4 => "distinct-descriptions:2-4",
        5..=12 => "distinct-descriptions:5-12",
        _ => "distinct-descriptions:13+",
    });
    for s in &case.steps {
        sink.bump(match s {
            Step::Announce { .. } => "step:announce",
            Step::RestoreFrom { .. } => "step:restore-from-receiver",
            Step::RestoreData { .. } => "step:restore-from-data",
            Step::Use { .. } => "step:use",
            Step::Persist { .. } => "step:persist",
        });
    }
    for d in &descs {
        sink.bump(match d.fields.len() {
            0 => "fields:0",
            1..=6 => "fields:1-6",
            7..=32 => "fields:7-32",
            _ => "fields:33-64",
        });
        if d.name == d.target {
            sink.bump("desc:name==target");
        }
        let mut names = BTreeSet::new();
        if d.fields.iter().any(|f| !names.insert(f.as_ref())) {
            sink.bump("desc:duplicate-field-names");
        }
    }
    let regs: usize = obs.iter().map(|o| o.regs.len()).sum();
    let leaked: usize = obs.iter().map(|o| o.dm).sum();
    sink.bump_by("impl:registrations", regs as u64);
    sink.bump_by("impl:leaked-metadata", leaked as u64);
    sink.bump_by("impl:leaked-strings", obs.iter().map(|o| o.ds as u64).sum::<u64>());
    sink.bump_by("impl:announcements-resolved-to-existing", obs.iter().zip(&case.steps).filter(|(o, s)| matches!(s, Step::Announce { .. }) && o.dm == 0).count() as u64);

    let key = format!("{:?}{steps}", case.mode);
    let describe = || {
        serde_json::json!({
            "mode": format!("{:?}", case.mode),
            "nonce": case.nonce,
            "receivers": case.nrecv,
            "steps": case.steps.iter().map(|s| format!("{s:?}")).collect::<Vec<_>>(),
            "impl": obs.iter().map(|o| format!("{o:?}")).collect::<Vec<_>>(),
        })
    };
    if let Some(f) = PLAIN_OUT.lock().unwrap().as_mut() {
        use std::io::Write;
        let line = serde_json::json!({ "idx": idx, "kind": kind, "judge": term, "key": key, "nontrivial": nontrivial, "desc": describe() });
        writeln!(f, "{line}").unwrap();
    }
    sink.case(idx, kind, &term, &key, nontrivial, describe);
}

// ---------------------------------------------------------------------------------------------
// generators

fn nonce(mode: Mode, seed: u64, idx: u64) -> String {
    format!("c09{}_{seed}_{idx}::", mode.letter())
}

fn pool_str(rng: &mut Rng) -> String {
    (*rng.pick(POOL)).to_owned()
}

/// a string that is either shared (pool) or private to the case (nonce-prefixed)
fn any_str(rng: &mut Rng, nonce: &str) -> String {
    match rng.below(4) {
        0 => format!("{nonce}{}", pool_str(rng)),
        1 => format!("{nonce}{}", rng.below(4)),
        _ => pool_str(rng),
    }
}

fn gen_fields(rng: &mut Rng, nonce: &str) -> Vec<String> {
    let n = match rng.below(20) {
        0..=3 => 0,
        4..=13 => rng.range(1, 6),
        14..=16 => rng.range(7, 32),
        17..=18 => rng.range(33, 64),
        _ => 64,
    };
    // names mostly distinct, sometimes duplicated / empty / private
    (0..n)
        .map(|i| match rng.below(10) {
            0 => pool_str(rng),
            1 => format!("{nonce}f{}", i % 3),
            _ => {
                if i < 8 {
                    format!("f{i}")
                } else {
                    format!("{nonce}f{i}")
                }
            }
        })
        .collect()
}

fn gen_desc(rng: &mut Rng, nonce: &str) -> CallSiteData {
    let target = format!("{nonce}{}", pool_str(rng));
    let name = match rng.below(6) {
        0 => target.clone(),
        _ => any_str(rng, nonce),
    };
    let module = match rng.below(4) {
        0 => None,
        1 => Some(target.clone()),
        _ => Some(any_str(rng, nonce)),
    };
    let file = match rng.below(3) {
        0 => None,
        _ => Some(any_str(rng, nonce)),
    };
    let line = match rng.below(6) {
        0 | 1 => None,
        2 => Some(0),
        3 => Some(u32::MAX),
        _ => Some(rng.below(500) as u32),
    };
    CallSiteData {
        kind: if rng.chance(50) { CallSiteKind::Span } else { CallSiteKind::Event },
        name: Cow::Owned(name),
        target: Cow::Owned(target),
        level: LEVELS[rng.below(5) as usize],
        module_path: module.map(Cow::Owned),
        file: file.map(Cow::Owned),
        line,
        fields: gen_fields(rng, nonce).into_iter().map(Cow::Owned).collect(),
    }
}

fn other<'a>(cur: &str, a: &'a str, b: &'a str) -> &'a str {
    if cur == a {
        b
    } else {
        a
    }
}

/// ALL descriptions differing from `d` in exactly one attribute along the listed axes
/// (plus the name/target swap, which changes two).
fn variants(d: &CallSiteData, nonce: &str) -> Vec<(&'static str, CallSiteData)> {
    let mut v: Vec<(&'static str, CallSiteData)> = vec![];
    let mut push = |what: &'static str, f: &dyn Fn(&mut CallSiteData)| {
        let mut x = d.clone();
        f(&mut x);
        v.push((what, x));
    };
    push("kind", &|x| {
        x.kind = match x.kind {
            CallSiteKind::Span => CallSiteKind::Event,
            _ => CallSiteKind::Span,
        }
    });
    push("name:other", &|x| x.name = owned(other(&x.name, "fib", "fib_")));
    push("name:extended", &|x| {
        let name = x.name.to_string();
        x.name = Cow::Owned(format!("{nonce}{} ", name.strip_prefix(nonce).unwrap_or(&name)));
    });
    push("name:empty-or-a", &|x| x.name = owned(other(&x.name, "", "a")));
    push("target:other", &|x| x.target = Cow::Owned(format!("{nonce}{}", other(&x.target[nonce.len()..], "app", "app::"))));
    push("target:extended", &|x| x.target = Cow::Owned(format!("{}x", x.target)));
    for l in LEVELS {
        if format!("{l:?}") != format!("{:?}", d.level) {
            let l = *l;
            push("level", &move |x| x.level = l);
        }
    }
    match &d.module_path {
        None => {
            push("module:none->some", &|x| x.module_path = Some(owned("app::module")));
            push("module:none->some-empty", &|x| x.module_path = Some(owned("")));
        }
        Some(m) => {
            push("module:some->none", &|x| x.module_path = None);
            let m = m.to_string();
            push("module:different", &move |x| x.module_path = Some(owned(other(&m, "app::module", "app::module::sub"))));
        }
    }
    match &d.file {
        None => {
            push("file:none->some", &|x| x.file = Some(owned("src/lib.rs")));
            push("file:none->some-empty", &|x| x.file = Some(owned("")));
        }
        Some(f) => {
            push("file:some->none", &|x| x.file = None);
            let f = f.to_string();
            push("file:different", &move |x| x.file = Some(owned(other(&f, "src/lib.rs", "src/lib.rs "))));
        }
    }
    match d.line {
        None => {
            push("line:none->some", &|x| x.line = Some(0));
            push("line:none->some-max", &|x| x.line = Some(u32::MAX));
        }
        Some(n) => {
            push("line:some->none", &|x| x.line = None);
            push("line:different", &move |x| x.line = Some(if n == 7 { 8 } else { 7 }));
            push("line:neighbour", &move |x| x.line = Some(n.wrapping_add(1)));
        }
    }
    let n = d.fields.len();
    push("fields:one-extra-empty-name", &|x| x.fields.push(owned("")));
    push("fields:one-extra-front", &|x| x.fields.insert(0, owned("x")));
    if n >= 1 {
        push("fields:one-fewer-back", &|x| {
            x.fields.pop();
        });
        push("fields:one-fewer-front", &|x| {
            x.fields.remove(0);
        });
        push("fields:one-renamed", &move |x| {
            let cur = x.fields[n / 2].to_string();
            x.fields[n / 2] = owned(other(&cur, "y", "x"));
        });
        push("fields:last-duplicated", &|x| {
            let last = x.fields.last().unwrap().clone();
            x.fields.push(last);
        });
    }
    if n >= 2 {
        // order swapped (only a change if the two names differ)
        if let Some(i) = (0..n - 1).find(|i| d.fields[*i] != d.fields[*i + 1]) {
            push("fields:order-swapped", &move |x| x.fields.swap(i, i + 1));
        }
        if d.fields[0] != d.fields[n - 1] {
            push("fields:ends-swapped", &move |x| x.fields.swap(0, n - 1));
        }
    }
    if d.name != d.target {
        push("swap:name<->target-suffix", &|x| {
            let suffix = x.target[nonce.len()..].to_owned();
            let name = x.name.to_string();
            x.target = Cow::Owned(format!("{nonce}{}", name.strip_prefix(nonce).unwrap_or(&name)));
            x.name = Cow::Owned(suffix);
        });
    }
    v.retain(|(_, x)| format!("{x:?}") != format!("{d:?}"));
    v
}

/// base + all its one-attribute variants, each announced, then everything re-announced in another
/// order under other ids on another receiver, with uses, restores and persists in between
fn pairs_case(rng: &mut Rng, sink: &mut Sink, mode: Mode, seed: u64, idx: u64, base_of: impl Fn(&mut Rng, &str) -> CallSiteData) -> Case {
    let nonce = nonce(mode, seed, idx);
    let base = base_of(rng, &nonce);
    let vars = variants(&base, &nonce);
    for (what, _) in &vars {
        sink.bump(&format!("variant:{what}"));
    }
    let mut all: Vec<CallSiteData> = vec![base];
    all.extend(vars.into_iter().map(|(_, d)| d));
    let n = all.len() as u64;
    let mut steps = vec![];
    for (i, d) in all.iter().enumerate() {
        steps.push(Step::Announce { r: 0, id: i as u64, d: d.clone() });
    }
    steps.push(Step::Persist { r: 0 });
    // second round: rotated order, other ids, other receiver
    let rot = rng.below(n) as usize;
    for k in 0..all.len() {
        let i = (k * 7 + rot) % all.len();
        let i = if all.len() % 7 == 0 { (k + rot) % all.len() } else { i };
        steps.push(Step::Announce { r: 1, id: 100 + k as u64, d: all[i].clone() });
        if rng.chance(15) {
            steps.push(Step::Use { r: 1, id: 100 + k as u64 });
        }
    }
    steps.push(Step::RestoreFrom { dst: 2, src: 1 });
    steps.push(Step::Use { r: 2, id: 100 });
    steps.push(Step::Use { r: 0, id: 0 });
    steps.push(Step::RestoreFrom { dst: 0, src: 0 });
    Case { mode, nonce, idx, nrecv: 3, steps }
}

fn random_case(rng: &mut Rng, mode: Mode, seed: u64, idx: u64) -> Case {
    let nonce = nonce(mode, seed, idx);
    let nrecv = rng.range(1, 4);
    // description pool of the case: a few bases, some of their variants
    let nbase = rng.range(1, 3);
    let mut descs: Vec<CallSiteData> = vec![];
    for _ in 0..nbase {
        let b = gen_desc(rng, &nonce);
        let vars = variants(&b, &nonce);
        descs.push(b);
        for _ in 0..rng.below(4) {
            if !vars.is_empty() {
                descs.push(vars[rng.below(vars.len() as u64) as usize].1.clone());
            }
        }
    }
    let nids = rng.range(1, 6) as u64;
    let big_id = |rng: &mut Rng, i: u64| if rng.chance(5) { u64::MAX - i } else { i };
    let nsteps = rng.range(1, 30);
    let mut steps = vec![];
    for _ in 0..nsteps {
        let r = rng.below(nrecv as u64) as usize;
        match rng.below(20) {
            0..=10 => {
                let d = descs[rng.below(descs.len() as u64) as usize].clone();
                let id = rng.below(nids);
                steps.push(Step::Announce { r, id: big_id(rng, id), d });
            }
            11..=12 => steps.push(Step::RestoreFrom { dst: r, src: rng.below(nrecv as u64) as usize }),
            13..=14 => {
                let mut entries: BTreeMap<u64, CallSiteData> = BTreeMap::new();
                for _ in 0..rng.below(5) {
                    let d = if rng.chance(25) {
                        gen_desc(rng, &nonce)
                    } else {
                        descs[rng.below(descs.len() as u64) as usize].clone()
                    };
                    let id = rng.below(nids + 2);
                    entries.insert(big_id(rng, id), d);
                }
                steps.push(Step::RestoreData { dst: r, entries: entries.into_iter().collect() });
            }
            15..=17 => steps.push(Step::Use { r, id: rng.below(nids + 1) }),
            _ => steps.push(Step::Persist { r }),
        }
    }
    Case { mode, nonce, idx, nrecv, steps }
}

fn simple(kind: CallSiteKind, name: &str, target: &str, fields: &[&str]) -> CallSiteData {
    CallSiteData {
        kind,
        name: owned(name),
        target: owned(target),
        level: TracingLevel::Info,
        module_path: Some(owned("app::module")),
        file: Some(owned("src/lib.rs")),
        line: Some(7),
        fields: fields.iter().map(|f| owned(f)).collect(),
    }
}

fn corpus(mode: Mode, seed: u64, idx: u64, which: usize) -> Case {
    let nonce = nonce(mode, seed, idx);
    let t = format!("{nonce}app");
    let a = simple(CallSiteKind::Span, "fib", &t, &["approx"]);
    let steps = match which {
        // the suite's scenario: the same call site announced twice
        0 => vec![
            Step::Announce { r: 0, id: 0, d: a.clone() },
            Step::Announce { r: 0, id: 0, d: a.clone() },
            Step::Persist { r: 0 },
            Step::Use { r: 0, id: 0 },
        ],
        // same description under different ids in different receivers; restore cycle
        1 => vec![
            Step::Announce { r: 0, id: 1, d: a.clone() },
            Step::Announce { r: 1, id: 2, d: a.clone() },
            Step::RestoreFrom { dst: 2, src: 0 },
            Step::RestoreFrom { dst: 2, src: 2 },
            Step::Announce { r: 2, id: 1, d: simple(CallSiteKind::Event, "fib", &t, &["approx"]) },
            Step::Use { r: 2, id: 1 },
            Step::Use { r: 0, id: 1 },
            Step::Persist { r: 2 },
        ],
        // everything empty / absent; name == target
        2 => {
            let e = CallSiteData {
                kind: CallSiteKind::Event,
                name: owned(&nonce),
                target: owned(&nonce),
                level: TracingLevel::Trace,
                module_path: None,
                file: None,
                line: None,
                fields: vec![],
            };
            let mut e2 = e.clone();
            e2.fields = vec![owned("")];
            let mut e3 = e.clone();
            e3.module_path = Some(owned(""));
            vec![
                Step::Announce { r: 0, id: 0, d: e.clone() },
                Step::Announce { r: 0, id: 1, d: e2 },
                Step::Announce { r: 0, id: 2, d: e3 },
                Step::Announce { r: 0, id: 3, d: e },
                Step::Use { r: 0, id: 1 },
                Step::Use { r: 0, id: 9 },
                Step::Persist { r: 0 },
            ]
        }
        // 64 fields, duplicates, restore from fresh data with a new and a known description
        3 => {
            let names: Vec<String> = (0..64).map(|i| if i % 9 == 0 { "f0".to_owned() } else { format!("{nonce}f{i}") }).collect();
            let refs: Vec<&str> = names.iter().map(String::as_str).collect();
            let big = simple(CallSiteKind::Span, "событие", &t, &refs);
            let mut big2 = big.clone();
            big2.fields.swap(1, 2);
            vec![
                Step::Announce { r: 0, id: 5, d: big.clone() },
                Step::RestoreData { dst: 1, entries: vec![(1, big2.clone()), (2, big.clone()), (u64::MAX, big2.clone())] },
                Step::Announce { r: 0, id: 5, d: big2 },
                Step::Use { r: 1, id: 2 },
                Step::Use { r: 1, id: u64::MAX },
                Step::RestoreFrom { dst: 0, src: 1 },
            ]
        }
        // no step at all / persist of a default receiver
        _ => vec![Step::Persist { r: 0 }, Step::Use { r: 0, id: 0 }, Step::RestoreFrom { dst: 0, src: 0 }],
    };
    Case { mode, nonce, idx, nrecv: 3, steps }
}

fn warm_up() {
    let mut warm = TracingEventReceiver::default();
    for (i, d) in warm_descs().into_iter().enumerate() {
        warm.try_receive(TracingEvent::NewCallSite { id: i as u64, data: d }).unwrap();
    }
}

/// Child process: NO hash override is ever installed, so the arena buckets by its own
/// `hash_metadata`.  Cases `base .. base + count` of the random-history stream.
fn run_plain(o: &Opts, spec: &str) {
    let (base, count) = spec.split_once(':').expect("TT_C09_PLAIN=base:count");
    let (base, count): (u64, u64) = (base.parse().unwrap(), count.parse().unwrap());
    warm_up();
    std::fs::create_dir_all(&o.out).unwrap();
    *PLAIN_OUT.lock().unwrap() = Some(std::fs::File::create(o.out.join("plain.jsonl")).unwrap());
    let mut sink = Sink::new(&o.out, 1, "Judge.C09", o.only.clone());
    for idx in base..base + count {
        let mut rng = Rng::for_case(o.seed, "C09-plain", idx);
        let case = random_case(&mut rng, Mode::P, o.seed, idx);
        emit(&mut sink, "random-history-no-override", &case);
    }
    sink.finish("", serde_json::json!({}));
}

/// Runs the no-override pass in a separate process (the override of this process stays installed
/// for its whole life) and merges its cases into `sink`.
fn spawn_plain(o: &Opts, sink: &mut Sink, base: u64, count: u64) {
    if let Some(only) = &o.only {
        if !only.iter().any(|i| (base..base + count).contains(i)) {
            return;
        }
    }
    let sub = o.out.join("plain");
    let mut cmd = std::process::Command::new(std::env::current_exe().expect("current_exe"));
    cmd.args(["gen", "C09", "--tier", if o.thorough { "thorough" } else { "quick" }])
        .args(["--seed", &o.seed.to_string(), "--shards", "1", "--scale", &o.scale.to_string()])
        .arg("--out")
        .arg(&sub)
        .env("TT_C09_PLAIN", format!("{base}:{count}"))
        .stdout(std::process::Stdio::null());
    if let Some(only) = &o.only {
        let list: Vec<String> = only.iter().map(u64::to_string).collect();
        cmd.args(["--only", &list.join(",")]);
    }
    let status = cmd.status().expect("spawn the no-override pass");
    assert!(status.success(), "the no-override pass failed");
    let text = std::fs::read_to_string(sub.join("plain.jsonl")).expect("plain.jsonl");
    for line in text.lines() {
        let v: serde_json::Value = serde_json::from_str(line).expect("plain.jsonl line");
        let desc = v["desc"].clone();
        sink.case(
            v["idx"].as_u64().unwrap(),
            v["kind"].as_str().unwrap(),
            v["judge"].as_str().unwrap(),
            v["key"].as_str().unwrap(),
            v["nontrivial"].as_bool().unwrap(),
            move || desc,
        );
    }
    let meta: serde_json::Value =
        serde_json::from_str(&std::fs::read_to_string(sub.join("meta.json")).expect("meta.json")).unwrap();
    if let Some(h) = meta["histogram"].as_object() {
        for (k, n) in h {
            if !k.starts_with("kind:") {
                sink.bump_by(k, n.as_u64().unwrap_or(0));
            }
        }
    }
    let _ = std::fs::remove_dir_all(&sub);
}

pub fn run(o: &Opts) {
    if let Ok(spec) = std::env::var("TT_C09_PLAIN") {
        run_plain(o, &spec);
        return;
    }
    // installed once, before any receiver is used, never changed
    *verif_hooks::HASH_OVERRIDE.write().unwrap() = Some(hash_override);
    warm_up();

    let mut sink = Sink::new(&o.out, o.shards, "Judge.C09", o.only.clone());
    let mut idx = 0u64;
    let modes = [Mode::K, Mode::M, Mode::S, Mode::G];

    // 1. hand-written cases, under every hash regime
    for which in 0..5 {
        for mode in modes {
            let case = corpus(mode, o.seed, idx, which);
            emit(&mut sink, "corpus", &case);
            idx += 1;
        }
    }

    // 2. all one-attribute variants of a base: a fixed extreme base first, then generated bases
    let nbases = if o.thorough { 300 } else { 50 } * o.scale;
    for b in 0..nbases {
        let mode = modes[(b % 3) as usize];
        let mut rng = Rng::for_case(o.seed, "C09-pairs", idx);
        let case = pairs_case(&mut rng, &mut sink, mode, o.seed, idx, |rng, nonce| {
            if b < 3 {
                let t = format!("{nonce}app");
                simple(CallSiteKind::Span, "fib", &t, &["a", "b", "a"])
            } else {
                let mut d = gen_desc(rng, nonce);
                if d.fields.len() > 12 && b % 5 != 0 {
                    d.fields.truncate(12);
                }
                d
            }
        });
        emit(&mut sink, "one-attribute-variants", &case);
        idx += 1;
    }

    // 3. random histories
    let nrandom = if o.thorough { 40_000 } else { 2_000 } * o.scale;
    for k in 0..nrandom {
        let mode = match k % 10 {
            0..=3 => Mode::K,
            4..=6 => Mode::M,
            7..=8 => Mode::S,
            _ => Mode::G,
        };
        // the `g` buckets are shared by all `g` cases of the process: keep them few (scans are linear)
        let mode = if mode == Mode::G && k >= 3_000 { Mode::M } else { mode };
        let mut rng = Rng::for_case(o.seed, "C09-random", idx);
        let case = random_case(&mut rng, mode, o.seed, idx);
        emit(&mut sink, "random-history", &case);
        idx += 1;
    }

    // 4. the same kind of histories in a process that never installs the override
    let nplain = if o.thorough { 4_000 } else { 300 } * o.scale;
    spawn_plain(o, &mut sink, idx, nplain);

    sink.finish(
        "a case = steps (announce / restore from another receiver's persist_metadata / restore from fresh data / use / persist) over \
         1..=4 real receivers sharing the process arena, with the bucketing hash forced per case (k: one bucket, m: fields mod 2, g: two \
         process-wide buckets, s: the code's own SipHash computed by the override, p: separate process without any override); observations per step: address (first-occurrence index) and content held per \
         id, register_callsite calls (address, content), metadata seen by the host in new_span/event, persist_metadata(), deltas of the \
         leak counters. non-trivial = at least two distinct descriptions and some description handed to the arena at least twice",
        serde_json::json!({
            "pool_strings": POOL.len(),
            "leaked_metadata_total": verif_hooks::LEAKED_METADATA.load(Ordering::SeqCst),
            "leaked_strings_total": verif_hooks::LEAKED_STRINGS.load(Ordering::SeqCst),
        }),
    );
}
