//! Shared engine for the receiver properties (C02-C08): a strict recording host subscriber,
//! execution of persist/restore/drop histories on the real `TracingEventReceiver`, Gallina
//! printing of what happened after every step, and stream generators.
use std::{
    borrow::Cow,
    collections::BTreeMap,
    panic,
    sync::{Arc, Mutex},
};

use tracing_core::{
    span::{Attributes, Id, Record},
    Event, Interest, Metadata, Subscriber,
};
use tracing_tunnel::{
    CallSiteData, CallSiteKind, LocalSpans, PersistedMetadata, PersistedSpans, TracedValue,
    TracedValues, TracingEvent, TracingEventReceiver, TracingLevel,
};

use crate::{coq::*, rng::Rng};

// ---------------------------------------------------------------------------------------------
// recording host

#[derive(Clone, Debug)]
pub enum Parent {
    Ctx,
    Root,
    Explicit(u64),
}

#[derive(Clone, Debug)]
pub enum HCall {
    Register(CallSiteData),
    NewSpan(u64, CallSiteData, Parent, TracedValues<String>),
    Record(u64, TracedValues<String>),
    Follows(u64, u64),
    Event(CallSiteData, Parent, TracedValues<String>),
    Enter(u64),
    Exit(u64),
    TryClose(u64),
    /// `clone_span` must never be forwarded by the receiver; recorded so that it shows up
    CloneSpan(u64),
}

#[derive(Default)]
pub struct RecState {
    pub next: u64,
    pub log: Vec<HCall>,
    pub nonce: String,
}

#[derive(Clone, Default)]
pub struct Recorder(pub Arc<Mutex<RecState>>);

impl Recorder {
    pub fn new(nonce: &str) -> Self {
        let r = Self::default();
        r.0.lock().unwrap().nonce = nonce.to_owned();
        r
    }
    pub fn mark(&self) -> usize {
        self.0.lock().unwrap().log.len()
    }
    pub fn since(&self, mark: usize) -> Vec<HCall> {
        self.0.lock().unwrap().log[mark..].to_vec()
    }
}

fn data_of(m: &'static Metadata<'static>) -> CallSiteData {
    CallSiteData::from(m)
}

impl Subscriber for Recorder {
    fn register_callsite(&self, m: &'static Metadata<'static>) -> Interest {
        let mut st = self.0.lock().unwrap();
        if m.target().starts_with(&st.nonce) {
            st.log.push(HCall::Register(data_of(m)));
        }
        Interest::always()
    }
    fn enabled(&self, _: &Metadata<'_>) -> bool {
        true
    }
    fn new_span(&self, a: &Attributes<'_>) -> Id {
        let mut st = self.0.lock().unwrap();
        st.next += 1;
        let id = st.next;
        let parent = if let Some(p) = a.parent() {
            Parent::Explicit(p.into_u64())
        } else if a.is_root() {
            Parent::Root
        } else {
            Parent::Ctx
        };
        let vals = seen_in_values(a.values());
        st.log.push(HCall::NewSpan(id, data_of(a.metadata()), parent, vals));
        Id::from_u64(id)
    }
    fn record(&self, s: &Id, v: &Record<'_>) {
        let vals = seen_in_record(v);
        self.0.lock().unwrap().log.push(HCall::Record(s.into_u64(), vals));
    }
    fn record_follows_from(&self, s: &Id, f: &Id) {
        self.0.lock().unwrap().log.push(HCall::Follows(s.into_u64(), f.into_u64()));
    }
    fn event(&self, e: &Event<'_>) {
        let parent = if let Some(p) = e.parent() {
            Parent::Explicit(p.into_u64())
        } else if e.is_root() {
            Parent::Root
        } else {
            Parent::Ctx
        };
        let vals = seen_in_event(e);
        self.0.lock().unwrap().log.push(HCall::Event(data_of(e.metadata()), parent, vals));
    }
    fn enter(&self, s: &Id) {
        self.0.lock().unwrap().log.push(HCall::Enter(s.into_u64()));
    }
    fn exit(&self, s: &Id) {
        self.0.lock().unwrap().log.push(HCall::Exit(s.into_u64()));
    }
    fn clone_span(&self, s: &Id) -> Id {
        self.0.lock().unwrap().log.push(HCall::CloneSpan(s.into_u64()));
        s.clone()
    }
    fn try_close(&self, s: Id) -> bool {
        self.0.lock().unwrap().log.push(HCall::TryClose(s.into_u64()));
        true
    }
}

// ---------------------------------------------------------------------------------------------
// histories

#[derive(Clone, Debug)]
pub enum Step {
    Recv(TracingEvent),
    Persist { keep: bool },
    Drop,
}

#[derive(Clone, Debug)]
pub enum Outcome {
    Accepted,
    UnknownMeta(u64),
    UnknownSpan(u64),
    TooMany(usize),
    OtherError(String),
    Panicked,
}

pub type Snapshot = tracing_tunnel::verif_hooks::VerifSnapshot;

#[derive(Clone, Debug)]
pub enum Obs {
    Recv(Outcome, Vec<HCall>, Snapshot),
    Persist(Vec<HCall>, Snapshot /* spans + md of the persisted state */, Vec<HCall>, Snapshot),
    Drop(Vec<HCall>, Vec<HCall>, Snapshot),
}

/// Encodes to JSON and decodes again; the decoder alternates (by the parity of the text length)
/// between the borrowing one (`from_str`) and the owning one (`from_reader`): persisted state is
/// read from files and sockets as often as from strings.
pub fn json_roundtrip<T: serde::Serialize + serde::de::DeserializeOwned>(x: &T) -> Result<T, String> {
    let text = serde_json::to_string(x).map_err(|e| format!("serialize: {e}"))?;
    if text.len() % 2 == 0 {
        serde_json::from_str(&text).map_err(|e| format!("from_str: {e}"))
    } else {
        serde_json::from_reader(text.as_bytes()).map_err(|e| format!("from_reader: {e}"))
    }
}

/// A subscriber that is NOT the host: it answers "not interested" to everything and counts what it
/// is told.  Every second restored receiver is constructed while this one is the default dispatcher
/// (a host that rebuilds its receivers while loading state, before its subscriber is installed): what
/// a receiver relays goes to the dispatcher that is current when the event is RECEIVED.
#[derive(Clone, Default)]
pub struct Decoy(pub Arc<std::sync::atomic::AtomicUsize>);

impl Subscriber for Decoy {
    fn register_callsite(&self, _: &'static Metadata<'static>) -> Interest {
        Interest::never()
    }
    fn enabled(&self, _: &Metadata<'_>) -> bool {
        false
    }
    fn new_span(&self, _: &tracing_core::span::Attributes<'_>) -> tracing_core::span::Id {
        self.0.fetch_add(1, std::sync::atomic::Ordering::SeqCst);
        tracing_core::span::Id::from_u64(0xdec0_dec0)
    }
    fn record(&self, _: &tracing_core::span::Id, _: &tracing_core::span::Record<'_>) {
        self.0.fetch_add(1, std::sync::atomic::Ordering::SeqCst);
    }
    fn record_follows_from(&self, _: &tracing_core::span::Id, _: &tracing_core::span::Id) {
        self.0.fetch_add(1, std::sync::atomic::Ordering::SeqCst);
    }
    fn event(&self, _: &tracing_core::Event<'_>) {
        self.0.fetch_add(1, std::sync::atomic::Ordering::SeqCst);
    }
    fn enter(&self, _: &tracing_core::span::Id) {
        self.0.fetch_add(1, std::sync::atomic::Ordering::SeqCst);
    }
    fn exit(&self, _: &tracing_core::span::Id) {
        self.0.fetch_add(1, std::sync::atomic::Ordering::SeqCst);
    }
}

/// Builds a restored receiver; every second one (by `n`) under the decoy dispatcher.
pub fn restore_receiver(n: u32, md: PersistedMetadata, spans: PersistedSpans, local: LocalSpans) -> TracingEventReceiver {
    if n % 2 == 0 {
        TracingEventReceiver::new(md, spans, local)
    } else {
        tracing::subscriber::with_default(Decoy::default(), || TracingEventReceiver::new(md, spans, local))
    }
}

/// Drops the receiver as a local of a frame that a panic unwinds (`std::thread::panicking()` is true
/// inside its `Drop`).  `resume_unwind` does not run the panic hook.
pub fn drop_while_unwinding(receiver: TracingEventReceiver) {
    let _ = panic::catch_unwind(panic::AssertUnwindSafe(move || {
        let _owned = receiver;
        panic::resume_unwind(Box::new("host glue panicked"));
    }));
}

/// Runs a history on the implementation. Returns one observation per executed step
/// (execution stops after a panic).
pub fn run_history(steps: &[Step], nonce: &str) -> Vec<Obs> {
    let rec = Recorder::new(nonce);
    let mut out = vec![];
    tracing::subscriber::with_default(rec.clone(), || {
        let mut md = PersistedMetadata::default();
        let mut saved_spans = PersistedSpans::default();
        let mut receiver = TracingEventReceiver::default();
        let mut drops = 0u32;
        let mut restores = 0u32;
        for step in steps {
            match step {
                Step::Recv(ev) => {
                    let mark = rec.mark();
                    let ev = ev.clone();
                    let res = panic::catch_unwind(panic::AssertUnwindSafe(|| receiver.try_receive(ev)));
                    let calls = rec.since(mark);
                    match res {
                        Ok(r) => {
                            let o = match r {
                                Ok(()) => Outcome::Accepted,
                                Err(tracing_tunnel::ReceiveError::UnknownMetadataId(id)) => Outcome::UnknownMeta(id),
                                Err(tracing_tunnel::ReceiveError::UnknownSpanId(id)) => Outcome::UnknownSpan(id),
                                Err(tracing_tunnel::ReceiveError::TooManyValues { actual, .. }) => Outcome::TooMany(actual),
                                Err(e) => Outcome::OtherError(e.to_string()),
                            };
                            out.push(Obs::Recv(o, calls, receiver.verif_snapshot()));
                        }
                        Err(_) => {
                            let snap = panic::catch_unwind(panic::AssertUnwindSafe(|| receiver.verif_snapshot()))
                                .unwrap_or_default();
                            out.push(Obs::Recv(Outcome::Panicked, calls, snap));
                            std::mem::forget(receiver);
                            return;
                        }
                    }
                }
                Step::Persist { keep } => {
                    md.extend(receiver.persist_metadata());
                    let mark = rec.mark();
                    let (spans, local) = receiver.persist();
                    let exits = rec.since(mark);
                    let (spans, md2) = match (json_roundtrip(&spans), json_roundtrip(&md)) {
                        (Ok(s), Ok(m)) => (s, m),
                        (Err(e), _) | (_, Err(e)) => {
                            // state written by this build that this build cannot read back
                            out.push(Obs::Recv(Outcome::OtherError(format!("persisted state: {e}")), exits, Snapshot::default()));
                            return;
                        }
                    };
                    md = md2;
                    saved_spans = spans.clone();
                    let local = if *keep { local } else { LocalSpans::default() };
                    let mark = rec.mark();
                    restores += 1;
                    receiver = restore_receiver(restores, md.clone(), spans, local);
                    let regs = rec.since(mark);
                    // the persisted spans / metadata are observed through the restored receiver
                    let persisted = receiver.verif_snapshot();
                    out.push(Obs::Persist(exits, persisted, regs, receiver.verif_snapshot()));
                }
                Step::Drop => {
                    let mark = rec.mark();
                    // every second drop happens while a panic unwinds through the frame that owns the
                    // receiver (a host whose glue code panics on a guest trap): the same roll-back is due
                    drops += 1;
                    if drops % 2 == 0 {
                        drop_while_unwinding(receiver);
                    } else {
                        drop(receiver);
                    }
                    let calls = rec.since(mark);
                    let mark = rec.mark();
                    restores += 1;
                    receiver = restore_receiver(restores, md.clone(), saved_spans.clone(), LocalSpans::default());
                    let regs = rec.since(mark);
                    out.push(Obs::Drop(calls, regs, receiver.verif_snapshot()));
                }
            }
        }
        // the last receiver is forgotten: finalisation is only observed through explicit steps
        std::mem::forget(receiver);
    });
    out
}

// ---------------------------------------------------------------------------------------------
// Gallina printing

pub fn cparent(p: &Parent) -> String {
    match p {
        Parent::Ctx => "PCtx".into(),
        Parent::Root => "PRoot".into(),
        Parent::Explicit(h) => format!("(PExplicit {h})"),
    }
}
pub fn chcall(c: &HCall) -> String {
    match c {
        HCall::Register(d) => format!("(HRegister {})", ccs(d)),
        HCall::NewSpan(h, d, p, v) => format!("(HNewSpan {h} {} {} {})", ccs(d), cparent(p), ctvs(v)),
        HCall::Record(h, v) => format!("(HRecord {h} {})", ctvs(v)),
        HCall::Follows(a, b) => format!("(HFollows {a} {b})"),
        HCall::Event(d, p, v) => format!("(HEvent {} {} {})", ccs(d), cparent(p), ctvs(v)),
        HCall::Enter(h) => format!("(HEnter {h})"),
        HCall::Exit(h) => format!("(HExit {h})"),
        HCall::TryClose(h) => format!("(HTryClose {h})"),
        // the model has no such call: an impossible id makes the comparison fail visibly
        HCall::CloneSpan(h) => format!("(HFollows {h} {h})"),
    }
}
pub fn ccalls(cs: &[HCall]) -> String {
    clist(cs.iter(), chcall)
}
pub fn coutcome(o: &Outcome) -> String {
    match o {
        Outcome::Accepted => "Accepted".into(),
        Outcome::UnknownMeta(i) => format!("(Rejected (UnknownMeta {i}))"),
        Outcome::UnknownSpan(i) => format!("(Rejected (UnknownSpan {i}))"),
        Outcome::TooMany(n) => format!("(Rejected (TooMany {n}))"),
        Outcome::OtherError(_) => "(Rejected (TooMany 0))".into(),
        Outcome::Panicked => "Panicked".into(),
    }
}
fn cspans(s: &Snapshot) -> String {
    clist(s.spans.iter(), |(id, m, p, rc, v)| format!("({id}, mk_sd {m} {} {rc} {})", copt(*p, cn), ctvs(v)))
}
fn cmd(s: &Snapshot) -> String {
    clist(s.metadata.iter(), |(id, d, _)| format!("({id}, {})", ccs(d)))
}
pub fn csnap(s: &Snapshot) -> String {
    format!(
        "(mk_snap {} {} {} {} {})",
        cmd(s),
        cspans(s),
        clist(s.local_spans.iter(), |(a, b)| format!("({a}, {b})")),
        clist(s.uncommitted.iter(), cn),
        clist(s.entered.iter(), |(a, b)| format!("({a}, {b})"))
    )
}
pub fn cstep(s: &Step) -> String {
    match s {
        Step::Recv(e) => format!("SRecv {}", cevent(e)),
        Step::Persist { keep } => format!("SPersist {}", cbool(*keep)),
        Step::Drop => "SDrop".into(),
    }
}
pub fn cobs(o: &Obs) -> String {
    match o {
        Obs::Recv(o, calls, s) => format!("IRecv {} {} {}", coutcome(o), ccalls(calls), csnap(s)),
        Obs::Persist(exits, persisted, regs, s) => format!(
            "IPersist {} {} {} {} {}",
            ccalls(exits),
            cspans(persisted),
            cmd(persisted),
            ccalls(regs),
            csnap(s)
        ),
        Obs::Drop(calls, regs, s) => format!("IDrop {} {} {}", ccalls(calls), ccalls(regs), csnap(s)),
    }
}
pub fn csteps(steps: &[Step]) -> String {
    clist(steps.iter(), cstep)
}
pub fn cobss(obs: &[Obs]) -> String {
    clist(obs.iter(), cobs)
}

// ---------------------------------------------------------------------------------------------
// generators

pub const FIELD_COUNTS: &[usize] = &[0, 1, 2, 3, 5, 8, 32, 33, 40, 64, 70, 100];

pub fn call_site(kind: CallSiteKind, nonce: &str, name: &str, nfields: usize, dup_fields: bool) -> CallSiteData {
    let fields = (0..nfields)
        .map(|i| {
            let i = if dup_fields && i % 3 == 2 { i - 1 } else { i };
            Cow::Owned(format!("f{i}"))
        })
        .collect();
    CallSiteData {
        kind,
        name: Cow::Owned(name.to_owned()),
        target: Cow::Owned(format!("{nonce}::t")),
        level: TracingLevel::Info,
        module_path: None,
        file: Some(Cow::Borrowed("f.rs")),
        line: Some(7),
        fields,
    }
}

/// Symbolic guest state used to generate mostly-valid streams.
#[derive(Default, Clone)]
pub struct Guest {
    pub handles: BTreeMap<u64, u64>,
    pub stack: Vec<u64>,
    pub next: u64,
    pub sites: Vec<(u64, usize, bool)>, // (metadata id, field count, is_span)
}

pub struct StreamCfg {
    pub len: usize,
    /// percent of bogus choices (unknown ids, dead spans, oversized value sets)
    pub bad: u64,
    pub max_fields: usize,
    pub explicit_parents: bool,
    /// percent chance that the stream never drops the last handle of an entered span (always true
    /// for sender output; bogus streams may do it)
    pub respect_entered: bool,
}

fn small_value(r: &mut Rng) -> TracedValue {
    match r.below(6) {
        0 => TracedValue::Bool(r.chance(50)),
        1 => TracedValue::Int(r.below(5) as i128 - 2),
        2 => TracedValue::UInt(r.below(5) as u128),
        3 => TracedValue::Float((r.below(9) as f64) / 4.0),
        4 => TracedValue::String(format!("s{}", r.below(3))),
        _ => {
            if r.chance(50) {
                mk_object("Obj { x: 1 }")
            } else {
                mk_error(&["outer".to_owned(), "inner".to_owned()])
            }
        }
    }
}

pub fn gen_values(r: &mut Rng, nfields: usize, max: usize, bogus_names: bool) -> TracedValues<String> {
    let n = r.range(0, max);
    // `n` DISTINCT names (a collection holds every name once, so drawing with replacement would
    // almost never produce more than 32 entries): mostly fields of the call site, in random order;
    // beyond them (and sometimes instead of them) names the call site does not declare
    let declared = nfields.max(1) + usize::from(bogus_names);
    let mut pool: Vec<String> = (0..declared.max(n + 2)).map(|i| format!("f{i}")).collect();
    let mut vals = TracedValues::new();
    for _ in 0..n {
        let name = if bogus_names && r.chance(15) {
            format!("x{}", r.below(50))
        } else {
            // a name from the front part of the pool (declared fields first; names taken are replaced
            // by undeclared ones from the back)
            let limit = pool.len().min(declared);
            pool.swap_remove(r.below(limit as u64) as usize)
        };
        vals.insert(name, small_value(r));
    }
    vals
}

impl Guest {
    fn alive(&self) -> Vec<u64> {
        self.handles.keys().copied().collect()
    }
    fn pick_span(&self, r: &mut Rng, bad: u64) -> u64 {
        let alive = self.alive();
        if alive.is_empty() || r.chance(bad) {
            r.below(self.next + 3)
        } else {
            alive[r.below(alive.len() as u64) as usize]
        }
    }
}

/// Generates a stream over `sites` call sites announced up front (plus late/duplicate announcements).
pub fn gen_stream(r: &mut Rng, cfg: &StreamCfg, nonce: &str) -> Vec<TracingEvent> {
    let mut evs = vec![];
    let mut g = Guest { next: 1, ..Guest::default() };
    let nsites = r.range(2, 5);
    let mut datas = vec![];
    for i in 0..nsites {
        let is_span = i % 2 == 0 || r.chance(30);
        let nf = loop {
            let nf = *r.pick(FIELD_COUNTS);
            if nf <= cfg.max_fields {
                break nf;
            }
        };
        let kind = if is_span { CallSiteKind::Span } else { CallSiteKind::Event };
        // near-duplicates: a call site that agrees with an earlier one of the same kind in everything
        // but its field list (a longer or shorter list of the same names, i.e. prefix-related; sometimes
        // the same names in reverse order), or in nothing at all (the same description under two ids)
        let twin = if i >= 1 && r.chance(35) { (0..i).rev().find(|j| g.sites[*j].2 == is_span) } else { None };
        let name = format!("cs{}", twin.unwrap_or(i));
        let mut d = call_site(kind, nonce, &name, nf, twin.is_none() && r.chance(10));
        if twin.is_some() && r.chance(25) {
            d.fields.reverse();
        }
        let id = 100 + i as u64 * 7;
        g.sites.push((id, nf, is_span));
        datas.push((id, d.clone()));
        // most call sites are announced up front, some lazily before first use, some never
        if cfg.bad == 0 || r.chance(80) {
            evs.push(TracingEvent::NewCallSite { id, data: d });
        }
    }
    for _ in 0..cfg.len {
        let bad = cfg.bad;
        let mut choice = r.below(20);
        if bad == 0 && g.handles.is_empty() && (4..=15).contains(&choice) {
            choice = 0;
        }
        match choice {
            0..=3 => {
                let (m, nf, _) = *r.pick(&g.sites);
                let metadata_id = if r.chance(bad) { 999 } else { m };
                let parent_id = if cfg.explicit_parents && r.chance(30) && (bad > 0 || !g.handles.is_empty()) { Some(g.pick_span(r, bad)) } else { None };
                let max = if r.chance(bad) { 40 } else { nf.min(32).max(2) };
                // bogus streams may re-announce a span id that is still alive
                let id = if bad > 0 && !g.handles.is_empty() && r.chance(bad / 3) {
                    g.pick_span(r, 0)
                } else {
                    g.next += 1;
                    g.next - 1
                };
                evs.push(TracingEvent::NewSpan { id, parent_id, metadata_id, values: gen_values(r, nf, max, bad > 0) });
                g.handles.insert(id, 1);
            }
            4..=6 => {
                let id = g.pick_span(r, bad);
                evs.push(TracingEvent::SpanEntered { id });
                if g.handles.contains_key(&id) {
                    g.stack.push(id);
                }
            }
            7..=9 => {
                if !g.stack.is_empty() && !r.chance(bad) {
                    let pos = if r.chance(80) { g.stack.len() - 1 } else { r.below(g.stack.len() as u64) as usize };
                    let id = g.stack.remove(pos);
                    evs.push(TracingEvent::SpanExited { id });
                } else if bad > 0 {
                    evs.push(TracingEvent::SpanExited { id: g.pick_span(r, bad) });
                }
            }
            10 => {
                let id = g.pick_span(r, bad);
                evs.push(TracingEvent::SpanCloned { id });
                if let Some(h) = g.handles.get_mut(&id) {
                    *h += 1;
                }
            }
            11..=13 => {
                let id = g.pick_span(r, bad);
                if cfg.respect_entered && g.stack.contains(&id) && g.handles.get(&id) == Some(&1) {
                    continue;
                }
                evs.push(TracingEvent::SpanDropped { id });
                if let Some(h) = g.handles.get_mut(&id) {
                    *h -= 1;
                    if *h == 0 {
                        g.handles.remove(&id);
                        g.stack.retain(|x| *x != id);
                    }
                }
            }
            14 | 15 => {
                let id = g.pick_span(r, bad);
                let max = if r.chance(bad) { 40 } else { 6 };
                evs.push(TracingEvent::ValuesRecorded { id, values: gen_values(r, cfg.max_fields.min(40), max, bad > 0) });
            }
            16 | 17 => {
                let (m, nf, _) = *r.pick(&g.sites);
                let metadata_id = if r.chance(bad) { 998 } else { m };
                let parent = if cfg.explicit_parents && r.chance(30) && (bad > 0 || !g.handles.is_empty()) { Some(g.pick_span(r, bad)) } else { None };
                let max = if r.chance(bad) { 40 } else { nf.min(32).max(2) };
                evs.push(TracingEvent::NewEvent { metadata_id, parent, values: gen_values(r, nf, max, bad > 0) });
            }
            18 => {
                if g.handles.len() >= 2 || bad > 0 {
                    evs.push(TracingEvent::FollowsFrom { id: g.pick_span(r, bad), follows_from: g.pick_span(r, bad) });
                }
            }
            _ => {
                // (re-)announcement of a call site, possibly under a new id
                let (id, d) = r.pick(&datas).clone();
                let id = if r.chance(20) { id + 1000 } else { id };
                evs.push(TracingEvent::NewCallSite { id, data: d });
            }
        }
    }
    evs
}

/// Inserts persist / drop steps into a stream. `quiescent_only`: cut only where no span is entered
/// according to the symbolic interpretation of accepted enter/exit events.
pub fn with_cuts(r: &mut Rng, evs: &[TracingEvent], cut_percent: u64, lose_percent: u64, drop_percent: u64) -> Vec<Step> {
    let mut steps = vec![];
    for ev in evs {
        if r.chance(cut_percent) {
            if r.chance(drop_percent) {
                steps.push(Step::Drop);
            } else {
                steps.push(Step::Persist { keep: !r.chance(lose_percent) });
            }
        }
        steps.push(Step::Recv(ev.clone()));
    }
    if r.chance(50) {
        steps.push(Step::Persist { keep: true });
    }
    steps
}

// ---------------------------------------------------------------------------------------------
// emitting history cases

use crate::out::Sink;

pub fn hist_case(sink: &mut Sink, judge_fn: &str, idx: u64, kind: &str, steps: &[Step], nonce: &str) {
    if !sink.wants(idx) {
        return;
    }
    let nsteps = steps.len();
    let steps = &crate::apply_mask(steps)[..];
    let obs = run_history(steps, nonce);
    let input = csteps(steps);
    intern_begin();
    let judge = format!("{judge_fn} {} {}", csteps(steps), cobss(&obs));
    let judge = intern_wrap(&judge);
    let mut rejected = 0;
    let mut accepted = 0;
    for o in &obs {
        match o {
            Obs::Recv(Outcome::Accepted, ..) => accepted += 1,
            Obs::Recv(Outcome::Panicked, ..) => sink.bump("outcome:panicked"),
            Obs::Recv(Outcome::UnknownMeta(_), ..) => { rejected += 1; sink.bump("outcome:unknown_meta") }
            Obs::Recv(Outcome::UnknownSpan(_), ..) => { rejected += 1; sink.bump("outcome:unknown_span") }
            Obs::Recv(Outcome::TooMany(_), ..) => { rejected += 1; sink.bump("outcome:too_many") }
            Obs::Recv(Outcome::OtherError(_), ..) => { rejected += 1; sink.bump("outcome:other") }
            Obs::Persist(..) => sink.bump("step:persist"),
            Obs::Drop(..) => sink.bump("step:drop"),
        }
    }
    sink.bump_by("outcome:accepted", accepted);
    sink.bump_by("steps:total", steps.len() as u64);
    for s in steps {
        if let Step::Recv(e) = s {
            sink.bump(match e {
                TracingEvent::NewCallSite { .. } => "ev:new_call_site",
                TracingEvent::NewSpan { .. } => "ev:new_span",
                TracingEvent::FollowsFrom { .. } => "ev:follows_from",
                TracingEvent::SpanEntered { .. } => "ev:entered",
                TracingEvent::SpanExited { .. } => "ev:exited",
                TracingEvent::SpanCloned { .. } => "ev:cloned",
                TracingEvent::SpanDropped { .. } => "ev:dropped",
                TracingEvent::ValuesRecorded { .. } => "ev:values_recorded",
                TracingEvent::NewEvent { .. } => "ev:new_event",
                _ => "ev:other",
            });
        }
    }
    // non-trivial: at least one accepted and one rejected event, or a persist/drop step
    let nontrivial = (accepted > 0 && rejected > 0) || steps.iter().any(|s| !matches!(s, Step::Recv(_)));
    sink.case(idx, kind, &judge, &input, nontrivial, || serde_json::json!({ "steps": csteps(steps), "nsteps": nsteps }));
}

pub fn vals(range: std::ops::Range<usize>) -> TracedValues<String> {
    range.map(|i| (format!("f{i}"), tracing_tunnel::TracedValue::from(i as i64))).collect()
}

/// hand-written histories: the repaired defects first (they must stay repaired)
pub fn corpus(nonce: &str) -> Vec<Vec<Step>> {
    let span_cs = |name: &str, n: usize| call_site(CallSiteKind::Span, nonce, name, n, false);
    let r = Step::Recv;
    vec![
        // F2: restored span with > 32 accumulated values is entered after the host lost its spans
        vec![
            r(TracingEvent::NewCallSite { id: 0, data: span_cs("f2", 40) }),
            r(TracingEvent::NewSpan { id: 1, parent_id: None, metadata_id: 0, values: vals(0..20) }),
            r(TracingEvent::ValuesRecorded { id: 1, values: vals(20..40) }),
            Step::Persist { keep: false },
            r(TracingEvent::SpanEntered { id: 1 }),
            r(TracingEvent::SpanExited { id: 1 }),
            r(TracingEvent::SpanDropped { id: 1 }),
        ],
        // more than 64 accumulated values on a 100-field call site: first 32 with new_span, then chunks
        vec![
            r(TracingEvent::NewCallSite { id: 0, data: span_cs("wide", 100) }),
            r(TracingEvent::NewSpan { id: 1, parent_id: None, metadata_id: 0, values: vals(0..32) }),
            r(TracingEvent::ValuesRecorded { id: 1, values: vals(32..64) }),
            r(TracingEvent::ValuesRecorded { id: 1, values: vals(64..90) }),
            Step::Persist { keep: false },
            r(TracingEvent::SpanEntered { id: 1 }),
            r(TracingEvent::ValuesRecorded { id: 1, values: vals(90..100) }),
            Step::Persist { keep: false },
            r(TracingEvent::SpanEntered { id: 1 }),
            r(TracingEvent::SpanExited { id: 1 }),
        ],
        // F3: child of an already-dropped explicit parent entered after a host restart
        vec![
            r(TracingEvent::NewCallSite { id: 0, data: span_cs("f3", 1) }),
            r(TracingEvent::NewSpan { id: 1, parent_id: None, metadata_id: 0, values: vals(0..0) }),
            r(TracingEvent::NewSpan { id: 2, parent_id: Some(1), metadata_id: 0, values: vals(0..1) }),
            r(TracingEvent::SpanDropped { id: 1 }),
            Step::Persist { keep: false },
            r(TracingEvent::SpanEntered { id: 2 }),
            r(TracingEvent::SpanExited { id: 2 }),
        ],
        // F4: re-entrant enter, then persist / drop
        vec![
            r(TracingEvent::NewCallSite { id: 0, data: span_cs("f4", 0) }),
            r(TracingEvent::NewSpan { id: 1, parent_id: None, metadata_id: 0, values: vals(0..0) }),
            r(TracingEvent::SpanEntered { id: 1 }),
            r(TracingEvent::SpanEntered { id: 1 }),
            Step::Persist { keep: true },
            r(TracingEvent::SpanEntered { id: 1 }),
            r(TracingEvent::SpanEntered { id: 1 }),
            r(TracingEvent::SpanExited { id: 1 }),
            Step::Drop,
        ],
        // bogus events on an empty receiver
        bogus_history(),
    ]
    .into_iter()
    .chain(accumulated_histories(nonce))
    .collect()
}

/// A span accumulates exactly `n` values (at creation, then by records of `chunk` values), the host
/// loses its spans, and the span is entered: lazy re-creation has to present all `n` values, the first
/// 32 with `new_span` and the rest by `record`.  Every boundary of the 32-value chunks, with records
/// that straddle them.
fn accumulated_histories(nonce: &str) -> Vec<Vec<Step>> {
    let r = Step::Recv;
    let mut out = vec![];
    for (n, first, chunk) in [
        (31usize, 31usize, 32usize), (32, 32, 32), (33, 32, 1), (33, 1, 32), (47, 10, 13), (48, 16, 16), (49, 7, 21),
        (63, 32, 31), (64, 32, 32), (65, 32, 32), (65, 5, 30), (66, 22, 22), (95, 31, 32), (96, 32, 32), (97, 32, 32),
        (100, 0, 25), (100, 32, 17),
    ] {
        let mut steps = vec![
            r(TracingEvent::NewCallSite { id: 0, data: call_site(CallSiteKind::Span, nonce, "acc", 100, false) }),
            r(TracingEvent::NewSpan { id: 1, parent_id: None, metadata_id: 0, values: vals(0..first.min(n)) }),
        ];
        let mut at = first.min(n);
        while at < n {
            let next = (at + chunk).min(n);
            steps.push(r(TracingEvent::ValuesRecorded { id: 1, values: vals(at..next) }));
            at = next;
        }
        steps.push(Step::Persist { keep: false });
        steps.push(r(TracingEvent::SpanEntered { id: 1 }));
        steps.push(r(TracingEvent::SpanExited { id: 1 }));
        steps.push(Step::Persist { keep: false });
        steps.push(r(TracingEvent::SpanDropped { id: 1 }));
        out.push(steps);
    }
    out
}

fn bogus_history() -> Vec<Step> {
    let r = Step::Recv;
    vec![
            r(TracingEvent::NewSpan { id: 1, parent_id: None, metadata_id: 5, values: vals(0..0) }),
            r(TracingEvent::SpanEntered { id: 1 }),
            r(TracingEvent::SpanExited { id: 1 }),
            r(TracingEvent::SpanCloned { id: 1 }),
            r(TracingEvent::SpanDropped { id: 1 }),
            r(TracingEvent::ValuesRecorded { id: 1, values: vals(0..2) }),
            r(TracingEvent::FollowsFrom { id: 1, follows_from: 2 }),
            r(TracingEvent::NewEvent { metadata_id: 3, parent: None, values: vals(0..33) }),
    ]
}

