//! Case sink: shards cases into cases_<k>.v files, keeps counts, histograms and samples.
use std::{
    collections::{hash_map::DefaultHasher, BTreeMap, HashSet},
    fs,
    hash::{Hash, Hasher},
    io::Write,
    path::{Path, PathBuf},
};

pub struct Sink {
    dir: PathBuf,
    shards: usize,
    files: Vec<fs::File>,
    index: Vec<fs::File>,
    pub only: Option<HashSet<u64>>,
    pub evaluations: u64,
    nontrivial: HashSet<u64>,
    pub hist: BTreeMap<String, u64>,
    pub samples: Vec<serde_json::Value>,
    replay: Option<fs::File>,
    emitted: u64,
}

impl Sink {
    pub fn new(dir: &Path, shards: usize, import: &str, only: Option<HashSet<u64>>) -> Self {
        fs::create_dir_all(dir).unwrap();
        let mut files = vec![];
        let mut index = vec![];
        for k in 0..shards {
            let mut f = fs::File::create(dir.join(format!("cases_{k}.v"))).unwrap();
            writeln!(f, "From TT Require Import {import}.\nOpen Scope string_scope.").unwrap();
            files.push(f);
            index.push(fs::File::create(dir.join(format!("index_{k}.txt"))).unwrap());
        }
        let replay = only
            .as_ref()
            .map(|_| fs::File::create(dir.join("replay.jsonl")).unwrap());
        Self {
            dir: dir.to_owned(),
            shards,
            files,
            index,
            only,
            evaluations: 0,
            nontrivial: HashSet::new(),
            hist: BTreeMap::new(),
            samples: vec![],
            replay,
            emitted: 0,
        }
    }

    pub fn wants(&self, idx: u64) -> bool {
        self.only.as_ref().map_or(true, |o| o.contains(&idx))
    }

    pub fn bump(&mut self, key: &str) {
        *self.hist.entry(key.to_owned()).or_insert(0) += 1;
    }
    pub fn bump_by(&mut self, key: &str, n: u64) {
        *self.hist.entry(key.to_owned()).or_insert(0) += n;
    }

    /// `judge` is the Gallina term evaluating to a verdict; `input_key` identifies the input for
    /// distinctness; `nontrivial` is the per-property rule; `desc` is a human/JSON description.
    pub fn case(
        &mut self,
        idx: u64,
        kind: &str,
        judge: &str,
        input_key: &str,
        nontrivial: bool,
        desc: impl FnOnce() -> serde_json::Value,
    ) {
        if !self.wants(idx) {
            return;
        }
        self.evaluations += 1;
        self.bump(&format!("kind:{kind}"));
        if nontrivial {
            let mut h = DefaultHasher::new();
            input_key.hash(&mut h);
            self.nontrivial.insert(h.finish());
        }
        let k = (self.emitted as usize) % self.shards;
        self.emitted += 1;
        writeln!(self.files[k], "Eval vm_compute in ({judge}).").unwrap();
        writeln!(self.index[k], "{idx}").unwrap();
        let want_sample = self.samples.len() < 3 || (self.samples.len() < 6 && idx % 997 == 0);
        if want_sample || self.replay.is_some() {
            let d = serde_json::json!({ "index": idx, "kind": kind, "case": desc(), "judge": judge });
            if let Some(f) = &mut self.replay {
                writeln!(f, "{d}").unwrap();
            }
            if want_sample {
                let mut d = d;
                if let Some(j) = d.get("judge").and_then(|j| j.as_str()) {
                    if j.len() > 600 {
                        let short: String = j.chars().take(600).collect();
                        d["judge"] = serde_json::Value::String(short + "…");
                    }
                }
                self.samples.push(d);
            }
        }
    }

    pub fn finish(self, rule: &str, extra: serde_json::Value) {
        let meta = serde_json::json!({
            "evaluations": self.evaluations,
            "distinct_nontrivial": self.nontrivial.len(),
            "rule": rule,
            "histogram": self.hist,
            "samples": self.samples,
            "extra": extra,
        });
        fs::write(self.dir.join("meta.json"), serde_json::to_string_pretty(&meta).unwrap()).unwrap();
    }
}
