//! C10: concurrent receivers intern each call site exactly once.
//!
//! Part 1, schedule driver.  A case = announcement lists for 2..3 REAL threads + a schedule (list of
//! thread numbers = whose critical section of `Arena::alloc_metadata` runs next).  Every thread owns a
//! `TracingEventReceiver` and a recording `Subscriber` and installs a `YIELD_HOOK` that, at
//! "metadata:before_read" and "metadata:before_write", parks the thread until the scheduler (the main
//! thread) hands it the turn token (Mutex + Condvar); the scheduler waits until the thread has parked
//! again or has finished before it hands out the next turn, so exactly the critical section named by
//! the schedule entry runs.  An entry naming a thread that has finished is skipped (as in the model).
//! The yield point "strings:before_write" lies INSIDE the write-locked section and is not a scheduling
//! point.  With the turn token only one thread runs at a time, so read phases never overlap here
//! (overlapping readers commute: `C10_conc_read_steps_commute`; real overlap is part 2).
//! Every wait of the scheduler has a 20 s watchdog: a deadlock in the code shows up as fault 1, not as a
//! hanging harness (after a hang the process-global arena may be wedged: the remaining cases are
//! reported as fault 5 without being run).
//!
//! Part 2, stress.  8..16 free-running threads released by a barrier, with a hook that yields / spins at
//! random at all three yield points; judged by the property alone.
//!
//! The arena is process-global and never reset.  Independence of cases: EVERY string of a case carries
//! the nonce `c10<mode>_<seed>_<idx>::`.  The bucketing hash is forced through `HASH_OVERRIDE`
//! (installed once, dispatching on the nonce): `k` one bucket per case, `m` two buckets per case (number
//! of fields mod 2), `g` ONE bucket shared by all `g` cases of the process (long foreign-populated
//! bucket: non-zero scanned lengths), `s` the SipHash value the code computes by default.
use std::{
    borrow::Cow,
    collections::{hash_map::DefaultHasher, BTreeSet, HashMap},
    hash::{Hash, Hasher},
    panic::{catch_unwind, AssertUnwindSafe},
    sync::{
        atomic::{AtomicBool, AtomicUsize, Ordering},
        Arc, Barrier, Condvar, Mutex, MutexGuard,
    },
    time::{Duration, Instant},
};

use tracing_core::{
    span::{Attributes, Id, Record},
    Dispatch, Event, Interest, Metadata, Subscriber,
};
use tracing_tunnel::{verif_hooks, CallSiteData, CallSiteKind, TracingEvent, TracingEventReceiver, TracingLevel};

use crate::{coq::*, out::Sink, rng::Rng, Opts};

const WATCHDOG: Duration = Duration::from_secs(20);
const M_BASE: u64 = 1 << 40;
const G_BUCKET: u64 = 1 << 41;

/// set by the first hang: locks of the process-global arena may be held forever
static WEDGED: AtomicBool = AtomicBool::new(false);

// ---------------------------------------------------------------------------------------------
// the hash override (mirrored by `hash_of` in Judge/C10.v)

fn sip(d: &CallSiteData) -> u64 {
    let mut h = DefaultHasher::new();
    d.hash(&mut h);
    h.finish()
}

fn hash_override(d: &CallSiteData) -> u64 {
    let t: &str = &d.target;
    if let Some(rest) = t.strip_prefix("c10") {
        if let Some((head, _)) = rest.split_once("::") {
            let idx = head.rsplit('_').next().and_then(|s| s.parse::<u64>().ok()).unwrap_or(0);
            let parity = (d.fields.len() % 2) as u64;
            match head.as_bytes().first() {
                Some(b'k') => return idx,
                Some(b'm') => return M_BASE + 2 * idx + parity,
                Some(b'g') => return G_BUCKET,
                _ => {}
            }
        }
    }
    sip(d)
}

#[derive(Clone, Copy, Debug, PartialEq)]
enum Mode {
    K,
    M,
    G,
    S,
}
impl Mode {
    fn letter(self) -> char {
        match self {
            Mode::K => 'k',
            Mode::M => 'm',
            Mode::G => 'g',
            Mode::S => 's',
        }
    }
}

// ---------------------------------------------------------------------------------------------
// recording host

#[derive(Clone, Default)]
struct Host(Arc<Mutex<Vec<usize>>>);

fn addr(m: &'static Metadata<'static>) -> usize {
    m as *const Metadata<'static> as usize
}

impl Subscriber for Host {
    fn register_callsite(&self, m: &'static Metadata<'static>) -> Interest {
        self.0.lock().unwrap().push(addr(m));
        Interest::always()
    }
    fn enabled(&self, _: &Metadata<'_>) -> bool {
        true
    }
    fn new_span(&self, _: &Attributes<'_>) -> Id {
        Id::from_u64(1)
    }
    fn record(&self, _: &Id, _: &Record<'_>) {}
    fn record_follows_from(&self, _: &Id, _: &Id) {}
    fn event(&self, _: &Event<'_>) {}
    fn enter(&self, _: &Id) {}
    fn exit(&self, _: &Id) {}
}

// ---------------------------------------------------------------------------------------------
// descriptions

fn owned(s: String) -> Cow<'static, str> {
    Cow::Owned(s)
}

/// the description variants of a case; every string carries the nonce
///   A  base;  B  = A with another line (shares every string);  C  = A with one more field (one new
///   string, other parity);  D  shares only the target;  E  = A with name == target
fn desc(nonce: &str, variant: char) -> CallSiteData {
    let a = CallSiteData {
        kind: CallSiteKind::Span,
        name: owned(format!("{nonce}fib")),
        target: owned(format!("{nonce}app")),
        level: TracingLevel::Info,
        module_path: Some(owned(format!("{nonce}app::m"))),
        file: Some(owned(format!("{nonce}lib.rs"))),
        line: Some(7),
        fields: vec![owned(format!("{nonce}approx"))],
    };
    match variant {
        'A' => a,
        'B' => CallSiteData { line: Some(8), ..a },
        'C' => {
            let mut c = a;
            c.fields.push(owned(format!("{nonce}extra")));
            c
        }
        'D' => CallSiteData {
            kind: CallSiteKind::Event,
            name: owned(format!("{nonce}other")),
            target: owned(format!("{nonce}app")),
            level: TracingLevel::Trace,
            module_path: None,
            file: None,
            line: None,
            fields: vec![],
        },
        'E' => CallSiteData { name: owned(format!("{nonce}app")), ..a },
        v => panic!("unknown description variant {v}"),
    }
}

struct Case {
    idx: u64,
    mode: Mode,
    nonce: String,
    config: Vec<String>,
    lists: Vec<Vec<CallSiteData>>,
    /// `None`: free-running stress
    sched: Option<Vec<usize>>,
}

fn mk_case(mode: Mode, seed: u64, idx: u64, config: &[&str], sched: Option<Vec<usize>>) -> Case {
    let nonce = format!("c10{}_{seed}_{idx}::", mode.letter());
    let lists = config.iter().map(|l| l.chars().map(|v| desc(&nonce, v)).collect()).collect();
    Case { idx, mode, nonce, config: config.iter().map(|s| (*s).to_owned()).collect(), lists, sched }
}

// ---------------------------------------------------------------------------------------------
// turn-token control shared by the scheduler and the workers

struct Ctl {
    turn: Option<usize>,
    parked: Vec<Option<&'static str>>,
    epoch: Vec<u64>,
    done: Vec<bool>,
    panicked: Vec<bool>,
    /// parks return at once (set from the start in stress runs, at the end of schedule runs)
    free_run: bool,
}

#[derive(Default)]
struct WorkerOut {
    /// per finished announcement: address held by the receiver, content, registration happened
    res: Vec<(usize, CallSiteData, bool)>,
    err: bool,
    bad_reg: bool,
    write_phases: usize,
}

struct Shared {
    ctl: Mutex<Ctl>,
    cv: Condvar,
    out: Vec<Mutex<WorkerOut>>,
}

impl Shared {
    fn new(n: usize, free_run: bool) -> Arc<Self> {
        Arc::new(Shared {
            ctl: Mutex::new(Ctl {
                turn: None,
                parked: vec![None; n],
                epoch: vec![0; n],
                done: vec![false; n],
                panicked: vec![false; n],
                free_run,
            }),
            cv: Condvar::new(),
            out: (0..n).map(|_| Mutex::new(WorkerOut::default())).collect(),
        })
    }
    fn lock(&self) -> MutexGuard<'_, Ctl> {
        self.ctl.lock().unwrap_or_else(|e| e.into_inner())
    }
    /// called by worker `i` at a scheduling point: wait for the turn token
    fn park(&self, i: usize, name: &'static str) {
        let mut g = self.lock();
        if g.free_run {
            return;
        }
        g.parked[i] = Some(name);
        g.epoch[i] += 1;
        self.cv.notify_all();
        loop {
            if g.free_run {
                break;
            }
            if g.turn == Some(i) {
                g.turn = None;
                break;
            }
            g = self.cv.wait(g).unwrap_or_else(|e| e.into_inner());
        }
        g.parked[i] = None;
    }
    fn finish(&self, i: usize, panicked: bool) {
        let mut g = self.lock();
        g.done[i] = true;
        g.panicked[i] = panicked;
        g.parked[i] = None;
        self.cv.notify_all();
    }
    /// scheduler side: wait (with the watchdog) until `pred` holds; returns the guard and whether it holds
    fn wait_until(&self, timeout: Duration, pred: impl Fn(&Ctl) -> bool) -> (MutexGuard<'_, Ctl>, bool) {
        let deadline = Instant::now() + timeout;
        let mut g = self.lock();
        loop {
            if pred(&g) {
                return (g, true);
            }
            let now = Instant::now();
            if now >= deadline {
                return (g, false);
            }
            g = self.cv.wait_timeout(g, deadline - now).unwrap_or_else(|e| e.into_inner()).0;
        }
    }
}

/// the announcements of one thread: own receiver, own recording subscriber
fn worker_body(sh: &Arc<Shared>, i: usize, descs: &[CallSiteData]) {
    let host = Host::default();
    let dispatch = Dispatch::new(host.clone());
    tracing_core::dispatcher::with_default(&dispatch, || {
        let mut receiver = TracingEventReceiver::default();
        for (k, d) in descs.iter().enumerate() {
            let regs_before = host.0.lock().unwrap().len();
            // every third announcement reaches the arena through the restore path: a receiver created
            // from persisted metadata that holds this one call site (`new` interns and registers
            // exactly as a `NewCallSite` event does)
            let result = if (i + k) % 3 == 2 {
                let text = format!("{{\"{k}\":{}}}", serde_json::to_string(d).expect("serialize call site"));
                let md: tracing_tunnel::PersistedMetadata = serde_json::from_str(&text).expect("persisted metadata");
                receiver = TracingEventReceiver::new(md, Default::default(), Default::default());
                Ok(())
            } else {
                receiver.try_receive(TracingEvent::NewCallSite { id: k as u64, data: d.clone() })
            };
            let held = receiver.verif_snapshot().metadata.into_iter().find(|(id, ..)| *id == k as u64);
            let regs = host.0.lock().unwrap()[regs_before..].to_vec();
            let mut out = sh.out[i].lock().unwrap();
            match (result, held) {
                (Ok(()), Some((_, content, address))) => {
                    if regs.len() > 1 || regs.iter().any(|a| *a != address) {
                        out.bad_reg = true;
                    }
                    out.res.push((address, content, !regs.is_empty()));
                }
                _ => out.err = true,
            }
        }
    });
}

fn spawn_worker(sh: &Arc<Shared>, i: usize, descs: Vec<CallSiteData>, hook: Box<dyn Fn(&'static str) + Send>) {
    let sh = Arc::clone(sh);
    std::thread::Builder::new()
        .name(format!("c10-worker-{i}"))
        .spawn(move || {
            let hook: Box<dyn Fn(&'static str)> = hook;
            verif_hooks::YIELD_HOOK.with(|h| *h.borrow_mut() = Some(hook));
            let r = catch_unwind(AssertUnwindSafe(|| worker_body(&sh, i, &descs)));
            verif_hooks::YIELD_HOOK.with(|h| *h.borrow_mut() = None);
            sh.finish(i, r.is_err());
        })
        .expect("spawn worker");
}

struct Obs {
    fault: u8,
    trace: Vec<(usize, u8)>,
    /// address numbered by first occurrence, thread after thread
    res: Vec<Vec<(u64, CallSiteData, bool)>>,
    dm: usize,
    ds: usize,
    write_phases: usize,
}

fn collect(sh: &Arc<Shared>, n: usize, mut fault: u8, trace: Vec<(usize, u8)>, m0: usize, s0: usize) -> Obs {
    let mut canon: HashMap<usize, u64> = HashMap::new();
    let mut res = vec![];
    let mut write_phases = 0;
    {
        let g = sh.lock();
        if fault == 0 && g.panicked.iter().any(|p| *p) {
            fault = 2;
        }
    }
    for j in 0..n {
        let out = sh.out[j].lock().unwrap_or_else(|e| e.into_inner());
        if fault == 0 && out.err {
            fault = 3;
        }
        if fault == 0 && out.bad_reg {
            fault = 6;
        }
        write_phases += out.write_phases;
        let mut l = vec![];
        for (a, d, b) in &out.res {
            let next = canon.len() as u64;
            l.push((*canon.entry(*a).or_insert(next), d.clone(), *b));
        }
        res.push(l);
    }
    Obs {
        fault,
        trace,
        res,
        dm: verif_hooks::LEAKED_METADATA.load(Ordering::SeqCst) - m0,
        ds: verif_hooks::LEAKED_STRINGS.load(Ordering::SeqCst) - s0,
        write_phases,
    }
}

fn not_run(n: usize) -> Obs {
    Obs { fault: 5, trace: vec![], res: vec![vec![]; n], dm: 0, ds: 0, write_phases: 0 }
}

fn run_schedule(case: &Case, sched: &[usize]) -> Obs {
    let n = case.lists.len();
    if WEDGED.load(Ordering::SeqCst) {
        return not_run(n);
    }
    let m0 = verif_hooks::LEAKED_METADATA.load(Ordering::SeqCst);
    let s0 = verif_hooks::LEAKED_STRINGS.load(Ordering::SeqCst);
    let sh = Shared::new(n, false);
    for (i, descs) in case.lists.iter().enumerate() {
        let sh2 = Arc::clone(&sh);
        let hook = Box::new(move |name: &'static str| {
            if name == "metadata:before_write" {
                sh2.out[i].lock().unwrap().write_phases += 1;
            }
            if name == "metadata:before_read" || name == "metadata:before_write" {
                sh2.park(i, name);
            }
        });
        spawn_worker(&sh, i, descs.clone(), hook);
    }
    let mut trace = vec![];
    let mut fault = 0u8;
    for &i in sched {
        if i >= n {
            continue; // no such thread: skipped, as in the model
        }
        let (mut g, ok) = sh.wait_until(WATCHDOG, |c| c.parked[i].is_some() || c.done[i]);
        if !ok {
            fault = 1;
            break;
        }
        if g.done[i] {
            continue;
        }
        let phase = match g.parked[i] {
            Some("metadata:before_read") => 1,
            Some("metadata:before_write") => 2,
            _ => 0,
        };
        trace.push((i, phase));
        let epoch = g.epoch[i];
        g.turn = Some(i);
        sh.cv.notify_all();
        drop(g);
        let (_g, ok) = sh.wait_until(WATCHDOG, |c| c.done[i] || c.epoch[i] > epoch);
        if !ok {
            fault = 1;
            break;
        }
    }
    if fault == 0 {
        let (g, ok) = sh.wait_until(WATCHDOG, |c| (0..n).all(|j| c.done[j] || c.parked[j].is_some()));
        if !ok {
            fault = 1;
        } else if !g.done.iter().all(|d| *d) {
            fault = 4;
        }
    }
    // let everybody run to the end
    {
        let mut g = sh.lock();
        g.free_run = true;
        sh.cv.notify_all();
    }
    let grace = if fault == 1 { Duration::from_secs(1) } else { WATCHDOG };
    let (g, all_done) = sh.wait_until(grace, |c| c.done.iter().all(|d| *d));
    drop(g);
    if !all_done {
        fault = 1;
        WEDGED.store(true, Ordering::SeqCst);
    }
    collect(&sh, n, fault, trace, m0, s0)
}

fn run_stress(case: &Case, seed: u64) -> Obs {
    let n = case.lists.len();
    if WEDGED.load(Ordering::SeqCst) {
        return not_run(n);
    }
    let m0 = verif_hooks::LEAKED_METADATA.load(Ordering::SeqCst);
    let s0 = verif_hooks::LEAKED_STRINGS.load(Ordering::SeqCst);
    let sh = Shared::new(n, true);
    let barrier = Arc::new(Barrier::new(n));
    let started = Arc::new(AtomicUsize::new(0));
    for (i, descs) in case.lists.iter().enumerate() {
        let sh2 = Arc::clone(&sh);
        let barrier = Arc::clone(&barrier);
        let started = Arc::clone(&started);
        let rng = Mutex::new(Rng::for_case(seed, "C10-stress-thread", case.idx * 64 + i as u64));
        let first = AtomicBool::new(true);
        let hook = Box::new(move |name: &'static str| {
            if first.swap(false, Ordering::SeqCst) {
                // the first yield point of the thread: everybody starts together
                started.fetch_add(1, Ordering::SeqCst);
                barrier.wait();
            }
            if name == "metadata:before_write" {
                sh2.out[i].lock().unwrap().write_phases += 1;
            }
            let mut rng = rng.lock().unwrap();
            match rng.below(5) {
                0 => std::thread::yield_now(),
                1 => {
                    for _ in 0..rng.below(400) {
                        std::hint::spin_loop();
                    }
                }
                _ => {}
            }
        });
        spawn_worker(&sh, i, descs.clone(), hook);
    }
    let (g, all_done) = sh.wait_until(WATCHDOG, |c| c.done.iter().all(|d| *d));
    drop(g);
    let mut fault = 0;
    if !all_done {
        fault = 1;
        WEDGED.store(true, Ordering::SeqCst);
    }
    collect(&sh, n, fault, vec![], m0, s0)
}

// ---------------------------------------------------------------------------------------------
// printing

fn cmode(case: &Case) -> String {
    match case.mode {
        Mode::K => format!("(HConst {})", case.idx),
        Mode::M => format!("(HMod2 {})", M_BASE + 2 * case.idx),
        Mode::G => format!("(HConst {G_BUCKET})"),
        Mode::S => {
            let mut seen = BTreeSet::new();
            let mut items = vec![];
            for d in case.lists.iter().flatten() {
                let text = ccs(d);
                if seen.insert(text.clone()) {
                    items.push(format!("({text}, {})", sip(d)));
                }
            }
            format!("(HTable [{}])", items.join("; "))
        }
    }
}

fn emit(sink: &mut Sink, kind: &str, case: &Case, seed: u64) {
    if !sink.wants(case.idx) {
        return;
    }
    let obs = match &case.sched {
        Some(s) => run_schedule(case, s),
        None => run_stress(case, seed),
    };
    intern_begin();
    let lists = clist(case.lists.iter(), |l| clist(l.iter(), ccs));
    let res = clist(obs.res.iter(), |l| clist(l.iter(), |(p, d, b)| format!("({p}, {}, {})", ccs(d), cbool(*b))));
    let trace = clist(obs.trace.iter(), |(i, p)| format!("({i}, {p})"));
    let iobs = format!("(mk_iobs {} {trace} {res} {} {})", obs.fault, obs.dm, obs.ds);
    let term = match &case.sched {
        Some(s) => {
            let mode = cmode(case);
            let sched = clist(s.iter(), |i| i.to_string());
            intern_wrap(&format!("judge_sched {mode} {lists} {sched} {iobs}"))
        }
        None => intern_wrap(&format!("judge_stress {lists} {iobs}")),
    };

    // statistics
    let n = case.lists.len();
    let mut per_desc: HashMap<String, BTreeSet<usize>> = HashMap::new();
    for (i, l) in case.lists.iter().enumerate() {
        for d in l {
            per_desc.entry(format!("{d:?}")).or_default().insert(i);
        }
    }
    let shared_desc = per_desc.values().any(|t| t.len() >= 2);
    let switches = obs.trace.windows(2).filter(|w| w[0].0 != w[1].0).count();
    let registrations: usize = obs.res.iter().flatten().filter(|(_, _, b)| *b).count();
    let tail_hits = obs.write_phases.saturating_sub(registrations);
    sink.bump(&format!("mode:{}", case.mode.letter()));
    sink.bump(&format!("threads:{n}"));
    sink.bump(&format!("fault:{}", obs.fault));
    sink.bump(&format!("distinct-descriptions:{}", per_desc.len()));
    if shared_desc {
        sink.bump("some-description-announced-by-2+-threads");
    }
    sink.bump_by("impl:registrations", registrations as u64);
    sink.bump_by("impl:write-phases", obs.write_phases as u64);
    sink.bump_by("impl:write-phase-found-the-object-in-the-bucket-tail", tail_hits as u64);
    if tail_hits > 0 {
        sink.bump("cases-with-a-lost-race-repaired-by-the-tail-scan");
    }
    if case.sched.is_some() {
        sink.bump(match switches {
            0..=1 => "thread-switches:0-1",
            2..=3 => "thread-switches:2-3",
            _ => "thread-switches:4+",
        });
        sink.bump_by("impl:executed-critical-sections", obs.trace.len() as u64);
        sink.bump_by("impl:skipped-schedule-entries", (case.sched.as_ref().unwrap().len() - obs.trace.len()) as u64);
    }
    let nontrivial = shared_desc && (case.sched.is_none() || switches >= 2);
    let key = format!("{:?}{:?}{:?}{}", case.mode, case.config, obs.trace, case.sched.is_none().then(|| case.idx).unwrap_or(0));
    let describe = || {
        serde_json::json!({
            "mode": format!("{:?}", case.mode),
            "nonce": case.nonce,
            "lists": case.config,
            "schedule": case.sched,
            "impl": {
                "fault": obs.fault,
                "executed": obs.trace,
                "results": obs.res.iter().map(|l| l.iter().map(|(p, d, b)| format!("{p} {} line={:?} fields={} new={b}", d.name, d.line, d.fields.len())).collect::<Vec<_>>()).collect::<Vec<_>>(),
                "leaked_metadata": obs.dm,
                "leaked_strings": obs.ds,
            },
        })
    };
    sink.case(case.idx, kind, &term, &key, nontrivial, describe);
}

// ---------------------------------------------------------------------------------------------
// schedules

/// all sequences with `counts[i]` occurrences of `i`, in lexicographic order
fn all_schedules(counts: &[usize]) -> Vec<Vec<usize>> {
    fn go(counts: &mut Vec<usize>, cur: &mut Vec<usize>, out: &mut Vec<Vec<usize>>) {
        if counts.iter().all(|c| *c == 0) {
            out.push(cur.clone());
            return;
        }
        for i in 0..counts.len() {
            if counts[i] > 0 {
                counts[i] -= 1;
                cur.push(i);
                go(counts, cur, out);
                cur.pop();
                counts[i] += 1;
            }
        }
    }
    let mut out = vec![];
    go(&mut counts.to_vec(), &mut vec![], &mut out);
    out
}

/// a uniformly random sequence with `counts[i]` occurrences of `i`
fn random_schedule(rng: &mut Rng, counts: &[usize]) -> Vec<usize> {
    let mut s: Vec<usize> = counts.iter().enumerate().flat_map(|(i, c)| std::iter::repeat(i).take(*c)).collect();
    for k in (1..s.len()).rev() {
        let j = rng.below(k as u64 + 1) as usize;
        s.swap(k, j);
    }
    s
}

fn turns(config: &[&str]) -> Vec<usize> {
    config.iter().map(|l| 2 * l.len()).collect()
}

pub fn run(o: &Opts) {
    // installed once, before any receiver is used, never changed
    *verif_hooks::HASH_OVERRIDE.write().unwrap() = Some(hash_override);

    let mut sink = Sink::new(&o.out, o.shards, "Judge.C10", o.only.clone());
    let mut idx = 0u64;
    let all_modes = [Mode::K, Mode::S, Mode::M, Mode::G];

    // 1. hand-written schedules
    let corpus: Vec<(Vec<&str>, Vec<usize>)> = vec![
        // the race: both read phases before either write phase
        (vec!["A", "A"], vec![0, 1, 0, 1]),
        (vec!["A", "A"], vec![0, 1, 1, 0]),
        // no race: one after the other (the second turn of thread 1 is skipped)
        (vec!["A", "A"], vec![0, 0, 1, 1]),
        // different descriptions in one bucket, writers interleaved, then each re-announces the other's
        (vec!["AB", "BA"], vec![0, 1, 1, 0, 0, 1, 0, 1]),
        // a waiting writer whose bucket grows by foreign entries before it enters
        (vec!["A", "BCD"], vec![0, 1, 1, 1, 1, 1, 1, 0]),
        // three threads racing for one description
        (vec!["A", "A", "A"], vec![0, 1, 2, 2, 1, 0]),
        // schedule with more turns than needed and a thread number that does not exist
        (vec!["A", "E"], vec![1, 1, 1, 5, 0, 0, 0, 1]),
    ];
    for (config, sched) in &corpus {
        for mode in all_modes {
            emit(&mut sink, "corpus", &mk_case(mode, o.seed, idx, config, Some(sched.clone())), o.seed);
            idx += 1;
        }
    }

    // 2. ALL schedules, two threads x 1..2 descriptions each
    let two: Vec<(Vec<&str>, Vec<Mode>)> = vec![
        (vec!["A", "A"], all_modes.to_vec()),
        (vec!["A", "B"], all_modes.to_vec()),
        (vec!["A", "D"], vec![Mode::K, Mode::S]),
        (vec!["A", "AA"], vec![Mode::K, Mode::S]),
        (vec!["A", "BA"], vec![Mode::K, Mode::S]),
        (vec!["AB", "A"], vec![Mode::K, Mode::M]),
        (vec!["C", "AC"], vec![Mode::S, Mode::G]),
        (vec!["AB", "AB"], vec![Mode::K, Mode::S]),
        (vec!["AB", "BA"], vec![Mode::K, Mode::S, Mode::M]),
        (vec!["AA", "AA"], vec![Mode::K, Mode::G]),
        (vec!["AC", "CA"], vec![Mode::M, Mode::S]),
        (vec!["AB", "CA"], vec![Mode::K, Mode::S]),
        (vec!["AD", "EA"], vec![Mode::K, Mode::S]),
    ];
    for (config, modes) in &two {
        for mode in modes.iter() {
            for sched in all_schedules(&turns(config)) {
                emit(&mut sink, "all-schedules-2-threads", &mk_case(*mode, o.seed, idx, config, Some(sched)), o.seed);
                idx += 1;
            }
        }
    }

    if o.thorough {
        // 3. ALL schedules, three threads x 1 description
        let three: Vec<(Vec<&str>, Vec<Mode>)> = vec![
            (vec!["A", "A", "A"], all_modes.to_vec()),
            (vec!["A", "A", "B"], vec![Mode::K, Mode::S]),
            (vec!["A", "B", "A"], vec![Mode::K, Mode::S]),
            (vec!["A", "B", "C"], vec![Mode::K, Mode::M]),
            (vec!["A", "C", "C"], vec![Mode::M, Mode::G]),
            (vec!["D", "A", "D"], vec![Mode::K, Mode::S]),
        ];
        for (config, modes) in &three {
            for mode in modes.iter() {
                for sched in all_schedules(&turns(config)) {
                    emit(&mut sink, "all-schedules-3-threads", &mk_case(*mode, o.seed, idx, config, Some(sched)), o.seed);
                    idx += 1;
                }
            }
        }
    }

    // 4. sampled schedules, three threads x 2 descriptions (34 650 schedules per configuration)
    let sampled: Vec<Vec<&str>> =
        vec![vec!["AB", "BA", "AB"], vec!["AB", "BC", "CA"], vec!["AA", "AA", "AA"], vec!["AC", "CB", "BA"], vec!["AD", "DE", "EA"]];
    let nsampled = if o.thorough { 6_000 } else { 100 } * o.scale;
    for k in 0..nsampled {
        let config = &sampled[(k % sampled.len() as u64) as usize];
        let mode = all_modes[((k / sampled.len() as u64) % 4) as usize];
        let mut rng = Rng::for_case(o.seed, "C10-sampled", idx);
        let sched = random_schedule(&mut rng, &turns(config));
        emit(&mut sink, "sampled-schedules-3-threads", &mk_case(mode, o.seed, idx, config, Some(sched)), o.seed);
        idx += 1;
    }

    // 5. free-running stress: 8..16 threads, barrier start
    let nstress = if o.thorough { 4_000 } else { 150 } * o.scale;
    let variants = ['A', 'B', 'C', 'D', 'E'];
    for k in 0..nstress {
        let mut rng = Rng::for_case(o.seed, "C10-stress", idx);
        let nthreads = rng.range(8, 16);
        let ndistinct = rng.range(1, 4);
        let per_thread = rng.range(1, 3);
        let config: Vec<String> = (0..nthreads)
            .map(|_| (0..per_thread).map(|_| variants[rng.below(ndistinct as u64) as usize]).collect())
            .collect();
        let refs: Vec<&str> = config.iter().map(String::as_str).collect();
        let mode = all_modes[(k % 4) as usize];
        emit(&mut sink, "stress-free-running", &mk_case(mode, o.seed, idx, &refs, None), o.seed);
        idx += 1;
    }

    sink.finish(
        "schedule case = announcement lists for 2..3 real threads (own receiver, own recording subscriber) + a schedule executed by a \
         turn-token driver parked at the yield points metadata:before_read / metadata:before_write (one entry = one critical section of \
         Arena::alloc_metadata; entries of finished threads are skipped), bucketing hash forced per case (k one bucket, m fields mod 2, g one \
         process-wide bucket, s the code's SipHash); observations: executed entries with their phase, per thread and announcement the address \
         held (first-occurrence number), its content, whether register_callsite was called, deltas of the leak counters; every scheduler wait \
         has a 20 s watchdog. stress case = 8..16 free-running threads released together, random yields / spins at all three yield points, \
         judged by the property only. non-trivial = some description is announced by at least two threads and (schedule cases) the executed \
         entries switch threads at least twice; distinctness is by (hash regime, lists, executed entries)",
        serde_json::json!({
            "watchdog_s": WATCHDOG.as_secs(),
            "wedged": WEDGED.load(Ordering::SeqCst),
            "leaked_metadata_total": verif_hooks::LEAKED_METADATA.load(Ordering::SeqCst),
            "leaked_strings_total": verif_hooks::LEAKED_STRINGS.load(Ordering::SeqCst),
        }),
    );
}
