//! Gallina printers for inputs and canonicalised implementation outputs.
use tracing_tunnel::{TracedError, TracedValue, TracedValues};

pub fn cstr(s: &str) -> String {
    if s.bytes().all(|b| (0x20..0x7f).contains(&b) && b != b'"') {
        format!("\"{s}\"")
    } else {
        let bytes: Vec<String> = s.bytes().map(|b| b.to_string()).collect();
        format!("(bs [{}])", bytes.join(";"))
    }
}
pub fn cn<T: std::fmt::Display>(n: T) -> String {
    format!("{n}")
}
pub fn cz<T: std::fmt::Display>(z: T) -> String {
    format!("({z})%Z")
}
pub fn cbool(b: bool) -> String {
    if b { "true".into() } else { "false".into() }
}
pub fn clist<T>(xs: impl IntoIterator<Item = T>, f: impl Fn(T) -> String) -> String {
    let items: Vec<String> = xs.into_iter().map(f).collect();
    format!("[{}]", items.join("; "))
}
pub fn copt<T>(x: Option<T>, f: impl Fn(T) -> String) -> String {
    match x {
        Some(x) => format!("(Some {})", f(x)),
        None => "None".into(),
    }
}
pub fn error_chain(err: &TracedError) -> Vec<String> {
    let mut out = vec![];
    let mut cur = err.source.as_deref();
    while let Some(e) = cur {
        out.push(e.message.clone());
        cur = e.source.as_deref();
    }
    out
}
pub fn ctv(v: &TracedValue) -> String {
    match v {
        TracedValue::Bool(b) => format!("(VBool {})", cbool(*b)),
        TracedValue::Int(i) => format!("(VInt {})", cz(i)),
        TracedValue::UInt(u) => format!("(VUInt {})", cz(u)),
        TracedValue::Float(f) => format!("(VFloat {})", f.to_bits()),
        TracedValue::String(s) => format!("(VStr {})", cstr(s)),
        TracedValue::Object(o) => format!("(VObj {})", cstr(o.as_ref())),
        TracedValue::Error(e) => format!(
            "(VErr {} {})",
            cstr(&e.message),
            clist(error_chain(e), |s| cstr(&s))
        ),
        _ => "(VBool false)".into(),
    }
}
pub fn ckv(k: &str, v: &TracedValue) -> String {
    format!("({}, {})", cstr(k), ctv(v))
}
pub fn ctvs<S: AsRef<str>>(vs: &TracedValues<S>) -> String {
    let text = clist(vs.iter(), |(k, v)| ckv(k, v));
    if vs.len() >= 2 { intern("v", text) } else { text }
}

// ---- interning of repeated sub-terms (keeps the cases small: elaboration time is what costs) ----
thread_local! {
    static INTERN: std::cell::RefCell<Option<Vec<(String, String)>>> = std::cell::RefCell::new(None);
}
/// Starts collecting `let` bindings for the case being printed.
pub fn intern_begin() {
    INTERN.with(|i| *i.borrow_mut() = Some(vec![]));
}
fn intern(prefix: &str, text: String) -> String {
    INTERN.with(|i| {
        let mut i = i.borrow_mut();
        match i.as_mut() {
            None => text,
            Some(table) => {
                if let Some(pos) = table.iter().position(|(_, t)| *t == text) {
                    return table[pos].0.clone();
                }
                let name = format!("{prefix}{}_", table.len());
                table.push((name.clone(), text));
                name
            }
        }
    })
}
/// Wraps the term into the collected `let` bindings and stops collecting.
pub fn intern_wrap(term: &str) -> String {
    let table = INTERN.with(|i| i.borrow_mut().take()).unwrap_or_default();
    let mut out = String::new();
    for (name, text) in &table {
        out.push_str(&format!("let {name} := {text} in "));
    }
    out.push_str(term);
    out
}

/// Builds values that have no public constructor.
pub fn mk_object(rendered: &str) -> TracedValue {
    TracedValue::debug(&format_args!("{rendered}"))
}
pub fn mk_error(msgs: &[String]) -> TracedValue {
    fn go(msgs: &[String]) -> serde_json::Value {
        let source = if msgs.len() > 1 { go(&msgs[1..]) } else { serde_json::Value::Null };
        serde_json::json!({ "message": msgs[0], "source": source })
    }
    serde_json::from_value(serde_json::json!({ "error": go(msgs) })).expect("error value")
}

// ---- the recorders' own value visitor -------------------------------------------------------

/// What a recording subscriber of the harness saw in a value set: a `Visit` implementation of the
/// harness's own, so that the recorders do not depend on the visitor of `tracing-tunnel` (the code
/// under test): one entry per field name in first-occurrence order, a repeated name replaced in
/// place; integers widened to 128 bits; `record_debug` as the rendered text; `record_error` as the
/// messages along the source chain.
#[derive(Default)]
pub struct OwnVisitor(pub Vec<(String, TracedValue)>);

impl OwnVisitor {
    fn put(&mut self, field: &tracing_core::Field, value: TracedValue) {
        let name = field.name();
        match self.0.iter_mut().find(|(n, _)| n == name) {
            Some(entry) => entry.1 = value,
            None => self.0.push((name.to_owned(), value)),
        }
    }
    fn finish(self) -> TracedValues<String> {
        self.0.into_iter().collect()
    }
}

impl tracing_core::field::Visit for OwnVisitor {
    fn record_f64(&mut self, field: &tracing_core::Field, value: f64) {
        self.put(field, TracedValue::Float(value));
    }
    fn record_i64(&mut self, field: &tracing_core::Field, value: i64) {
        self.put(field, TracedValue::Int(i128::from(value)));
    }
    fn record_u64(&mut self, field: &tracing_core::Field, value: u64) {
        self.put(field, TracedValue::UInt(u128::from(value)));
    }
    fn record_i128(&mut self, field: &tracing_core::Field, value: i128) {
        self.put(field, TracedValue::Int(value));
    }
    fn record_u128(&mut self, field: &tracing_core::Field, value: u128) {
        self.put(field, TracedValue::UInt(value));
    }
    fn record_bool(&mut self, field: &tracing_core::Field, value: bool) {
        self.put(field, TracedValue::Bool(value));
    }
    fn record_str(&mut self, field: &tracing_core::Field, value: &str) {
        self.put(field, TracedValue::String(value.to_owned()));
    }
    fn record_error(&mut self, field: &tracing_core::Field, value: &(dyn std::error::Error + 'static)) {
        let mut msgs = vec![value.to_string()];
        let mut cur = value.source();
        while let Some(e) = cur {
            msgs.push(e.to_string());
            cur = e.source();
        }
        self.put(field, mk_error(&msgs));
    }
    fn record_debug(&mut self, field: &tracing_core::Field, value: &dyn std::fmt::Debug) {
        let text = format!("{value:?}");
        self.put(field, serde_json::from_value(serde_json::json!({ "object": text })).expect("object value"));
    }
}

pub fn seen_in_values(values: &tracing_core::field::ValueSet<'_>) -> TracedValues<String> {
    let mut v = OwnVisitor::default();
    values.record(&mut v);
    v.finish()
}
pub fn seen_in_record(record: &tracing_core::span::Record<'_>) -> TracedValues<String> {
    let mut v = OwnVisitor::default();
    record.record(&mut v);
    v.finish()
}
pub fn seen_in_event(event: &tracing_core::Event<'_>) -> TracedValues<String> {
    let mut v = OwnVisitor::default();
    event.record(&mut v);
    v.finish()
}

// ---- call sites and events ------------------------------------------------------------------
use tracing_tunnel::{CallSiteData, CallSiteKind, TracingEvent, TracingLevel};

pub fn clevel(l: TracingLevel) -> &'static str {
    match l {
        TracingLevel::Error => "LError",
        TracingLevel::Warn => "LWarn",
        TracingLevel::Info => "LInfo",
        TracingLevel::Debug => "LDebug",
        TracingLevel::Trace => "LTrace",
    }
}
pub fn ccs(d: &CallSiteData) -> String {
    let text = ccs_raw(d);
    intern("d", text)
}
fn ccs_raw(d: &CallSiteData) -> String {
    format!(
        "(mk_cs {} {} {} {} {} {} {} {})",
        match d.kind { CallSiteKind::Span => "KSpan", CallSiteKind::Event => "KEvent" },
        cstr(&d.name),
        cstr(&d.target),
        clevel(d.level),
        copt(d.module_path.as_deref(), cstr),
        copt(d.file.as_deref(), cstr),
        copt(d.line, cn),
        clist(d.fields.iter(), |f| cstr(f))
    )
}
pub fn cevent(e: &TracingEvent) -> String {
    match e {
        TracingEvent::NewCallSite { id, data } => format!("(ENewCallSite {id} {})", ccs(data)),
        TracingEvent::NewSpan { id, parent_id, metadata_id, values } => format!(
            "(ENewSpan {id} {} {metadata_id} {})",
            copt(*parent_id, cn),
            ctvs(values)
        ),
        TracingEvent::FollowsFrom { id, follows_from } => format!("(EFollowsFrom {id} {follows_from})"),
        TracingEvent::SpanEntered { id } => format!("(ESpanEntered {id})"),
        TracingEvent::SpanExited { id } => format!("(ESpanExited {id})"),
        TracingEvent::SpanCloned { id } => format!("(ESpanCloned {id})"),
        TracingEvent::SpanDropped { id } => format!("(ESpanDropped {id})"),
        TracingEvent::ValuesRecorded { id, values } => format!("(EValuesRecorded {id} {})", ctvs(values)),
        TracingEvent::NewEvent { metadata_id, parent, values } => format!(
            "(ENewEvent {metadata_id} {} {})",
            copt(*parent, cn),
            ctvs(values)
        ),
        _ => "(ESpanEntered 0)".into(),
    }
}
