//! Gallina printers for inputs and canonicalised implementation outputs.
use tracing_tunnel::{TracedError, TracedValue, TracedValues};

pub fn cstr(s: &str) -> String {
    if s.bytes().all(|b| (0x20..0x7f).contains(&b) && b != b'"') {
        format!("\"{s}\"")
    } else {
        let bytes: Vec<String> = s.bytes().map(|b| b.to_string()).collect();
        format!("(bs [{}])", bytes.join(";"))
    }
}
pub fn cn<T: std::fmt::Display>(n: T) -> String {
    format!("{n}")
}
pub fn cz<T: std::fmt::Display>(z: T) -> String {
    format!("({z})%Z")
}
pub fn cbool(b: bool) -> String {
    if b { "true".into() } else { "false".into() }
}
pub fn clist<T>(xs: impl IntoIterator<Item = T>, f: impl Fn(T) -> String) -> String {
    let items: Vec<String> = xs.into_iter().map(f).collect();
    format!("[{}]", items.join("; "))
}
pub fn copt<T>(x: Option<T>, f: impl Fn(T) -> String) -> String {
    match x {
        Some(x) => format!("(Some {})", f(x)),
        None => "None".into(),
    }
}
pub fn error_chain(err: &TracedError) -> Vec<String> {
    let mut out = vec![];
    let mut cur = err.source.as_deref();
    while let Some(e) = cur {
        out.push(e.message.clone());
        cur = e.source.as_deref();
    }
    out
}
pub fn ctv(v: &TracedValue) -> String {
    match v {
        TracedValue::Bool(b) => format!("(VBool {})", cbool(*b)),
        TracedValue::Int(i) => format!("(VInt {})", cz(i)),
        TracedValue::UInt(u) => format!("(VUInt {})", cz(u)),
        TracedValue::Float(f) => format!("(VFloat {})", f.to_bits()),
        TracedValue::String(s) => format!("(VStr {})", cstr(s)),
        TracedValue::Object(o) => format!("(VObj {})", cstr(o.as_ref())),
        TracedValue::Error(e) => format!(
            "(VErr {} {})",
            cstr(&e.message),
            clist(error_chain(e), |s| cstr(&s))
        ),
        _ => "(VBool false)".into(),
    }
}
pub fn ckv(k: &str, v: &TracedValue) -> String {
    format!("({}, {})", cstr(k), ctv(v))
}
pub fn ctvs<S: AsRef<str>>(vs: &TracedValues<S>) -> String {
    let text = clist(vs.iter(), |(k, v)| ckv(k, v));
    if vs.len() >= 2 { intern("v", text) } else { text }
}

// ---- interning of repeated sub-terms (keeps the cases small: elaboration time is what costs) ----
thread_local! {
    static INTERN: std::cell::RefCell<Option<Vec<(String, String)>>> = std::cell::RefCell::new(None);
}
/// Starts collecting `let` bindings for the case being printed.
pub fn intern_begin() {
    INTERN.with(|i| *i.borrow_mut() = Some(vec![]));
}
fn intern(prefix: &str, text: String) -> String {
    INTERN.with(|i| {
        let mut i = i.borrow_mut();
        match i.as_mut() {
            None => text,
            Some(table) => {
                if let Some(pos) = table.iter().position(|(_, t)| *t == text) {
                    return table[pos].0.clone();
                }
                let name = format!("{prefix}{}_", table.len());
                table.push((name.clone(), text));
                name
            }
        }
    })
}
/// Wraps the term into the collected `let` bindings and stops collecting.
pub fn intern_wrap(term: &str) -> String {
    let table = INTERN.with(|i| i.borrow_mut().take()).unwrap_or_default();
    let mut out = String::new();
    for (name, text) in &table {
        out.push_str(&format!("let {name} := {text} in "));
    }
    out.push_str(term);
    out
}

/// Builds values that have no public constructor.
pub fn mk_object(rendered: &str) -> TracedValue {
    TracedValue::debug(&format_args!("{rendered}"))
}
pub fn mk_error(msgs: &[String]) -> TracedValue {
    fn go(msgs: &[String]) -> serde_json::Value {
        let source = if msgs.len() > 1 { go(&msgs[1..]) } else { serde_json::Value::Null };
        serde_json::json!({ "message": msgs[0], "source": source })
    }
    serde_json::from_value(serde_json::json!({ "error": go(msgs) })).expect("error value")
}

// ---- call sites and events ------------------------------------------------------------------
use tracing_tunnel::{CallSiteData, CallSiteKind, TracingEvent, TracingLevel};

pub fn clevel(l: TracingLevel) -> &'static str {
    match l {
        TracingLevel::Error => "LError",
        TracingLevel::Warn => "LWarn",
        TracingLevel::Info => "LInfo",
        TracingLevel::Debug => "LDebug",
        TracingLevel::Trace => "LTrace",
    }
}
pub fn ccs(d: &CallSiteData) -> String {
    let text = ccs_raw(d);
    intern("d", text)
}
fn ccs_raw(d: &CallSiteData) -> String {
    format!(
        "(mk_cs {} {} {} {} {} {} {} {})",
        match d.kind { CallSiteKind::Span => "KSpan", CallSiteKind::Event => "KEvent" },
        cstr(&d.name),
        cstr(&d.target),
        clevel(d.level),
        copt(d.module_path.as_deref(), cstr),
        copt(d.file.as_deref(), cstr),
        copt(d.line, cn),
        clist(d.fields.iter(), |f| cstr(f))
    )
}
pub fn cevent(e: &TracingEvent) -> String {
    match e {
        TracingEvent::NewCallSite { id, data } => format!("(ENewCallSite {id} {})", ccs(data)),
        TracingEvent::NewSpan { id, parent_id, metadata_id, values } => format!(
            "(ENewSpan {id} {} {metadata_id} {})",
            copt(*parent_id, cn),
            ctvs(values)
        ),
        TracingEvent::FollowsFrom { id, follows_from } => format!("(EFollowsFrom {id} {follows_from})"),
        TracingEvent::SpanEntered { id } => format!("(ESpanEntered {id})"),
        TracingEvent::SpanExited { id } => format!("(ESpanExited {id})"),
        TracingEvent::SpanCloned { id } => format!("(ESpanCloned {id})"),
        TracingEvent::SpanDropped { id } => format!("(ESpanDropped {id})"),
        TracingEvent::ValuesRecorded { id, values } => format!("(EValuesRecorded {id} {})", ctvs(values)),
        TracingEvent::NewEvent { metadata_id, parent, values } => format!(
            "(ENewEvent {metadata_id} {} {})",
            copt(*parent, cn),
            ctvs(values)
        ),
        _ => "(ESpanEntered 0)".into(),
    }
}
