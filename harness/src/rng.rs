//! splitmix64; every random choice of a case derives from (seed, property, case index).
#[derive(Clone)]
pub struct Rng(pub u64);

impl Rng {
    pub fn for_case(seed: u64, prop: &str, idx: u64) -> Self {
        let mut h = seed ^ 0x5851_F42D_4C95_7F2D;
        for b in prop.bytes() {
            h = (h ^ u64::from(b)).wrapping_mul(0x100_0000_01B3);
        }
        let mut r = Rng(h ^ idx.wrapping_mul(0x9E37_79B9_7F4A_7C15));
        r.next();
        r.next();
        r
    }
    pub fn next(&mut self) -> u64 {
        self.0 = self.0.wrapping_add(0x9E37_79B9_7F4A_7C15);
        let mut z = self.0;
        z = (z ^ (z >> 30)).wrapping_mul(0xBF58_476D_1CE4_E5B9);
        z = (z ^ (z >> 27)).wrapping_mul(0x94D0_49BB_1331_11EB);
        z ^ (z >> 31)
    }
    pub fn below(&mut self, n: u64) -> u64 {
        if n == 0 { 0 } else { self.next() % n }
    }
    pub fn range(&mut self, lo: usize, hi: usize) -> usize {
        lo + self.below((hi - lo + 1) as u64) as usize
    }
    pub fn chance(&mut self, percent: u64) -> bool {
        self.below(100) < percent
    }
    pub fn pick<'a, T>(&mut self, xs: &'a [T]) -> &'a T {
        &xs[self.below(xs.len() as u64) as usize]
    }
    pub fn u128(&mut self) -> u128 {
        (u128::from(self.next()) << 64) | u128::from(self.next())
    }
}
