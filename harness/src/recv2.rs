//! Helpers shared by c02 / c03 / c07: symbolic interpretation of well-formed streams,
//! quiescent cut placement, two-run cases.
use std::collections::BTreeMap;

use tracing_tunnel::TracingEvent;

use crate::{coq::*, out::Sink, recv::*, rng::Rng};

/// For every position i of a well-formed stream: is no span entered before event i is processed?
pub fn quiescent_before(evs: &[TracingEvent]) -> Vec<bool> {
    let mut handles: BTreeMap<u64, u64> = BTreeMap::new();
    let mut entered: BTreeMap<u64, u64> = BTreeMap::new();
    let mut out = vec![];
    for ev in evs {
        out.push(entered.is_empty());
        match ev {
            TracingEvent::NewSpan { id, .. } => {
                handles.insert(*id, 1);
            }
            TracingEvent::SpanCloned { id } => {
                if let Some(h) = handles.get_mut(id) {
                    *h += 1;
                }
            }
            TracingEvent::SpanDropped { id } => {
                if let Some(h) = handles.get_mut(id) {
                    *h -= 1;
                    if *h == 0 {
                        handles.remove(id);
                        entered.remove(id);
                    }
                }
            }
            TracingEvent::SpanEntered { id } => {
                if handles.contains_key(id) {
                    *entered.entry(*id).or_insert(0) += 1;
                }
            }
            TracingEvent::SpanExited { id } => {
                if let Some(c) = entered.get_mut(id) {
                    *c -= 1;
                    if *c == 0 {
                        entered.remove(id);
                    }
                }
            }
            _ => {}
        }
    }
    out.push(entered.is_empty());
    out
}

/// Persist steps (local map kept) at a random subset of the quiescent positions.
pub fn with_quiescent_cuts(r: &mut Rng, evs: &[TracingEvent], percent: u64) -> Vec<Step> {
    let q = quiescent_before(evs);
    let mut steps = vec![];
    for (i, ev) in evs.iter().enumerate() {
        if q[i] && r.chance(percent) {
            steps.push(Step::Persist { keep: true });
        }
        steps.push(Step::Recv(ev.clone()));
    }
    if q[evs.len()] && r.chance(50) {
        steps.push(Step::Persist { keep: true });
    }
    steps
}

pub fn count_steps(sink: &mut Sink, steps: &[Step], obs: &[Obs]) -> (u64, u64) {
    let mut accepted = 0;
    let mut rejected = 0;
    for o in obs {
        match o {
            Obs::Recv(Outcome::Accepted, ..) => accepted += 1,
            Obs::Recv(Outcome::Panicked, ..) => sink.bump("outcome:panicked"),
            Obs::Recv(..) => rejected += 1,
            Obs::Persist(..) => sink.bump("step:persist"),
            Obs::Drop(..) => sink.bump("step:drop"),
        }
    }
    sink.bump_by("outcome:accepted", accepted);
    sink.bump_by("outcome:rejected", rejected);
    sink.bump_by("steps:total", steps.len() as u64);
    (accepted, rejected)
}

/// A case made of two runs in one process: `judge steps1 obs1 steps2 obs2` or variants built by `fmt`.
pub fn two_run_case(
    sink: &mut Sink,
    idx: u64,
    kind: &str,
    steps1: &[Step],
    make_second: impl FnOnce(&[Step], &[Obs]) -> Vec<Step>,
    nonce: &str,
    fmt: impl FnOnce(&str, &str, &str, &str) -> String,
    nontrivial: impl FnOnce(&[Step], &[Obs], &[Step]) -> bool,
) {
    if !sink.wants(idx) {
        return;
    }
    let nsteps = steps1.len();
    let steps1 = &crate::apply_mask(steps1)[..];
    let obs1 = run_history(steps1, nonce);
    let steps2 = make_second(steps1, &obs1);
    let obs2 = run_history(&steps2, nonce);
    count_steps(sink, steps1, &obs1);
    intern_begin();
    let judge = fmt(&csteps(steps1), &cobss(&obs1), &csteps(&steps2), &cobss(&obs2));
    let judge = intern_wrap(&judge);
    let input = csteps(steps1);
    let nt = nontrivial(steps1, &obs1, &steps2);
    sink.case(idx, kind, &judge, &input, nt, || serde_json::json!({ "steps": csteps(steps1), "nsteps": nsteps }));
}

/// well-formed stream configuration
pub fn wf_cfg(r: &mut Rng, max_fields: usize) -> StreamCfg {
    StreamCfg { len: r.range(6, 50), bad: 0, max_fields, explicit_parents: true, respect_entered: true }
}
