//! C19: concurrent emitters are captured completely and consistently.
//!
//! Three kinds of cases, all with several real OS threads sharing one subscriber:
//! * `sched-registry`: `Registry + RecordingLayer`; the threads take turns under a turn counter, so the
//!   execution is exactly the generated sequence of (thread, op); every layer callback with the answers
//!   of `ctx.span`, `span_scope` / `event_scope` and `lookup_current` (the calling thread's own span
//!   stack) against the Registry model with per-thread stacks (`judge_registry_mt`);
//! * `sched-capture`: the same under `Registry + CaptureLayer (+ filter)`; any thread may use any span
//!   (explicit parents, enters, clones, drops, follows-from across threads); the storage dumped
//!   through the public API against the layer model and the reference specification evaluated on the
//!   same execution, plus the structural laws (`judge_sched`);
//! * `free`: free-running threads, no scheduler: the callbacks really overlap.  The main thread creates
//!   shared spans and hands a clone of each to every worker; the workers run independent generated
//!   programs on their own spans, using the shared spans as explicit parents, follows-from targets
//!   and entered spans.  Every item carries the marker values (thread, sequence number).  Storages
//!   are compared through per-thread views (`judge_free`), the model being evaluated on one
//!   linearization (prelude, worker 1, worker 2, .., postlude).
#[path = "c05.rs"]
#[allow(dead_code)]
mod base;

use std::{
    panic::{catch_unwind, AssertUnwindSafe},
    sync::{
        atomic::{AtomicBool, AtomicUsize, Ordering},
        Arc, Barrier, Mutex,
    },
};

use tracing_capture::{CaptureLayer, SharedStorage};
use tracing_core::Dispatch;
use tracing_subscriber::{layer::SubscriberExt, Registry};
use tracing_tunnel::{CallSiteData, CallSiteKind, TracingLevel};

use self::base::{bump_prog, cids, dump_shared, gen_filter, site, FilterSpec, RecState, RecordingLayer};
use crate::{coq::*, guest::*, out::Sink, rng::Rng, Opts};

// ---- scheduled executions -------------------------------------------------------------------------

/// A well-formed multi-threaded program: a weighted random walk that keeps the symbolic state of
/// `wf_prog_b` (handle counts, one stack of entered spans per thread).  Any thread may use any
/// live span.
fn gen_mt_prog(r: &mut Rng, nthreads: usize, min_ops: usize, max_ops: usize) -> Prog {
    let mut cfg = GenCfg::balanced("c19");
    cfg.min_ops = 0;
    cfg.max_ops = 0;
    cfg.wide_sites = 5;
    let sites = gen_prog(r, &cfg).sites;
    let span_sites: Vec<usize> = (0..sites.len()).filter(|i| matches!(sites[*i].kind, CallSiteKind::Span)).collect();
    let event_sites: Vec<usize> = (0..sites.len()).filter(|i| matches!(sites[*i].kind, CallSiteKind::Event)).collect();
    let mut site_of: Vec<usize> = vec![];
    let mut handles: Vec<u32> = vec![];
    let mut stacks: Vec<Vec<usize>> = vec![vec![]; nthreads];
    let n = r.range(min_ops, max_ops);
    let mut ops: Vec<(usize, Op)> = vec![];
    let weights: [u64; 8] = [18, 8, 16, 14, 6, 14, 4, 20];
    let total: u64 = weights.iter().sum();
    let mut budget = 64 * (n + 1);
    let mut tid = 0usize;
    while ops.len() < n && budget > 0 {
        budget -= 1;
        // short bursts of one thread, then another
        if r.chance(55) {
            tid = r.below(nthreads as u64) as usize;
        }
        let live: Vec<usize> = (0..handles.len()).filter(|k| handles[*k] > 0).collect();
        let mut pick = r.below(total);
        let mut kind = 0;
        for (i, w) in weights.iter().enumerate() {
            if pick < *w {
                kind = i;
                break;
            }
            pick -= *w;
        }
        let parent = |r: &mut Rng, live: &[usize]| -> ParentKind {
            match r.below(10) {
                0..=4 => ParentKind::Ctx,
                5 => ParentKind::Root,
                _ if !live.is_empty() => ParentKind::Explicit(*r.pick(live)),
                _ => ParentKind::Ctx,
            }
        };
        let entered_somewhere = |stacks: &Vec<Vec<usize>>, k: usize| stacks.iter().any(|s| s.contains(&k));
        match kind {
            0 => {
                let cs = *r.pick(&span_sites);
                let p = parent(r, &live);
                let vals = gen_valset(r, sites[cs].fields.len());
                ops.push((tid, Op::NewSpan(cs, p, vals)));
                site_of.push(cs);
                handles.push(1);
            }
            1 if !live.is_empty() => {
                let k = *r.pick(&live);
                ops.push((tid, Op::Record(k, gen_valset(r, sites[site_of[k]].fields.len()))));
            }
            2 if !live.is_empty() => {
                let k = if !stacks[tid].is_empty() && r.chance(30) { *r.pick(&stacks[tid]) } else { *r.pick(&live) };
                if handles[k] > 0 {
                    ops.push((tid, Op::Enter(k)));
                    stacks[tid].push(k);
                }
            }
            3 if !stacks[tid].is_empty() => {
                let s = &mut stacks[tid];
                let pos = if r.chance(75) { s.len() - 1 } else { r.below(s.len() as u64) as usize };
                let k = s[pos];
                if handles[k] > 0 {
                    let last = s.iter().rposition(|j| *j == k).unwrap();
                    s.remove(last);
                    ops.push((tid, Op::Exit(k)));
                }
            }
            4 if !live.is_empty() => {
                let k = *r.pick(&live);
                ops.push((tid, Op::Clone(k)));
                handles[k] += 1;
            }
            5 if !live.is_empty() => {
                let k = *r.pick(&live);
                if handles[k] > 1 || !entered_somewhere(&stacks, k) {
                    ops.push((tid, Op::Drop(k)));
                    handles[k] -= 1;
                }
            }
            6 if !live.is_empty() => {
                let k = *r.pick(&live);
                let j = *r.pick(&live);
                ops.push((tid, Op::Follows(k, FollowTarget::Live(j))));
            }
            7 => {
                let cs = *r.pick(&event_sites);
                let p = parent(r, &live);
                let vals = gen_valset(r, sites[cs].fields.len());
                ops.push((tid, Op::Event(cs, p, vals)));
            }
            _ => {}
        }
    }
    Prog { sites, ops }
}

/// waits at the barrier when dropped (also on the early-return paths)
struct StayAlive<'a>(&'a Barrier);
impl Drop for StayAlive<'_> {
    fn drop(&mut self) {
        self.0.wait();
    }
}

struct SchedOut {
    raws: Vec<u64>,
    panicked: bool,
}

/// Runs the program with one OS thread per thread id; the threads take turns in program order.
/// `observe` runs on the calling thread after all workers have finished, with the remaining handles
/// still alive; then the handles are dropped (inside the dispatcher scope of the calling thread).
fn run_sched<T>(prog: &Prog, nthreads: usize, dispatch: &Dispatch, observe: impl FnOnce() -> T) -> (SchedOut, Option<T>) {
    let sites = make_sites(&prog.sites);
    for s in &sites {
        tracing::dispatcher::with_default(dispatch, || {
            let _ = s.interest();
        });
    }
    let interp = Mutex::new(ExecResult::default());
    let raws = Mutex::new(vec![]);
    let turn = AtomicUsize::new(0);
    let failed = AtomicBool::new(false);
    let per_thread: Vec<Vec<usize>> =
        (0..nthreads).map(|t| (0..prog.ops.len()).filter(|i| prog.ops[*i].0 == t).collect()).collect();
    let end = Barrier::new(nthreads);
    std::thread::scope(|scope| {
        for t in 0..nthreads {
            let mine = &per_thread[t];
            let (interp, raws, turn, failed, sites, prog, end) = (&interp, &raws, &turn, &failed, &sites, prog, &end);
            let dispatch = dispatch.clone();
            scope.spawn(move || {
                let _guard = tracing::dispatcher::set_default(&dispatch);
                // No thread may exit before the execution is over: tracing-subscriber keeps the span
                // stacks in a `thread_local::ThreadLocal`, whose per-thread slots are recycled when a
                // thread exits, so a thread that makes its first call after another one has exited with
                // a leaked enter would inherit that thread's stack.  (Behaviour of the Registry, not of
                // the code under test; the model's threads never die.)
                let _stay = StayAlive(end);
                for &i in mine {
                    while turn.load(Ordering::Acquire) != i {
                        if failed.load(Ordering::Acquire) {
                            return;
                        }
                        std::thread::yield_now();
                    }
                    let op = &prog.ops[i].1;
                    let res = catch_unwind(AssertUnwindSafe(|| {
                        let mut r = interp.lock().unwrap_or_else(|e| e.into_inner());
                        exec_op(&mut r, sites, op);
                        r.ops_run += 1;
                        if let Op::NewSpan(..) = op {
                            let id = r.handles.last().and_then(|hs| hs.first()).and_then(tracing::Span::id);
                            raws.lock().unwrap().push(id.map_or(0, |x| x.into_u64()));
                        }
                    }));
                    if res.is_err() {
                        failed.store(true, Ordering::Release);
                        return;
                    }
                    turn.store(i + 1, Ordering::Release);
                }
            });
        }
    });
    let panicked = failed.load(Ordering::Acquire);
    let r = interp.into_inner().unwrap_or_else(|e| e.into_inner());
    let raws = raws.into_inner().unwrap();
    if panicked {
        r.leak();
        return (SchedOut { raws, panicked }, None);
    }
    let obs = catch_unwind(AssertUnwindSafe(|| {
        tracing::dispatcher::with_default(dispatch, || {
            let o = observe();
            drop(r);
            o
        })
    }));
    match obs {
        Ok(o) => (SchedOut { raws, panicked: false }, Some(o)),
        Err(_) => (SchedOut { raws, panicked: true }, None),
    }
}

fn show_mt(prog: &Prog) -> serde_json::Value {
    serde_json::json!({
        "sites": prog.sites.iter().map(|s| format!("{:?} {} target={} level={:?} fields={:?}", s.kind, s.name, s.target, s.level, s.fields)).collect::<Vec<_>>(),
        "ops": prog.ops.iter().map(|(t, op)| format!("T{t}: {op:?}")).collect::<Vec<_>>(),
        "nsteps": prog.ops.len(),
    })
}

fn threads_of(prog: &Prog) -> usize {
    prog.ops.iter().map(|(t, _)| *t + 1).max().unwrap_or(1)
}

fn sched_registry_case(sink: &mut Sink, idx: u64, kind: &str, prog: &Prog) {
    if !sink.wants(idx) {
        return;
    }
    let prog = &Prog { sites: prog.sites.clone(), ops: crate::apply_mask(&prog.ops) };
    let key = cprog(prog);
    intern_begin();
    let state = Arc::new(Mutex::new(RecState::default()));
    let dispatch = Dispatch::new(Registry::default().with(RecordingLayer(Arc::clone(&state))));
    let st2 = Arc::clone(&state);
    let (out, len) = run_sched(prog, threads_of(prog), &dispatch, move || st2.lock().unwrap().log.len());
    let trace = len.map(|len| {
        let st = state.lock().unwrap();
        clist(st.log[..len].iter(), base::Obs::coq)
    });
    let term = format!(
        "judge_registry_mt {} {} {}",
        cprog(prog),
        cids(&out.raws),
        match &trace {
            Some(t) => format!("(Some {t})"),
            None => "None".into(),
        }
    );
    let judge = intern_wrap(&term);
    bump_prog(sink, prog);
    sink.bump(&format!("threads:{:02}", threads_of(prog)));
    if out.panicked {
        sink.bump("sched:panicked");
    }
    sink.bump_by("registry:callbacks", len.unwrap_or(0) as u64);
    sink.case(idx, kind, &judge, &key, len.unwrap_or(0) >= 2, || {
        serde_json::json!({ "case": show_mt(prog), "raw_ids": out.raws, "trace": trace, "nsteps": prog.ops.len() })
    });
}

fn sched_capture_case(sink: &mut Sink, idx: u64, kind: &str, prog: &Prog, filter: &FilterSpec) {
    if !sink.wants(idx) {
        return;
    }
    let prog = &Prog { sites: prog.sites.clone(), ops: crate::apply_mask(&prog.ops) };
    let key = format!("{} {:?}", cprog(prog), filter);
    intern_begin();
    let storage = SharedStorage::default();
    let dispatch = Dispatch::new(Registry::default().with(filter.attach(CaptureLayer::new(&storage))));
    let st2 = storage.clone();
    let (out, dump) = run_sched(prog, threads_of(prog), &dispatch, move || dump_shared(&st2));
    let dump = dump.flatten();
    let (ns, ne) = dump.as_ref().map_or((0, 0), |d| (d.1, d.2));
    let term = format!(
        "judge_sched {} {} {} {}",
        cprog(prog),
        cids(&out.raws),
        filter.fexpr().coq(),
        match &dump {
            Some(d) => format!("(Some {})", d.0),
            None => "None".into(),
        }
    );
    let judge = intern_wrap(&term);
    bump_prog(sink, prog);
    sink.bump(&format!("threads:{:02}", threads_of(prog)));
    sink.bump(&format!("filter:{}", filter.kind_name()));
    if out.panicked {
        sink.bump("sched:panicked");
    }
    sink.bump_by("captured:spans", ns as u64);
    sink.bump_by("captured:events", ne as u64);
    sink.case(idx, kind, &judge, &key, ns + ne > 0, || {
        serde_json::json!({ "case": show_mt(prog), "filter": format!("{filter:?}"), "raw_ids": out.raws,
                            "storage": dump.as_ref().map(|d| d.0.clone()), "nsteps": prog.ops.len() })
    });
}

// ---- free-running threads ---------------------------------------------------------------------------

/// sites of the free-running programs; fields 0 and 1 are the markers (thread, sequence number)
fn free_sites() -> Vec<CallSiteData> {
    vec![
        site(CallSiteKind::Span, "shared", "guest::c19::main", TracingLevel::Info, &["t", "n"]),
        site(CallSiteKind::Span, "work", "guest::c19::worker", TracingLevel::Info, &["t", "n", "a", "b"]),
        site(CallSiteKind::Span, "step", "guest::c19::worker::step", TracingLevel::Debug, &["t", "n", "a"]),
        site(CallSiteKind::Span, "detail", "guest::c19::worker::detail", TracingLevel::Trace, &["t", "n"]),
        site(CallSiteKind::Event, "event src/c19.rs:1", "guest::c19::worker", TracingLevel::Info, &["t", "n", "message"]),
        site(CallSiteKind::Event, "event src/c19.rs:2", "guest::c19::worker::step", TracingLevel::Debug, &["t", "n", "x"]),
        site(CallSiteKind::Event, "event src/c19.rs:3", "guest::c19::main", TracingLevel::Warn, &["t", "n"]),
    ]
}
const SPAN_SITES: [usize; 3] = [1, 2, 3];
const EVENT_SITES: [usize; 3] = [4, 5, 6];

fn mark(t: usize, n: &mut u128) -> ValSet {
    let v = vec![(0, Some(Prim::UInt(IWidth::W64, t as u128))), (1, Some(Prim::UInt(IWidth::W64, *n)))];
    *n += 1;
    v
}
fn extra_vals(r: &mut Rng, nfields: usize, vals: &mut ValSet) {
    for f in 2..nfields {
        if r.chance(60) {
            vals.push((f, if r.chance(15) { None } else { Some(gen_prim(r)) }));
        }
    }
}

#[derive(Clone)]
struct FreeCase {
    nshared: usize,
    /// main thread: creation of the shared spans (and events), in global indices
    prelude: Vec<Op>,
    /// worker programs in LOCAL indices: 0..nshared = the worker's clones of the shared spans, then own spans
    workers: Vec<Vec<Op>>,
    /// main thread after the workers have been joined, in global indices
    postlude: Vec<Op>,
}

/// tight loops of span creation / events (contention on the storage lock), or a mixed walk
fn gen_worker(r: &mut Rng, t: usize, nshared: usize, nops: usize, tight: bool) -> Vec<Op> {
    let sites = free_sites();
    let mut ops = vec![];
    // markers: (thread, rank among the thread's spans) resp. (thread, rank among the thread's events)
    let mut seq = 0u128;
    let mut eseq = 0u128;
    // local table: handle counts; stack of entered spans
    let mut handles: Vec<u32> = vec![1; nshared];
    let mut site_of: Vec<usize> = vec![0; nshared];
    let mut stack: Vec<usize> = vec![];
    let own = |handles: &Vec<u32>| -> Vec<usize> { (nshared..handles.len()).filter(|k| handles[*k] > 0).collect() };
    let mut budget = 40 * (nops + 1);
    while ops.len() < nops && budget > 0 {
        budget -= 1;
        let live: Vec<usize> = (0..handles.len()).filter(|k| handles[*k] > 0).collect();
        let mine = own(&handles);
        let kind = if tight { *r.pick(&[0u64, 0, 0, 7, 7, 7, 7, 2, 3, 5]) } else { r.below(9) };
        let parent = |r: &mut Rng| -> ParentKind {
            match r.below(10) {
                0..=5 => ParentKind::Ctx,
                6 => ParentKind::Root,
                _ => ParentKind::Explicit(*r.pick(&live)),
            }
        };
        match kind {
            0 | 8 => {
                let cs = *r.pick(&SPAN_SITES);
                let p = parent(r);
                let mut vals = mark(t, &mut seq);
                extra_vals(r, sites[cs].fields.len(), &mut vals);
                ops.push(Op::NewSpan(cs, p, vals));
                handles.push(1);
                site_of.push(cs);
            }
            1 if !mine.is_empty() => {
                // never the marker fields
                let k = *r.pick(&mine);
                let nf = sites[site_of[k]].fields.len();
                if nf > 2 {
                    let mut vals = vec![];
                    extra_vals(r, nf, &mut vals);
                    ops.push(Op::Record(k, vals));
                }
            }
            2 => {
                let k = if !stack.is_empty() && r.chance(25) { *r.pick(&stack) } else { *r.pick(&live) };
                ops.push(Op::Enter(k));
                stack.push(k);
            }
            3 if !stack.is_empty() => {
                let pos = if r.chance(80) { stack.len() - 1 } else { r.below(stack.len() as u64) as usize };
                let k = stack[pos];
                let last = stack.iter().rposition(|j| *j == k).unwrap();
                stack.remove(last);
                ops.push(Op::Exit(k));
            }
            4 if !mine.is_empty() => {
                let k = *r.pick(&mine);
                ops.push(Op::Clone(k));
                handles[k] += 1;
            }
            5 if !mine.is_empty() => {
                let k = *r.pick(&mine);
                if handles[k] > 1 || !stack.contains(&k) {
                    ops.push(Op::Drop(k));
                    handles[k] -= 1;
                }
            }
            6 if !mine.is_empty() => {
                let k = *r.pick(&mine);
                let j = *r.pick(&live);
                ops.push(Op::Follows(k, FollowTarget::Live(j)));
            }
            7 => {
                let cs = *r.pick(&EVENT_SITES);
                let p = parent(r);
                let mut vals = mark(t, &mut eseq);
                extra_vals(r, sites[cs].fields.len(), &mut vals);
                ops.push(Op::Event(cs, p, vals));
            }
            _ => {}
        }
    }
    // leave everything, give every handle back (own spans in creation order, then the clones)
    while let Some(k) = stack.pop() {
        ops.push(Op::Exit(k));
    }
    for k in nshared..handles.len() {
        for _ in 0..handles[k] {
            ops.push(Op::Drop(k));
        }
    }
    for k in 0..nshared {
        ops.push(Op::Drop(k));
    }
    ops
}

fn gen_free(r: &mut Rng, nworkers: usize, nops: usize, tight: bool) -> FreeCase {
    let nshared = r.range(1, 3);
    let mut seq = 0u128;
    let mut eseq = 0u128;
    let mut prelude = vec![];
    let mut entered = vec![];
    for i in 0..nshared {
        let p = if i > 0 && r.chance(50) { ParentKind::Explicit(r.below(i as u64) as usize) } else { ParentKind::Ctx };
        prelude.push(Op::NewSpan(0, p, mark(0, &mut seq)));
        if r.chance(40) {
            prelude.push(Op::Enter(i));
            entered.push(i);
        }
    }
    if r.chance(50) {
        prelude.push(Op::Event(6, ParentKind::Ctx, mark(0, &mut eseq)));
    }
    // one clone of every shared span per worker
    for _ in 0..nworkers {
        for j in 0..nshared {
            prelude.push(Op::Clone(j));
        }
    }
    let workers = (0..nworkers).map(|w| gen_worker(r, w + 1, nshared, nops, tight)).collect();
    let mut postlude = vec![Op::Event(6, ParentKind::Ctx, mark(0, &mut eseq))];
    while let Some(k) = entered.pop() {
        postlude.push(Op::Exit(k));
    }
    for j in 0..nshared {
        postlude.push(Op::Drop(j));
    }
    FreeCase { nshared, prelude, workers, postlude }
}

/// Bursts: every worker emits `nevents` events (outside any span, or inside one span of its own when
/// `in_span`), all workers released together; the main thread does nothing before or after, so the
/// very last callback the layer receives is some worker's event.
fn gen_burst(r: &mut Rng, nworkers: usize, nevents: usize, in_span: bool) -> FreeCase {
    let workers = (0..nworkers)
        .map(|w| {
            let t = w + 1;
            let (mut seq, mut eseq) = (0u128, 0u128);
            let mut ops = vec![];
            if in_span {
                ops.push(Op::NewSpan(1, ParentKind::Ctx, mark(t, &mut seq)));
                ops.push(Op::Enter(0));
            }
            for _ in 0..nevents {
                ops.push(Op::Event(*r.pick(&[4usize, 6]), ParentKind::Ctx, mark(t, &mut eseq)));
            }
            if in_span {
                // leave the span before the last event: the execution still ends with an event
                let last = ops.pop().expect("event");
                ops.push(Op::Exit(0));
                ops.push(Op::Drop(0));
                ops.push(last);
            }
            ops
        })
        .collect();
    FreeCase { nshared: 0, prelude: vec![], workers, postlude: vec![] }
}

fn remap(op: &Op, f: &dyn Fn(usize) -> usize) -> Op {
    let pk = |p: &ParentKind| match p {
        ParentKind::Explicit(k) => ParentKind::Explicit(f(*k)),
        other => *other,
    };
    match op {
        Op::NewSpan(cs, p, v) => Op::NewSpan(*cs, pk(p), v.clone()),
        Op::Record(k, v) => Op::Record(f(*k), v.clone()),
        Op::Enter(k) => Op::Enter(f(*k)),
        Op::Exit(k) => Op::Exit(f(*k)),
        Op::Clone(k) => Op::Clone(f(*k)),
        Op::Drop(k) => Op::Drop(f(*k)),
        Op::Follows(k, FollowTarget::Live(j)) => Op::Follows(f(*k), FollowTarget::Live(f(*j))),
        Op::Follows(k, t) => Op::Follows(f(*k), *t),
        Op::Event(cs, p, v) => Op::Event(*cs, pk(p), v.clone()),
    }
}

/// the linearization handed to the model: prelude, worker 1, worker 2, .., postlude
fn linearize(c: &FreeCase) -> Prog {
    let mut ops: Vec<(usize, Op)> = c.prelude.iter().map(|o| (0, o.clone())).collect();
    let mut offset = c.nshared;
    for (w, wops) in c.workers.iter().enumerate() {
        let ns = c.nshared;
        let off = offset;
        let f = move |k: usize| if k < ns { k } else { off + (k - ns) };
        for op in wops {
            ops.push((w + 1, remap(op, &f)));
        }
        offset += wops.iter().filter(|o| matches!(o, Op::NewSpan(..))).count();
    }
    ops.extend(c.postlude.iter().map(|o| (0, o.clone())));
    Prog { sites: free_sites(), ops }
}

/// Real execution: prelude on the calling thread, the workers free-running between two barriers,
/// postlude on the calling thread, then the dump.  `None` = some tracing call panicked or the storage
/// is poisoned.
static FREE_HANGS: std::sync::atomic::AtomicUsize = std::sync::atomic::AtomicUsize::new(0);

/// `run_free_unguarded` on a thread of its own under a watchdog: emitters that block each other inside
/// the layer never come back.  Outer `None`: the execution did not finish within the period (its threads
/// are left behind).
fn run_free(c: &FreeCase, filter: &FilterSpec) -> Option<(String, usize, usize)> {
    let (tx, rx) = std::sync::mpsc::channel();
    let (c2, f2): (FreeCase, FilterSpec) = (c.clone(), filter.clone());
    std::thread::spawn(move || {
        let _ = tx.send(run_free_unguarded(&c2, &f2));
    });
    match rx.recv_timeout(std::time::Duration::from_secs(30)) {
        Ok(out) => out,
        Err(_) => {
            FREE_HANGS.fetch_add(1, Ordering::SeqCst);
            None
        }
    }
}

fn run_free_unguarded(c: &FreeCase, filter: &FilterSpec) -> Option<(String, usize, usize)> {
    let storage = SharedStorage::default();
    let dispatch = Dispatch::new(Registry::default().with(filter.attach(CaptureLayer::new(&storage))));
    let sites = make_sites(&free_sites());
    let ok = catch_unwind(AssertUnwindSafe(|| {
        tracing::dispatcher::with_default(&dispatch, || {
            for s in &sites {
                let _ = s.interest();
            }
            let mut main = ExecResult::default();
            for op in &c.prelude {
                exec_op(&mut main, &sites, op);
            }
            // hand the clones over: worker w gets the last remaining clone of every shared span
            let mut tables: Vec<ExecResult> = vec![];
            for _ in 0..c.workers.len() {
                let mut t = ExecResult::default();
                for j in 0..c.nshared {
                    let h = main.handles[j].pop().expect("clone for the worker");
                    t.handles.push(vec![h]);
                    t.enabled.push(true);
                    t.span_sites.push(0);
                }
                tables.push(t);
            }
            let start = Barrier::new(c.workers.len());
            let failed = AtomicBool::new(false);
            std::thread::scope(|scope| {
                for (wops, mut table) in c.workers.iter().zip(tables) {
                    let (start, failed, sites) = (&start, &failed, &sites);
                    let dispatch = dispatch.clone();
                    scope.spawn(move || {
                        let _guard = tracing::dispatcher::set_default(&dispatch);
                        let _stay = StayAlive(start);
                        start.wait();
                        let res = catch_unwind(AssertUnwindSafe(|| {
                            for op in wops {
                                exec_op(&mut table, sites, op);
                            }
                        }));
                        if res.is_err() {
                            failed.store(true, Ordering::Release);
                            std::mem::take(&mut table).leak();
                        }
                    });
                }
            });
            if failed.load(Ordering::Acquire) {
                main.leak();
                return false;
            }
            for op in &c.postlude {
                exec_op(&mut main, &sites, op);
            }
            drop(main);
            true
        })
    }));
    match ok {
        Ok(true) => dump_shared(&storage),
        _ => None,
    }
}

fn free_case(sink: &mut Sink, idx: u64, kind: &str, c: &FreeCase, filter: &FilterSpec) {
    free_case_rounds(sink, idx, kind, c, filter, 1);
}

/// `rounds` > 1: the same execution is repeated on fresh storages; a cheap scan (number of captured
/// items against the number the unfiltered program emits) selects the run handed to the judge: the
/// first one that looks wrong, otherwise the last one.
fn free_case_rounds(sink: &mut Sink, idx: u64, kind: &str, c: &FreeCase, filter: &FilterSpec, rounds: usize) {
    if !sink.wants(idx) {
        return;
    }
    // every execution that hangs costs the whole watchdog period and leaves its threads behind
    if FREE_HANGS.load(Ordering::SeqCst) >= 3 {
        sink.bump("free:not-run-after-three-hangs");
        return;
    }
    let prog = linearize(c);
    let key = format!("{} {:?}", cprog(&prog), filter);
    let emitted_spans = prog.ops.iter().filter(|(_, o)| matches!(o, Op::NewSpan(..))).count();
    let emitted_events = prog.ops.iter().filter(|(_, o)| matches!(o, Op::Event(..))).count();
    intern_begin();
    let mut dump = run_free(c, filter);
    let mut rounds_run = 1u64;
    let unfiltered = matches!(filter, FilterSpec::Unfiltered);
    while (rounds_run as usize) < rounds
        && dump.as_ref().is_some_and(|d| !unfiltered || (d.1 == emitted_spans && d.2 == emitted_events))
    {
        intern_begin();
        dump = run_free(c, filter);
        rounds_run += 1;
    }
    sink.bump_by("free:rounds", rounds_run);
    let (ns, ne) = dump.as_ref().map_or((0, 0), |d| (d.1, d.2));
    let nthreads = c.workers.len() + 1;
    let term = format!(
        "judge_free {}%nat {} {} {}",
        nthreads,
        cprog(&prog),
        filter.fexpr().coq(),
        match &dump {
            Some(d) => format!("(Some {})", d.0),
            None => "None".into(),
        }
    );
    let judge = intern_wrap(&term);
    sink.bump(&format!("free-threads:{:02}", nthreads));
    sink.bump(&format!("filter:{}", filter.kind_name()));
    sink.bump_by("free:ops", prog.ops.len() as u64);
    sink.bump_by("captured:spans", ns as u64);
    sink.bump_by("captured:events", ne as u64);
    if dump.is_none() {
        sink.bump("free:panicked-poisoned-or-hung");
    }
    sink.case(idx, kind, &judge, &key, ns + ne > 0, || {
        serde_json::json!({ "linearization": show_mt(&prog), "filter": format!("{filter:?}"),
                            "workers": c.workers.len(), "storage": dump.as_ref().map(|d| d.0.clone()) })
    });
}

// ---- hand-written executions --------------------------------------------------------------------------

fn corpus() -> Vec<Prog> {
    use Op::*;
    use ParentKind::{Ctx, Explicit, Root};
    let sites = base::corpus_sites();
    let p = |ops: Vec<(usize, Op)>| Prog { sites: sites.clone(), ops };
    vec![
        // two threads enter the same span; each emits inside it; exits in the other order
        p(vec![(0, NewSpan(0, Ctx, vec![])), (0, Clone(0)), (1, Enter(0)), (2, Enter(0)), (1, Event(3, Ctx, vec![])),
               (2, Event(3, Ctx, vec![])), (1, Exit(0)), (0, Drop(0)), (2, Event(4, Ctx, vec![])), (2, Exit(0)), (2, Drop(0))]),
        // a child created by another thread keeps its explicit parent open after the parent's handles are gone
        p(vec![(0, NewSpan(0, Ctx, vec![])), (1, NewSpan(1, Explicit(0), vec![])), (0, Drop(0)), (1, Enter(1)),
               (1, Event(3, Ctx, vec![])), (1, Exit(1)), (1, Drop(1))]),
        // contextual parents come from the issuing thread's own stack only
        p(vec![(0, NewSpan(0, Ctx, vec![])), (0, Enter(0)), (1, NewSpan(1, Ctx, vec![])), (1, Enter(1)), (0, NewSpan(2, Ctx, vec![])),
               (1, NewSpan(2, Ctx, vec![])), (0, Event(3, Ctx, vec![])), (1, Event(3, Ctx, vec![])), (2, Event(3, Ctx, vec![])),
               (1, Exit(1)), (0, Exit(0))]),
        // a handle cloned on one thread and dropped on another; the last drop closes the span there
        p(vec![(0, NewSpan(0, Root, vec![])), (0, Clone(0)), (1, Drop(0)), (1, Follows(0, FollowTarget::Live(0))), (2, Drop(0))]),
        // re-entrant enter on one thread while another thread holds a single enter
        p(vec![(0, NewSpan(0, Ctx, vec![])), (1, Enter(0)), (1, Enter(0)), (2, Enter(0)), (1, Exit(0)), (2, Exit(0)),
               (1, NewSpan(1, Ctx, vec![])), (1, Exit(0)), (1, NewSpan(1, Ctx, vec![]))]),
    ]
}

// ---- driver ------------------------------------------------------------------------------------------

pub fn run(o: &Opts) {
    let mut sink = Sink::new(&o.out, o.shards, "Judge.C19", o.only.clone());
    let mut idx = 0u64;

    // 1. corpus
    let info = FilterSpec::Level(Some(TracingLevel::Info));
    for prog in &corpus() {
        sched_registry_case(&mut sink, idx, "corpus-registry", prog);
        idx += 1;
        for f in [&FilterSpec::Unfiltered, &info] {
            sched_capture_case(&mut sink, idx, "corpus-capture", prog, f);
            idx += 1;
        }
    }

    // 2. scheduled random executions: 2..=6 threads, any thread may use any span
    let n_reg = if o.thorough { 6_000 } else { 150 } * o.scale;
    for _ in 0..n_reg {
        if sink.wants(idx) {
            let mut r = Rng::for_case(o.seed, "C19-sched-registry", idx);
            let nthreads = r.range(2, 6);
            let prog = gen_mt_prog(&mut r, nthreads, 4, 40);
            sched_registry_case(&mut sink, idx, "sched-registry", &prog);
        }
        idx += 1;
    }
    let n_cap = if o.thorough { 12_000 } else { 300 } * o.scale;
    for _ in 0..n_cap {
        if sink.wants(idx) {
            let mut r = Rng::for_case(o.seed, "C19-sched-capture", idx);
            let nthreads = r.range(2, 6);
            let prog = gen_mt_prog(&mut r, nthreads, 4, 40);
            let filter = gen_filter(&mut r, &prog);
            sched_capture_case(&mut sink, idx, "sched-capture", &prog, &filter);
        }
        idx += 1;
    }

    // 3. free-running threads
    let n_free = if o.thorough { 4_000 } else { 90 } * o.scale;
    for i in 0..n_free {
        if sink.wants(idx) {
            let mut r = Rng::for_case(o.seed, "C19-free", idx);
            let nworkers = *r.pick(&[2usize, 2, 3, 4, 4, 6, 8, 12, 15]);
            let tight = i % 3 != 0;
            let nops = if tight { r.range(30, 60) } else { r.range(10, 40) };
            let nops = if nworkers > 8 { nops.min(30) } else { nops };
            let case = gen_free(&mut r, nworkers, nops, tight);
            let filter = match r.below(4) {
                0 => FilterSpec::Unfiltered,
                1 => FilterSpec::Level(Some(*r.pick(&[TracingLevel::Info, TracingLevel::Debug, TracingLevel::Warn]))),
                _ => gen_filter(&mut r, &linearize(&case)),
            };
            free_case(&mut sink, idx, "free", &case, &filter);
        }
        idx += 1;
    }

    // 4. bursts of events ending the execution (nothing follows the workers' last callbacks)
    let n_burst = if o.thorough { 600 } else { 30 } * o.scale;
    for i in 0..n_burst {
        if sink.wants(idx) {
            let mut r = Rng::for_case(o.seed, "C19-burst", idx);
            let nworkers = *r.pick(&[4usize, 8, 8, 12]);
            let nevents = r.range(5, 40);
            let case = gen_burst(&mut r, nworkers, nevents, i % 3 == 2);
            free_case_rounds(&mut sink, idx, "burst", &case, &FilterSpec::Unfiltered, if o.thorough { 120 } else { 60 });
        }
        idx += 1;
    }

    sink.finish(
        "one case = one execution of 2..=16 real OS threads sharing one subscriber. sched-*: the threads take turns in the order of \
         the generated (thread, op) sequence, any thread may use any span; Registry + recording layer (callback trace with the \
         calling thread's lookup_current, against the Registry model with per-thread stacks) or Registry + CaptureLayer with a \
         filter (storage against layer model, specification and structural laws). free: free-running workers between barriers on \
         independent programs over their own spans and spans shared by the main thread (explicit parents, follows-from targets, \
         enters), tight create / emit loops in two cases out of three; bursts: workers that only emit events, released together, \
         nothing before or after them, repeated on fresh storages (a count scan selects the run that is judged); per-thread views of the storage against the model and the \
         specification on one linearization, structural laws, nothing unmarked. non-trivial = the trace has at least two callbacks \
         resp. the storage holds at least one item; distinct = distinct canonical execution (and filter) text",
        serde_json::json!({ "call_sites_built": sites_built() }),
    );
}
