//! C17: the query API of a captured `Storage` is a consistent view of one forest.
//!
//! Storages are produced by driving real `tracing` spans and events (static call sites, field `i`
//! = creation index) into `Registry + CaptureLayer`, optionally with `LevelFilter::INFO` on the
//! layer so that DEBUG spans are skipped and their children attach to the nearest captured
//! ancestor.  Every storage is then observed through the public API only; spans / events are named
//! by their position in `all_spans()` / `all_events()`, found through the recorded field `i`.
use std::{cmp::Ordering, collections::HashMap};

use tracing::Span;
use tracing_capture::{CaptureLayer, CapturedEvent, CapturedSpan, SharedStorage, Storage};
use tracing_subscriber::{filter::LevelFilter, layer::SubscriberExt, Registry};

use crate::{coq::*, out::Sink, rng::Rng, Opts};

// ---- programs ---------------------------------------------------------------------------------

/// How the parent of a new span / event is given.
#[derive(Clone, Debug, PartialEq)]
enum Par {
    /// contextual: the thread's current span
    Ctx,
    /// `parent: None`
    Root,
    /// `parent: &span` (creation index of the span)
    Of(usize),
}

#[derive(Clone, Debug)]
enum Op {
    /// creates span number `k` (k = number of `Span` ops before this one); `info` = INFO, else DEBUG
    Span { info: bool, par: Par },
    Event { info: bool, par: Par },
    Enter(usize),
    Exit(usize),
    Follows(usize, usize),
    Drop(usize),
}

fn show_par(p: &Par) -> String {
    match p {
        Par::Ctx => "ctx".into(),
        Par::Root => "root".into(),
        Par::Of(h) => format!("of{h}"),
    }
}
fn show_op(op: &Op) -> String {
    match op {
        Op::Span { info, par } => format!("span({},{})", if *info { "I" } else { "D" }, show_par(par)),
        Op::Event { info, par } => format!("event({},{})", if *info { "I" } else { "D" }, show_par(par)),
        Op::Enter(h) => format!("enter{h}"),
        Op::Exit(h) => format!("exit{h}"),
        Op::Follows(a, b) => format!("follows({a},{b})"),
        Op::Drop(h) => format!("drop{h}"),
    }
}
fn show_prog(p: &[Op]) -> String {
    p.iter().map(show_op).collect::<Vec<_>>().join(" ")
}

// A handful of static call sites.
fn mk_span(info: bool, par: &Par, handles: &[Option<Span>], i: u64) -> Span {
    match (info, par) {
        (true, Par::Ctx) => tracing::info_span!("s", i),
        (true, Par::Root) => tracing::info_span!(parent: None, "s", i),
        (true, Par::Of(h)) => tracing::info_span!(parent: handles[*h].as_ref().expect("live handle"), "s", i),
        (false, Par::Ctx) => tracing::debug_span!("d", i),
        (false, Par::Root) => tracing::debug_span!(parent: None, "d", i),
        (false, Par::Of(h)) => tracing::debug_span!(parent: handles[*h].as_ref().expect("live handle"), "d", i),
    }
}
fn mk_event(info: bool, par: &Par, handles: &[Option<Span>], i: u64) {
    match (info, par) {
        (true, Par::Ctx) => tracing::info!(i, "e"),
        (true, Par::Root) => tracing::info!(parent: None, i, "e"),
        (true, Par::Of(h)) => tracing::info!(parent: handles[*h].as_ref().expect("live handle"), i, "e"),
        (false, Par::Ctx) => tracing::debug!(i, "e"),
        (false, Par::Root) => tracing::debug!(parent: None, i, "e"),
        (false, Par::Of(h)) => tracing::debug!(parent: handles[*h].as_ref().expect("live handle"), i, "e"),
    }
}

/// Runs the program against a fresh `Registry + CaptureLayer` and returns the storage.
fn execute(prog: &[Op], filter: bool) -> SharedStorage {
    execute_with(prog, filter, false)
}

/// A value whose `Debug` impl runs guest code before it renders.
struct Reenter<'a>(&'a dyn Fn());
impl std::fmt::Debug for Reenter<'_> {
    fn fmt(&self, f: &mut std::fmt::Formatter<'_>) -> std::fmt::Result {
        (self.0)();
        f.write_str("re-entered")
    }
}

/// the static metadata of the call site of the outer span of `execute_with`
fn outer_meta() -> &'static tracing::Metadata<'static> {
    static SITE: std::sync::OnceLock<&'static crate::guest::DynSite> = std::sync::OnceLock::new();
    SITE.get_or_init(|| {
        crate::guest::make_site(&tracing_tunnel::CallSiteData {
            kind: tracing_tunnel::CallSiteKind::Span,
            name: "outer".into(),
            target: "c17".into(),
            level: tracing_tunnel::TracingLevel::Info,
            module_path: None,
            file: None,
            line: None,
            fields: vec!["i".into(), "attr".into()],
        })
    })
    .metadata()
}

/// `reentrant`: the first INFO span the program creates with a contextual parent or none is created while
/// the layer renders the attributes of ANOTHER span that is being created (through an explicit dispatcher
/// handle, so that tracing-core delivers the nested call): the layer is re-entered inside `on_new_span`.
/// The outer span (field `i` = 1_000_000 + ..) is captured after the inner one and kept to the end.
fn execute_with(prog: &[Op], filter: bool, reentrant: bool) -> SharedStorage {
    let mut reenter_pending = reentrant;
    let mut extras: Vec<Span> = vec![];
    let storage = SharedStorage::default();
    let layer = CaptureLayer::new(&storage);
    let layer = if filter { layer.with_filter(LevelFilter::INFO) } else { layer };
    let subscriber = Registry::default().with(layer);
    tracing::subscriber::with_default(subscriber, || {
        let mut handles: Vec<Option<Span>> = vec![];
        let mut entered: Vec<usize> = vec![];
        let mut counter = 0u64;
        for op in prog {
            match op {
                Op::Span { info: true, par } if reenter_pending && !matches!(par, Par::Of(_)) => {
                    reenter_pending = false;
                    let meta = outer_meta();
                    let fields = meta.fields();
                    let (fi, fa) = (fields.field("i").expect("field i"), fields.field("attr").expect("field attr"));
                    let inner: std::cell::RefCell<Option<Span>> = std::cell::RefCell::new(None);
                    let create_inner = || {
                        if inner.borrow().is_none() {
                            let span = mk_span(true, par, &handles, counter);
                            *inner.borrow_mut() = Some(span);
                        }
                    };
                    let attr = Reenter(&create_inner);
                    let shown = tracing::field::debug(&attr);
                    let outer_i = 1_000_000u64 + counter;
                    let values = [
                        (&fi, Some(&outer_i as &dyn tracing::field::Value)),
                        (&fa, Some(&shown as &dyn tracing::field::Value)),
                    ];
                    let vs = fields.value_set(&values);
                    let dispatch = tracing::dispatcher::get_default(tracing::Dispatch::clone);
                    extras.push(Span::new_with(meta, &vs, &dispatch));
                    let span = inner.into_inner().unwrap_or_else(|| mk_span(true, par, &handles, counter));
                    counter += 1;
                    handles.push(Some(span));
                }
                Op::Span { info, par } => {
                    let span = mk_span(*info, par, &handles, counter);
                    counter += 1;
                    handles.push(Some(span));
                }
                Op::Event { info, par } => {
                    mk_event(*info, par, &handles, counter);
                    counter += 1;
                }
                Op::Enter(h) => {
                    handles[*h].as_ref().expect("live handle").with_subscriber(|(id, d)| d.enter(id));
                    entered.push(*h);
                }
                Op::Exit(h) => {
                    handles[*h].as_ref().expect("live handle").with_subscriber(|(id, d)| d.exit(id));
                    let pos = entered.iter().rposition(|x| x == h).expect("entered");
                    entered.remove(pos);
                }
                Op::Follows(a, b) => {
                    let b = handles[*b].as_ref().expect("live handle").clone();
                    handles[*a].as_ref().expect("live handle").follows_from(&b);
                }
                Op::Drop(h) => handles[*h] = None,
            }
        }
        // leave every span still entered, innermost first, then drop the handles
        while let Some(h) = entered.pop() {
            handles[h].as_ref().expect("live handle").with_subscriber(|(id, d)| d.exit(id));
        }
        handles.clear();
        extras.clear();
    });
    storage
}

/// The parent vector (over captured spans, by capture position) that tracing's rules prescribe:
/// logical parent = explicit parent / none for an explicit root / the thread's current span;
/// attachment = nearest captured span along logical parents.
fn expected_parents(prog: &[Op], filter: bool) -> Vec<Option<u64>> {
    let mut logical: Vec<Option<usize>> = vec![];
    let mut info_of: Vec<bool> = vec![];
    let mut entered: Vec<usize> = vec![];
    for op in prog {
        match op {
            Op::Span { info, par } => {
                logical.push(match par {
                    Par::Ctx => entered.last().copied(),
                    Par::Root => None,
                    Par::Of(h) => Some(*h),
                });
                info_of.push(*info);
            }
            Op::Enter(h) => entered.push(*h),
            Op::Exit(h) => {
                let pos = entered.iter().rposition(|x| x == h).expect("entered");
                entered.remove(pos);
            }
            _ => {}
        }
    }
    let captured = |k: usize| info_of[k] || !filter;
    let mut position: Vec<Option<u64>> = vec![];
    let mut next = 0u64;
    for k in 0..logical.len() {
        position.push(if captured(k) { next += 1; Some(next - 1) } else { None });
    }
    let mut out = vec![];
    for k in 0..logical.len() {
        if !captured(k) {
            continue;
        }
        let mut cur = logical[k];
        while let Some(p) = cur {
            if captured(p) {
                break;
            }
            cur = logical[p];
        }
        out.push(cur.and_then(|p| position[p]));
    }
    out
}

// ---- observation through the public API ---------------------------------------------------------

struct IterObs {
    fwd: Vec<u64>,
    len: u64,
    back: Vec<u64>,
    mixed: Vec<(u64, u64)>,
    end: u64,
}

const BAD: u64 = u64::MAX;

fn observe_iter<T, I>(mk: impl Fn() -> I, ix: impl Fn(&T) -> u64) -> IterObs
where
    I: ExactSizeIterator<Item = T> + DoubleEndedIterator,
{
    let fwd: Vec<u64> = mk().map(|x| ix(&x)).collect();
    let fresh = mk();
    // size_hint must agree with len()
    let len = if fresh.size_hint() == (fresh.len(), Some(fresh.len())) { fresh.len() as u64 } else { BAD };
    let back: Vec<u64> = mk().rev().map(|x| ix(&x)).collect();
    let mut it = mk();
    let mut mixed = vec![];
    let mut front = true;
    loop {
        let before = it.len() as u64;
        let item = if front { it.next() } else { it.next_back() };
        match item {
            Some(x) => mixed.push((before, ix(&x))),
            None => break,
        }
        front = !front;
    }
    let exhausted = it.next().is_none() && it.next_back().is_none();
    let end = if exhausted { it.len() as u64 } else { BAD };
    // the provided methods of `Iterator` / `DoubleEndedIterator` (a type may override any of them) must
    // agree with what `next` / `next_back` yield: internal iteration in both directions, `count`, `last`,
    // `nth`, `nth_back`.  A disagreement is reported through an impossible `len`.
    let push = |mut acc: Vec<u64>, x: T| {
        acc.push(ix(&x));
        acc
    };
    let mut via_for_each = vec![];
    mk().rev().for_each(|x| via_for_each.push(ix(&x)));
    let derived_ok = mk().fold(vec![], push) == fwd
        && mk().rfold(vec![], push) == back
        && via_for_each == back
        && mk().rev().fold(vec![], push) == back
        && mk().rev().rfold(vec![], push) == fwd
        && mk().count() == fwd.len()
        && mk().last().map(|x| ix(&x)) == fwd.last().copied()
        && mk().rev().last().map(|x| ix(&x)) == fwd.first().copied()
        && (0..=fwd.len()).all(|k| mk().nth(k).map(|x| ix(&x)) == fwd.get(k).copied())
        && (0..=fwd.len()).all(|k| mk().nth_back(k).map(|x| ix(&x)) == back.get(k).copied());
    let len = if derived_ok { len } else { BAD };
    IterObs { fwd, len, back, mixed, end }
}

/// An iterator that promises no exact length (ancestors, descendants, descendant events): what it
/// yields, and - reported through an impossible index - whether `size_hint` brackets the number of items
/// still to come at every step of the walk, and whether the provided methods (`fold`, `count`, `last`,
/// `nth`) agree with `next`.
fn observe_plain<T, I: Iterator<Item = T>>(mk: impl Fn() -> I, ix: impl Fn(&T) -> u64) -> Vec<u64> {
    let items: Vec<u64> = mk().map(|x| ix(&x)).collect();
    let mut it = mk();
    let mut hints_ok = true;
    for k in 0..=items.len() {
        let remaining = items.len() - k;
        let (lo, hi) = it.size_hint();
        hints_ok &= lo <= remaining && hi.map_or(true, |hi| remaining <= hi);
        let item = it.next().map(|x| ix(&x));
        hints_ok &= item == items.get(k).copied();
    }
    let derived_ok = mk().fold(vec![], |mut acc, x| {
        acc.push(ix(&x));
        acc
    }) == items
        && mk().count() == items.len()
        && mk().last().map(|x| ix(&x)) == items.last().copied()
        && (0..=items.len()).all(|k| mk().nth(k).map(|x| ix(&x)) == items.get(k).copied());
    if hints_ok && derived_ok {
        items
    } else {
        let mut bad = items;
        // (an index no storage of a case reaches; small enough for the judge to convert it to `nat`)
        bad.push(1_000_000);
        bad
    }
}

struct SpanObs {
    i: u64,
    parent: Option<u64>,
    children: IterObs,
    events: IterObs,
    follows: IterObs,
    ancestors: Vec<u64>,
    descendants: Vec<u64>,
    desc_events: Vec<u64>,
}
struct EventObs {
    i: u64,
    parent: Option<u64>,
    ancestors: Vec<u64>,
}
struct StorageObs {
    spans: Vec<SpanObs>,
    events: Vec<EventObs>,
    all_spans: IterObs,
    root_spans: IterObs,
    all_events: IterObs,
    root_events: IterObs,
    expect: Option<Vec<Option<u64>>>,
}

fn field_i_span(s: &CapturedSpan<'_>) -> u64 {
    s.value("i").and_then(|v| v.as_uint()).map_or(BAD, |v| v as u64)
}
fn field_i_event(e: &CapturedEvent<'_>) -> u64 {
    e.value("i").and_then(|v| v.as_uint()).map_or(BAD, |v| v as u64)
}

fn observe(storage: &Storage, expect: Option<Vec<Option<u64>>>) -> StorageObs {
    let span_pos: HashMap<u64, u64> =
        storage.all_spans().enumerate().map(|(k, s)| (field_i_span(&s), k as u64)).collect();
    let event_pos: HashMap<u64, u64> =
        storage.all_events().enumerate().map(|(k, e)| (field_i_event(&e), k as u64)).collect();
    let sx = |s: &CapturedSpan<'_>| span_pos.get(&field_i_span(s)).copied().unwrap_or(BAD);
    let ex = |e: &CapturedEvent<'_>| event_pos.get(&field_i_event(e)).copied().unwrap_or(BAD);

    let spans = storage
        .all_spans()
        .map(|s| SpanObs {
            i: field_i_span(&s),
            parent: s.parent().map(|p| sx(&p)),
            children: observe_iter(|| s.children(), sx),
            events: observe_iter(|| s.events(), ex),
            follows: observe_iter(|| s.follows_from(), sx),
            ancestors: observe_plain(|| s.ancestors(), &sx),
            descendants: observe_plain(|| s.descendants(), &sx),
            desc_events: observe_plain(|| s.descendant_events(), &ex),
        })
        .collect();
    let events = storage
        .all_events()
        .map(|e| EventObs {
            i: field_i_event(&e),
            parent: e.parent().map(|p| sx(&p)),
            ancestors: observe_plain(|| e.ancestors(), &sx),
        })
        .collect();
    StorageObs {
        spans,
        events,
        all_spans: observe_iter(|| storage.all_spans(), sx),
        root_spans: observe_iter(|| storage.root_spans(), sx),
        all_events: observe_iter(|| storage.all_events(), ex),
        root_events: observe_iter(|| storage.root_events(), ex),
        expect,
    }
}

struct CmpObs {
    span: bool,
    sa: usize,
    a: u64,
    sb: usize,
    b: u64,
    eq: bool,
    cmp: Option<Ordering>,
}

/// Reaches span number `k` of `all_spans()` through one of several access paths.
fn span_via<'a>(storage: &'a Storage, k: usize, path: u64) -> CapturedSpan<'a> {
    let direct = storage.all_spans().nth(k).expect("span");
    let same = |s: &CapturedSpan<'a>| field_i_span(s) == field_i_span(&direct);
    let found = match path % 5 {
        0 => None,
        1 => direct.children().next().and_then(|c| c.parent()),
        2 => direct.parent().and_then(|p| p.children().find(|c| same(c))),
        3 => storage.root_spans().find(|r| same(r)).or_else(|| {
            storage.root_spans().find_map(|r| r.descendants().find(|d| same(d)))
        }),
        _ => storage.all_spans().rev().find(|s| same(s)),
    };
    found.unwrap_or(direct)
}
fn event_via<'a>(storage: &'a Storage, k: usize, path: u64) -> CapturedEvent<'a> {
    let direct = storage.all_events().nth(k).expect("event");
    let same = |e: &CapturedEvent<'a>| field_i_event(e) == field_i_event(&direct);
    let found = match path % 3 {
        0 => None,
        1 => match direct.parent() {
            Some(p) => p.events().find(|e| same(e)),
            None => storage.root_events().find(|e| same(e)),
        },
        _ => storage.all_events().rev().find(|e| same(e)),
    };
    found.unwrap_or(direct)
}

/// Equality / ordering samples: all pairs in small storages, random pairs otherwise, every
/// (parent, child) pair, and pairs across the storages of the case.
/// `==` as observed; if `!=` contradicts it the observation is flipped so that the judge sees it.
fn obs_eq<T: PartialEq>(x: &T, y: &T) -> bool {
    let eq = x == y;
    #[allow(clippy::nonminimal_bool)]
    let ne = x != y;
    if eq != ne { eq } else { !eq }
}
/// `partial_cmp` as observed; if the operators `<`, `<=`, `>`, `>=` contradict it, what the operators
/// say is reported instead, so that the judge sees the inconsistency.
fn obs_cmp<T: PartialOrd>(x: &T, y: &T) -> Option<std::cmp::Ordering> {
    use std::cmp::Ordering::{Equal, Greater, Less};
    let pc = x.partial_cmp(y);
    let ops = (x < y, x <= y, x > y, x >= y);
    let expected = match pc {
        Some(Less) => (true, true, false, false),
        Some(Equal) => (false, true, false, true),
        Some(Greater) => (false, false, true, true),
        None => (false, false, false, false),
    };
    if ops == expected {
        pc
    } else if ops.0 {
        if pc == Some(Less) { Some(Greater) } else { Some(Less) }
    } else if ops.2 {
        if pc == Some(Greater) { Some(Less) } else { Some(Greater) }
    } else if ops.1 || ops.3 {
        if pc == Some(Equal) { None } else { Some(Equal) }
    } else {
        if pc.is_none() { Some(Equal) } else { None }
    }
}

fn compare(storages: &[&Storage], r: &mut Rng) -> Vec<CmpObs> {
    let mut out = vec![];
    let sizes: Vec<(usize, usize)> = storages.iter().map(|s| (s.all_spans().len(), s.all_events().len())).collect();
    let mut span_pair = |sa: usize, a: usize, sb: usize, b: usize, r: &mut Rng| {
        let x = span_via(storages[sa], a, r.next());
        let y = span_via(storages[sb], b, r.next());
        out.push(CmpObs { span: true, sa, a: a as u64, sb, b: b as u64, eq: obs_eq(&x, &y), cmp: obs_cmp(&x, &y) });
    };
    for (k, &(n, _)) in sizes.iter().enumerate() {
        if n <= 5 {
            for a in 0..n {
                for b in 0..n {
                    span_pair(k, a, k, b, r);
                }
            }
        } else {
            for _ in 0..12 {
                let a = r.below(n as u64) as usize;
                let b = if r.chance(25) { a } else { r.below(n as u64) as usize };
                span_pair(k, a, k, b, r);
            }
        }
        // parents against their children
        let links: Vec<(usize, usize)> = storages[k]
            .all_spans()
            .enumerate()
            .filter_map(|(c, s)| {
                let p = s.parent()?;
                let pi = field_i_span(&p);
                let pk = storages[k].all_spans().position(|q| field_i_span(&q) == pi)?;
                Some((pk, c))
            })
            .collect();
        for &(p, c) in links.iter().take(8) {
            span_pair(k, p, k, c, r);
            span_pair(k, c, k, p, r);
        }
    }
    if storages.len() > 1 {
        for _ in 0..8 {
            let (sa, sb) = if r.chance(50) { (0, 1) } else { (1, 0) };
            if sizes[sa].0 > 0 && sizes[sb].0 > 0 {
                let a = r.below(sizes[sa].0 as u64) as usize;
                // same position in the other storage is the interesting case
                let b = if r.chance(50) && a < sizes[sb].0 { a } else { r.below(sizes[sb].0 as u64) as usize };
                span_pair(sa, a, sb, b, r);
            }
        }
    }
    let mut event_pair = |sa: usize, a: usize, sb: usize, b: usize, r: &mut Rng| {
        let x = event_via(storages[sa], a, r.next());
        let y = event_via(storages[sb], b, r.next());
        out.push(CmpObs { span: false, sa, a: a as u64, sb, b: b as u64, eq: obs_eq(&x, &y), cmp: obs_cmp(&x, &y) });
    };
    for (k, &(_, m)) in sizes.iter().enumerate() {
        if m <= 4 {
            for a in 0..m {
                for b in 0..m {
                    event_pair(k, a, k, b, r);
                }
            }
        } else {
            for _ in 0..8 {
                let a = r.below(m as u64) as usize;
                let b = if r.chance(25) { a } else { r.below(m as u64) as usize };
                event_pair(k, a, k, b, r);
            }
        }
    }
    if storages.len() > 1 {
        for _ in 0..4 {
            let (sa, sb) = if r.chance(50) { (0, 1) } else { (1, 0) };
            if sizes[sa].1 > 0 && sizes[sb].1 > 0 {
                let a = r.below(sizes[sa].1 as u64) as usize;
                let b = if r.chance(50) && a < sizes[sb].1 { a } else { r.below(sizes[sb].1 as u64) as usize };
                event_pair(sa, a, sb, b, r);
            }
        }
    }
    out
}

// ---- Gallina printers ------------------------------------------------------------------------

fn cnl(l: &[u64]) -> String {
    clist(l.iter(), |x| cn(x))
}
fn cio(io: &IterObs) -> String {
    format!(
        "(mk_io {} {} {} {} {})",
        cnl(&io.fwd),
        io.len,
        cnl(&io.back),
        clist(io.mixed.iter(), |(l, x)| format!("({l}, {x})")),
        io.end
    )
}
fn cso(s: &SpanObs) -> String {
    format!(
        "(mk_so {} {} {} {} {} {} {} {})",
        s.i,
        copt(s.parent, cn),
        cio(&s.children),
        cio(&s.events),
        cio(&s.follows),
        cnl(&s.ancestors),
        cnl(&s.descendants),
        cnl(&s.desc_events)
    )
}
fn ceo(e: &EventObs) -> String {
    format!("(mk_eo {} {} {})", e.i, copt(e.parent, cn), cnl(&e.ancestors))
}
fn csto(o: &StorageObs) -> String {
    format!(
        "(mk_sto {} {} {} {} {} {} {})",
        clist(o.spans.iter(), cso),
        clist(o.events.iter(), ceo),
        cio(&o.all_spans),
        cio(&o.root_spans),
        cio(&o.all_events),
        cio(&o.root_events),
        copt(o.expect.as_ref(), |ps| clist(ps.iter(), |p| copt(*p, cn)))
    )
}
fn ccmp(c: &CmpObs) -> String {
    format!(
        "(mk_co {} {} {} {} {} {} {})",
        cbool(c.span),
        c.sa,
        c.a,
        c.sb,
        c.b,
        cbool(c.eq),
        copt(c.cmp, |o| match o {
            Ordering::Less => "Lt".to_owned(),
            Ordering::Equal => "Eq".to_owned(),
            Ordering::Greater => "Gt".to_owned(),
        })
    )
}

// ---- cases ------------------------------------------------------------------------------------

struct Run {
    prog: Vec<Op>,
    filter: bool,
    /// the program's first INFO span is created by the `Debug` impl of an attribute of another span that is
    /// being created (see `execute_with`)
    reentrant: bool,
}

fn emit(sink: &mut Sink, idx: u64, kind: &str, runs: &[Run], seed: u64) {
    if !sink.wants(idx) {
        return;
    }
    let shared: Vec<SharedStorage> = runs.iter().map(|r| execute_with(&r.prog, r.filter, r.reentrant)).collect();
    let guards: Vec<_> = shared.iter().map(|s| s.lock()).collect();
    let storages: Vec<&Storage> = guards.iter().map(|g| &**g).collect();
    let obs: Vec<StorageObs> = storages
        .iter()
        .zip(runs)
        .map(|(s, r)| observe(s, (!r.reentrant).then(|| expected_parents(&r.prog, r.filter))))
        .collect();
    let mut r = Rng::for_case(seed, "C17-cmp", idx);
    let cmps = compare(&storages, &mut r);
    let judge = format!("judge_c17 {} {}", clist(obs.iter(), csto), clist(cmps.iter(), ccmp));

    // statistics of the first storage
    let o = &obs[0];
    let n = o.spans.len();
    let depth = o.spans.iter().map(|s| s.ancestors.len() + 1).max().unwrap_or(0);
    let width = o.spans.iter().map(|s| s.children.fwd.len()).max().unwrap_or(0).max(o.root_spans.fwd.len());
    let nested_events = o.events.iter().filter(|e| e.ancestors.len() >= 2).count();
    let bucket = |x: usize| match x {
        0 => "0",
        1 => "1",
        2..=3 => "2-3",
        4..=7 => "4-7",
        8..=15 => "8-15",
        16..=31 => "16-31",
        _ => "32+",
    };
    sink.bump(&format!("spans:{}", bucket(n)));
    sink.bump(&format!("events:{}", bucket(o.events.len())));
    sink.bump(&format!("depth:{}", bucket(depth)));
    sink.bump(&format!("width:{}", bucket(width)));
    sink.bump(&format!("roots:{}", bucket(o.root_spans.fwd.len())));
    sink.bump(if runs[0].filter { "filter:info" } else { "filter:none" });
    sink.bump(&format!("storages:{}", runs.len()));
    sink.bump_by("follows:edges", o.spans.iter().map(|s| s.follows.fwd.len() as u64).sum());
    sink.bump_by("cmp:samples", cmps.len() as u64);
    sink.bump_by("cmp:cross-storage", cmps.iter().filter(|c| c.sa != c.sb).count() as u64);
    if runs[0].filter && o.spans.len() < runs[0].prog.iter().filter(|op| matches!(op, Op::Span { .. })).count() {
        sink.bump("filter:skipped-some-span");
    }
    let nontrivial = n >= 3 && depth >= 3 && nested_events >= 1;
    let key: String = runs
        .iter()
        .map(|r| format!("{}|{}", r.filter, show_prog(&r.prog)))
        .collect::<Vec<_>>()
        .join(" || ");
    sink.case(idx, kind, &judge, &key, nontrivial, || {
        serde_json::json!({
            "storages": runs.iter().map(|r| serde_json::json!({
                "filter_info": r.filter, "program": show_prog(&r.prog) })).collect::<Vec<_>>(),
            "spans": n, "events": o.events.len(), "depth": depth,
        })
    });
}

// ---- snapshots taken by a reader while another thread is capturing ------------------------------

/// A storage seen through `SharedStorage::lock()` while a writer thread is capturing spans into it
/// must be a consistent forest as well (the layer mutates it under one write-lock acquisition per
/// callback).  One case = up to `rounds` rounds of: a fresh storage, a writer thread that creates a
/// small forest, and this thread taking snapshots in a loop.  A cheap scan (does every span appear in
/// its parent's child list resp. in the root list?) only *selects* which snapshot is handed to the
/// judge: the first suspicious one, otherwise the last one taken while the writer was still running.
fn reader_case(sink: &mut Sink, idx: u64, seed: u64, rounds: usize) {
    if !sink.wants(idx) {
        return;
    }
    use std::sync::atomic::{AtomicBool, Ordering};
    let mut r = Rng::for_case(seed, "C17-reader", idx);
    let roots = r.range(2, 4) as u64;
    let children = r.range(4, 9) as u64;
    let mut chosen: Option<(StorageObs, Vec<CmpObs>, bool)> = None;
    let mut snapshots = 0u64;
    let mut rounds_run = 0u64;
    for _ in 0..rounds {
        rounds_run += 1;
        let storage = SharedStorage::default();
        let layer = CaptureLayer::new(&storage);
        let subscriber = Registry::default().with(layer);
        let done = AtomicBool::new(false);
        let started = AtomicBool::new(false);
        let mut picked: Option<(StorageObs, Vec<CmpObs>, bool)> = None;
        std::thread::scope(|scope| {
            scope.spawn(|| {
                tracing::subscriber::with_default(subscriber, || {
                    while !started.load(Ordering::Acquire) {
                        std::hint::spin_loop();
                    }
                    let mut i = 0u64;
                    for _ in 0..roots {
                        let root = tracing::info_span!(parent: None, "s", i);
                        i += 1;
                        for k in 0..children {
                            let child = tracing::info_span!(parent: &root, "s", i);
                            i += 1;
                            if k % 3 == 0 {
                                tracing::info!(parent: &child, i, "e");
                                i += 1;
                                let grandchild = tracing::info_span!(parent: &child, "s", i);
                                i += 1;
                                drop(grandchild);
                            }
                        }
                    }
                });
                done.store(true, Ordering::Release);
            });
            started.store(true, Ordering::Release);
            while !done.load(Ordering::Acquire) {
                let guard = storage.lock();
                let st: &Storage = &guard;
                snapshots += 1;
                let suspicious = st.all_spans().any(|s| match s.parent() {
                    Some(p) => !p.children().any(|c| c == s),
                    None => !st.root_spans().any(|x| x == s),
                });
                if suspicious || (picked.is_none() && st.all_spans().len() > 0) {
                    let mut rr = Rng::for_case(seed, "C17-reader-cmp", idx);
                    picked = Some((observe(st, None), compare(&[st], &mut rr), suspicious));
                }
                drop(guard);
                if suspicious {
                    break;
                }
            }
        });
        if let Some(p) = picked {
            let hit = p.2;
            if hit || chosen.is_none() {
                chosen = Some(p);
            }
            if hit {
                break;
            }
        }
    }
    let (obs, cmps, suspicious) = match chosen {
        Some(c) => c,
        None => {
            // the writer always finished before the first snapshot: judge the final storage
            let storage = SharedStorage::default();
            let guard = storage.lock();
            (observe(&guard, None), vec![], false)
        }
    };
    sink.bump_by("reader:rounds", rounds_run);
    sink.bump_by("reader:snapshots", snapshots);
    sink.bump(if suspicious { "reader:suspicious-snapshot" } else { "reader:all-snapshots-plausible" });
    let n = obs.spans.len();
    let judge = format!("judge_c17 {} {}", clist(std::iter::once(&obs), csto), clist(cmps.iter(), ccmp));
    let key = format!("reader|{roots}x{children}|{idx}");
    sink.case(idx, "concurrent-reader", &judge, &key, n >= 3, || {
        serde_json::json!({
            "kind": "snapshot taken through SharedStorage::lock() while a writer thread was capturing",
            "roots": roots, "children_per_root": children, "spans_in_snapshot": n,
            "rounds": rounds_run, "snapshots_scanned": snapshots, "scan_flagged_it": suspicious,
        })
    });
}

// ---- generators -------------------------------------------------------------------------------

/// Forest given by a parent vector, created through explicit parents; one event per span, one root
/// event, a follows-from edge from every span to its predecessor.
fn forest_prog(parents: &[Option<usize>], info: &[bool]) -> Vec<Op> {
    let mut prog = vec![Op::Event { info: true, par: Par::Root }];
    for (k, p) in parents.iter().enumerate() {
        prog.push(Op::Span { info: info[k], par: p.map_or(Par::Root, Par::Of) });
        prog.push(Op::Event { info: true, par: Par::Of(k) });
        if k > 0 {
            prog.push(Op::Follows(k, k - 1));
        }
    }
    prog
}

fn all_parent_vectors(n: usize) -> Vec<Vec<Option<usize>>> {
    let mut out: Vec<Vec<Option<usize>>> = vec![vec![]];
    for k in 0..n {
        let mut next = vec![];
        for v in &out {
            let mut w = v.clone();
            w.push(None);
            next.push(w);
            for p in 0..k {
                let mut w = v.clone();
                w.push(Some(p));
                next.push(w);
            }
        }
        out = next;
    }
    out
}

fn gen_par(r: &mut Rng, live: &[usize]) -> Par {
    match r.below(100) {
        0..=54 => Par::Ctx,
        55..=89 if !live.is_empty() => Par::Of(*r.pick(live)),
        55..=89 => Par::Ctx,
        _ => Par::Root,
    }
}

/// Random program over a symbolic handle table so that every op is permitted by the tracing API.
fn gen_prog(r: &mut Rng, max_ops: usize, debug_percent: u64) -> Vec<Op> {
    let n_ops = r.range(0, max_ops);
    let mut prog = vec![];
    let mut live: Vec<usize> = vec![];
    let mut entered: Vec<usize> = vec![];
    let mut created = 0usize;
    // shape bias: deep (enter often), wide (rarely enter), mixed
    let enter_weight = *r.pick(&[5u64, 15, 30]);
    for _ in 0..n_ops {
        let roll = r.below(100);
        if roll < 35 || live.is_empty() {
            let par = gen_par(r, &live);
            prog.push(Op::Span { info: !r.chance(debug_percent), par });
            live.push(created);
            // frequently enter the new span right away: contextual nesting
            if r.chance(enter_weight * 2) {
                prog.push(Op::Enter(created));
                entered.push(created);
            }
            created += 1;
        } else if roll < 55 {
            let par = gen_par(r, &live);
            prog.push(Op::Event { info: !r.chance(debug_percent), par });
        } else if roll < 55 + enter_weight {
            let candidates: Vec<usize> = live.iter().copied().filter(|h| !entered.contains(h)).collect();
            if !candidates.is_empty() {
                let h = *r.pick(&candidates);
                prog.push(Op::Enter(h));
                entered.push(h);
            }
        } else if roll < 80 {
            if !entered.is_empty() {
                // mostly LIFO, sometimes out of order
                let pos = if r.chance(85) { entered.len() - 1 } else { r.below(entered.len() as u64) as usize };
                let h = entered.remove(pos);
                prog.push(Op::Exit(h));
            }
        } else if roll < 88 {
            let a = *r.pick(&live);
            let b = *r.pick(&live);
            prog.push(Op::Follows(a, b));
        } else {
            let candidates: Vec<usize> = live.iter().copied().filter(|h| !entered.contains(h)).collect();
            if !candidates.is_empty() {
                let h = *r.pick(&candidates);
                prog.push(Op::Drop(h));
                live.retain(|x| *x != h);
            }
        }
    }
    prog
}

pub fn run(o: &Opts) {
    let mut sink = Sink::new(&o.out, o.shards, "Judge.C17", o.only.clone());
    let mut idx = 0u64;

    // 1. hand-written shapes, always first
    let mut corpus: Vec<(Vec<Op>, bool)> = vec![];
    corpus.push((vec![], false)); // empty storage
    corpus.push((vec![Op::Span { info: true, par: Par::Ctx }], false)); // single span
    corpus.push((vec![Op::Event { info: true, par: Par::Ctx }], false)); // single root event
    corpus.push((vec![Op::Span { info: false, par: Par::Ctx }, Op::Enter(0), Op::Event { info: true, par: Par::Ctx }], true)); // everything filtered but the event
    // deep chains (depth 30): contextual nesting, and explicit parents
    for filter in [false, true] {
        let mut nest = vec![];
        let mut explicit = vec![];
        for k in 0..30 {
            let info = !filter || k % 3 != 1;
            nest.push(Op::Span { info, par: Par::Ctx });
            nest.push(Op::Enter(k));
            nest.push(Op::Event { info: true, par: Par::Ctx });
            explicit.push(Op::Span { info, par: if k == 0 { Par::Root } else { Par::Of(k - 1) } });
            if k % 4 == 0 {
                explicit.push(Op::Event { info: true, par: Par::Of(k) });
            }
        }
        corpus.push((nest, filter));
        corpus.push((explicit, filter));
    }
    // wide fans (40 children): explicit and contextual, with grandchildren under some of them
    for filter in [false, true] {
        let mut fan = vec![Op::Span { info: true, par: Par::Ctx }, Op::Enter(0)];
        for k in 1..=40 {
            let info = !filter || k % 4 != 0;
            fan.push(Op::Span { info, par: if k % 2 == 0 { Par::Ctx } else { Par::Of(0) } });
            if k % 5 == 0 {
                fan.push(Op::Event { info: true, par: Par::Of(k) });
            }
        }
        for k in [3usize, 4, 8, 40] {
            fan.push(Op::Span { info: true, par: Par::Of(k) });
            fan.push(Op::Event { info: true, par: Par::Of(k) });
        }
        fan.push(Op::Event { info: true, par: Par::Ctx });
        fan.push(Op::Follows(2, 1));
        fan.push(Op::Follows(2, 40));
        corpus.push((fan, filter));
    }
    // 40 roots
    corpus.push(((0..40).map(|_| Op::Span { info: true, par: Par::Root }).collect(), false));
    // the property's non-vacuity example (Props/C17.v)
    corpus.push((
        vec![
            Op::Span { info: true, par: Par::Root },
            Op::Event { info: true, par: Par::Root },
            Op::Span { info: true, par: Par::Of(0) },
            Op::Event { info: true, par: Par::Of(0) },
            Op::Span { info: true, par: Par::Root },
            Op::Span { info: true, par: Par::Of(1) },
            Op::Event { info: true, par: Par::Of(3) },
            Op::Span { info: true, par: Par::Of(0) },
            Op::Span { info: true, par: Par::Of(3) },
            Op::Event { info: true, par: Par::Of(5) },
            Op::Event { info: true, par: Par::Of(1) },
            Op::Event { info: true, par: Par::Root },
            Op::Follows(4, 1),
            Op::Span { info: true, par: Par::Of(2) },
            Op::Event { info: true, par: Par::Of(6) },
        ],
        false,
    ));
    for (k, (prog, filter)) in corpus.iter().enumerate() {
        // every second corpus case is paired with a small second storage
        let mut runs = vec![Run { prog: prog.clone(), filter: *filter, reentrant: false }];
        if k % 2 == 0 {
            runs.push(Run { prog: forest_prog(&[None, Some(0), Some(0)], &[true; 3]), filter: false, reentrant: false });
        }
        emit(&mut sink, idx, "corpus", &runs, o.seed);
        idx += 1;
    }

    // 2. bounded-exhaustive: all forests with up to 5 spans (parent vectors), explicit parents
    for n in 0..=5usize {
        for parents in all_parent_vectors(n) {
            let runs = [Run { prog: forest_prog(&parents, &vec![true; n]), filter: false, reentrant: false }];
            emit(&mut sink, idx, "exhaustive", &runs, o.seed);
            idx += 1;
        }
    }
    //    ... and all forests with up to 4 spans x all INFO/DEBUG assignments under the INFO filter
    let max_filtered = if o.thorough { 5usize } else { 4 };
    for n in 1..=max_filtered {
        for parents in all_parent_vectors(n) {
            for mask in 0..(1u32 << n) {
                let info: Vec<bool> = (0..n).map(|k| mask & (1 << k) != 0).collect();
                let runs = [Run { prog: forest_prog(&parents, &info), filter: true, reentrant: false }];
                emit(&mut sink, idx, "exhaustive-filter", &runs, o.seed);
                idx += 1;
            }
        }
    }

    // 3. random programs
    let n_random = if o.thorough { 45_000 } else { 1_400 } * o.scale;
    for _ in 0..n_random {
        if sink.wants(idx) {
            let mut r = Rng::for_case(o.seed, "C17-prog", idx);
            let filter = r.chance(40);
            let max_ops = *r.pick(&[8usize, 20, 40, 70]);
            let prog = gen_prog(&mut r, max_ops, if filter { 35 } else { 10 });
            // every fourth case: the layer is re-entered while it renders the attributes of a span
            let reentrant = idx % 4 == 1;
            let mut runs = vec![Run { prog, filter, reentrant }];
            if r.chance(50) {
                let filter2 = r.chance(30);
                runs.push(Run { prog: gen_prog(&mut r, 12, 20), filter: filter2, reentrant: false });
            }
            emit(&mut sink, idx, if filter { "random-filter" } else { "random" }, &runs, o.seed);
        }
        idx += 1;
    }

    // 4. snapshots taken by a reader while a writer thread is capturing
    let n_reader = if o.thorough { 200 } else { 12 } * o.scale;
    for _ in 0..n_reader {
        reader_case(&mut sink, idx, o.seed, if o.thorough { 600 } else { 300 });
        idx += 1;
    }

    sink.finish(
        "one case = one or two storages captured from generated tracing programs (static call sites, INFO/DEBUG, contextual / explicit / \
         explicit-root parents, enter/exit nesting incl. out-of-order exits, follows_from, handle drops; optionally LevelFilter::INFO on the \
         layer), every query of the public API on every span and event, plus ==/partial_cmp samples within and across the storages. \
         Streams: hand-written shapes (empty, single, depth-30 chains, 40-wide fans, 40 roots), all forests up to 5 spans by parent vector, \
         all forests up to 4 spans x all level assignments under the filter, random programs; snapshots taken through \
         SharedStorage::lock() by a reader while a writer thread is capturing a small forest (a scan picks the snapshot handed to the judge). \
         non-trivial = first storage has >= 3 spans, depth >= 3 and an event at depth >= 2; distinct = distinct program text",
        serde_json::json!({ "exhaustive_spans": 5, "exhaustive_filtered_spans": max_filtered }),
    );
}
