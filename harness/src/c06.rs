//! C06: the receiver is total and rejects exactly the invalid events.
use crate::{out::Sink, recv::*, rng::Rng, Opts};

pub fn run(o: &Opts) {
    let mut sink = Sink::new(&o.out, o.shards, "Judge.C06", o.only.clone());
    let mut idx = 0u64;
    let ncorpus = corpus("x").len();
    for k in 0..ncorpus {
        let nonce = format!("c06_{}_c{k}", o.seed);
        let steps = corpus(&nonce).swap_remove(k);
        hist_case(&mut sink, "judge_c06", idx, "corpus", &steps, &nonce);
        idx += 1;
    }
    let n = if o.thorough { 60_000 } else { 1_500 } * o.scale;
    for _ in 0..n {
        if sink.wants(idx) {
            let mut r = Rng::for_case(o.seed, "C06", idx);
            let nonce = format!("c06_{}_{idx}", o.seed);
            let bad = *r.pick(&[0u64, 5, 15, 40]);
            let cfg = StreamCfg { len: r.range(4, 45), bad, max_fields: 64, explicit_parents: true, respect_entered: bad == 0 };
            let evs = gen_stream(&mut r, &cfg, &nonce);
            let cut = *r.pick(&[0u64, 10, 25]);
            let steps = with_cuts(&mut r, &evs, cut, 40, 25);
            hist_case(&mut sink, "judge_c06", idx, "random", &steps, &nonce);
        }
        idx += 1;
    }
    sink.finish(
        "histories = generated event streams (valid and with 5/15/40 % bogus references, value sets 0..=40, call sites of 0..=64 fields) interleaved with persist(keep/lose local map) and drop steps; non-trivial = accepted and rejected events both occur, or the history contains a persist/drop step; distinct = distinct canonical step list",
        serde_json::json!({}),
    );
}
