//! C06: the receiver is total and rejects exactly the invalid events.
use crate::{out::Sink, recv::*, rng::Rng, Opts};
use tracing_tunnel::{CallSiteKind, TracedValues, TracingEvent};

pub fn hist_case(sink: &mut Sink, judge_fn: &str, idx: u64, kind: &str, steps: &[Step], nonce: &str) {
    if !sink.wants(idx) {
        return;
    }
    let obs = run_history(steps, nonce);
    let input = csteps(steps);
    crate::coq::intern_begin();
    let judge = format!("{judge_fn} {} {}", csteps(steps), cobss(&obs));
    let judge = crate::coq::intern_wrap(&judge);
    let mut rejected = 0;
    let mut accepted = 0;
    for o in &obs {
        match o {
            Obs::Recv(Outcome::Accepted, ..) => accepted += 1,
            Obs::Recv(Outcome::Panicked, ..) => sink.bump("outcome:panicked"),
            Obs::Recv(Outcome::UnknownMeta(_), ..) => { rejected += 1; sink.bump("outcome:unknown_meta") }
            Obs::Recv(Outcome::UnknownSpan(_), ..) => { rejected += 1; sink.bump("outcome:unknown_span") }
            Obs::Recv(Outcome::TooMany(_), ..) => { rejected += 1; sink.bump("outcome:too_many") }
            Obs::Recv(Outcome::OtherError(_), ..) => { rejected += 1; sink.bump("outcome:other") }
            Obs::Persist(..) => sink.bump("step:persist"),
            Obs::Drop(..) => sink.bump("step:drop"),
        }
    }
    sink.bump_by("outcome:accepted", accepted);
    sink.bump_by("steps:total", steps.len() as u64);
    for s in steps {
        if let Step::Recv(e) = s {
            sink.bump(match e {
                TracingEvent::NewCallSite { .. } => "ev:new_call_site",
                TracingEvent::NewSpan { .. } => "ev:new_span",
                TracingEvent::FollowsFrom { .. } => "ev:follows_from",
                TracingEvent::SpanEntered { .. } => "ev:entered",
                TracingEvent::SpanExited { .. } => "ev:exited",
                TracingEvent::SpanCloned { .. } => "ev:cloned",
                TracingEvent::SpanDropped { .. } => "ev:dropped",
                TracingEvent::ValuesRecorded { .. } => "ev:values_recorded",
                TracingEvent::NewEvent { .. } => "ev:new_event",
                _ => "ev:other",
            });
        }
    }
    // non-trivial: at least one accepted and one rejected event, or a persist/drop step
    let nontrivial = (accepted > 0 && rejected > 0) || steps.iter().any(|s| !matches!(s, Step::Recv(_)));
    sink.case(idx, kind, &judge, &input, nontrivial, || serde_json::json!({ "steps": csteps(steps) }));
}

pub fn vals(range: std::ops::Range<usize>) -> TracedValues<String> {
    range.map(|i| (format!("f{i}"), tracing_tunnel::TracedValue::from(i as i64))).collect()
}

/// hand-written histories: the repaired defects first (they must stay repaired)
pub fn corpus(nonce: &str) -> Vec<Vec<Step>> {
    let span_cs = |name: &str, n: usize| call_site(CallSiteKind::Span, nonce, name, n, false);
    let r = Step::Recv;
    vec![
        // F2: restored span with > 32 accumulated values is entered after the host lost its spans
        vec![
            r(TracingEvent::NewCallSite { id: 0, data: span_cs("f2", 40) }),
            r(TracingEvent::NewSpan { id: 1, parent_id: None, metadata_id: 0, values: vals(0..20) }),
            r(TracingEvent::ValuesRecorded { id: 1, values: vals(20..40) }),
            Step::Persist { keep: false },
            r(TracingEvent::SpanEntered { id: 1 }),
            r(TracingEvent::SpanExited { id: 1 }),
            r(TracingEvent::SpanDropped { id: 1 }),
        ],
        // F3: child of an already-dropped explicit parent entered after a host restart
        vec![
            r(TracingEvent::NewCallSite { id: 0, data: span_cs("f3", 1) }),
            r(TracingEvent::NewSpan { id: 1, parent_id: None, metadata_id: 0, values: vals(0..0) }),
            r(TracingEvent::NewSpan { id: 2, parent_id: Some(1), metadata_id: 0, values: vals(0..1) }),
            r(TracingEvent::SpanDropped { id: 1 }),
            Step::Persist { keep: false },
            r(TracingEvent::SpanEntered { id: 2 }),
            r(TracingEvent::SpanExited { id: 2 }),
        ],
        // F4: re-entrant enter, then persist / drop
        vec![
            r(TracingEvent::NewCallSite { id: 0, data: span_cs("f4", 0) }),
            r(TracingEvent::NewSpan { id: 1, parent_id: None, metadata_id: 0, values: vals(0..0) }),
            r(TracingEvent::SpanEntered { id: 1 }),
            r(TracingEvent::SpanEntered { id: 1 }),
            Step::Persist { keep: true },
            r(TracingEvent::SpanEntered { id: 1 }),
            r(TracingEvent::SpanEntered { id: 1 }),
            r(TracingEvent::SpanExited { id: 1 }),
            Step::Drop,
        ],
        // bogus events on an empty receiver
        vec![
            r(TracingEvent::NewSpan { id: 1, parent_id: None, metadata_id: 5, values: vals(0..0) }),
            r(TracingEvent::SpanEntered { id: 1 }),
            r(TracingEvent::SpanExited { id: 1 }),
            r(TracingEvent::SpanCloned { id: 1 }),
            r(TracingEvent::SpanDropped { id: 1 }),
            r(TracingEvent::ValuesRecorded { id: 1, values: vals(0..2) }),
            r(TracingEvent::FollowsFrom { id: 1, follows_from: 2 }),
            r(TracingEvent::NewEvent { metadata_id: 3, parent: None, values: vals(0..33) }),
        ],
    ]
}

pub fn run(o: &Opts) {
    let mut sink = Sink::new(&o.out, o.shards, "Judge.C06", o.only.clone());
    let mut idx = 0u64;
    let ncorpus = corpus("x").len();
    for k in 0..ncorpus {
        let nonce = format!("c06_{}_c{k}", o.seed);
        let steps = corpus(&nonce).swap_remove(k);
        hist_case(&mut sink, "judge_c06", idx, "corpus", &steps, &nonce);
        idx += 1;
    }
    let n = if o.thorough { 100_000 } else { 1_500 } * o.scale;
    for _ in 0..n {
        if sink.wants(idx) {
            let mut r = Rng::for_case(o.seed, "C06", idx);
            let nonce = format!("c06_{}_{idx}", o.seed);
            let bad = *r.pick(&[0u64, 5, 15, 40]);
            let cfg = StreamCfg { len: r.range(4, 45), bad, max_fields: 64, explicit_parents: true, respect_entered: bad == 0 };
            let evs = gen_stream(&mut r, &cfg, &nonce);
            let cut = *r.pick(&[0u64, 10, 25]);
            let steps = with_cuts(&mut r, &evs, cut, 40, 25);
            hist_case(&mut sink, "judge_c06", idx, "random", &steps, &nonce);
        }
        idx += 1;
    }
    sink.finish(
        "histories = generated event streams (valid and with 5/15/40 % bogus references, value sets 0..=40, call sites of 0..=64 fields) interleaved with persist(keep/lose local map) and drop steps; non-trivial = accepted and rejected events both occur, or the history contains a persist/drop step; distinct = distinct canonical step list",
        serde_json::json!({}),
    );
}
