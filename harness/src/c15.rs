//! C15: TracedValues as an insertion-ordered map; typed equalities vs typed accessors.
use crate::{coq::*, out::Sink, rng::Rng, Opts};
use tracing_tunnel::{FromTracedValue, TracedValue, TracedValues};

// neighbours in this list end up in one alphabet; several names are prefixes of others on purpose
const NAMES: &[&str] = &["b", "c", "d", "a", "a b", "", "ключ", "A", "q\"uote", "me", "mess", "message", "e", "f"];

pub const INT_BOUNDS: &[i128] = &[
    0, 1, -1, 2, 42, -42,
    i64::MAX as i128, i64::MAX as i128 + 1, i64::MIN as i128, i64::MIN as i128 - 1,
    u64::MAX as i128, u64::MAX as i128 + 1, i128::MAX, i128::MIN, i128::MAX - 1, i128::MIN + 1,
    i32::MAX as i128, i32::MIN as i128, 1 << 63, -(1 << 63) + 1,
];
pub const UINT_BOUNDS: &[u128] = &[
    0, 1, 2, 42, i64::MAX as u128, i64::MAX as u128 + 1, u64::MAX as u128, u64::MAX as u128 + 1,
    u128::MAX, u128::MAX - 1, i128::MAX as u128, i128::MAX as u128 + 1, u32::MAX as u128,
];
pub const FLOAT_BITS: &[u64] = &[
    0, 0x8000_0000_0000_0000, 0x3FF0_0000_0000_0000, 0xBFF0_0000_0000_0000, 0x7FF0_0000_0000_0000,
    0xFFF0_0000_0000_0000, 0x7FF8_0000_0000_0000, 0xFFF8_0000_0000_0000, 0x7FF0_0000_0000_0001,
    0x7FEF_FFFF_FFFF_FFFF, 1, 0x8000_0000_0000_0001, 0x4045_0000_0000_0000, 0x3FB9_9999_9999_999A,
    0x7FFF_FFFF_FFFF_FFFF, 0x000F_FFFF_FFFF_FFFF,
];
const STRS: &[&str] = &["", "x", "hello", "ключ", "a\nb", "tab\there", "q\"uote", "42", "true"];

pub fn gen_value(r: &mut Rng, finite: bool) -> TracedValue {
    match r.below(9) {
        0 => TracedValue::Bool(r.chance(50)),
        1 | 2 => TracedValue::Int(if r.chance(60) { *r.pick(INT_BOUNDS) } else { r.u128() as i128 >> r.below(127) }),
        3 | 4 => TracedValue::UInt(if r.chance(60) { *r.pick(UINT_BOUNDS) } else { r.u128() >> r.below(128) }),
        5 => {
            let mut bits = if r.chance(60) { *r.pick(FLOAT_BITS) } else { r.next() };
            if finite && !f64::from_bits(bits).is_finite() {
                bits &= 0x000F_FFFF_FFFF_FFFF;
                bits |= 0x3FF0_0000_0000_0000;
            }
            TracedValue::Float(f64::from_bits(bits))
        }
        6 => TracedValue::String((*r.pick(STRS)).to_owned()),
        7 => mk_object(*r.pick(STRS)),
        _ => {
            let depth = r.range(1, 4);
            let msgs: Vec<String> = (0..depth).map(|i| format!("{}{i}", r.pick(STRS))).collect();
            mk_error(&msgs)
        }
    }
}

#[derive(Clone)]
enum Op {
    Insert(String, TracedValue),
    Extend(Vec<(String, TracedValue)>),
    FromIter(Vec<(String, TracedValue)>),
    Deser(Vec<(String, TracedValue)>),
}

fn cpairs(l: &[(String, TracedValue)]) -> String {
    clist(l.iter(), |(k, v)| ckv(k, v))
}
fn cop(op: &Op) -> String {
    match op {
        Op::Insert(k, v) => format!("OpInsert {} {}", cstr(k), ctv(v)),
        Op::Extend(l) => format!("OpExtend {}", cpairs(l)),
        Op::FromIter(l) => format!("OpFromIter {}", cpairs(l)),
        Op::Deser(l) => format!("OpDeser {}", cpairs(l)),
    }
}

fn observe<K: AsRef<str> + Clone>(ret: Option<TracedValue>, m: &TracedValues<K>, probe: &[&str]) -> String {
    let fwd: Vec<(String, TracedValue)> = m.iter().map(|(k, v)| (k.to_owned(), v.clone())).collect();
    let back: Vec<(String, TracedValue)> = m.iter().rev().map(|(k, v)| (k.to_owned(), v.clone())).collect();
    let into: Vec<(String, TracedValue)> = m.clone().into_iter().map(|(k, v)| (k.as_ref().to_owned(), v)).collect();
    // `&TracedValues` IntoIterator must agree with iter()
    let by_ref: Vec<(String, TracedValue)> = (&*m).into_iter().map(|(k, v)| (k.to_owned(), v.clone())).collect();
    // the provided iterator methods (internal iteration in both directions, `count`, `last`, `nth`,
    // `nth_back`) must agree with `next` / `next_back`, for the borrowing and the consuming iterator
    let own = |(k, v): (&str, &TracedValue)| (k.to_owned(), v.clone());
    let push = |mut acc: Vec<(String, TracedValue)>, kv: (&str, &TracedValue)| {
        acc.push(own(kv));
        acc
    };
    let derived_ok = cpairs(&m.iter().fold(vec![], push)) == cpairs(&fwd)
        && cpairs(&m.iter().rfold(vec![], push)) == cpairs(&back)
        && cpairs(&m.iter().rev().fold(vec![], push)) == cpairs(&back)
        && m.iter().count() == fwd.len()
        && m.iter().last().map(own).map(|kv| cpairs(&[kv])) == fwd.last().cloned().map(|kv| cpairs(&[kv]))
        && (0..=fwd.len()).all(|k| m.iter().nth(k).map(own).map(|kv| cpairs(&[kv])) == fwd.get(k).cloned().map(|kv| cpairs(&[kv])))
        && (0..=fwd.len()).all(|k| m.iter().nth_back(k).map(own).map(|kv| cpairs(&[kv])) == back.get(k).cloned().map(|kv| cpairs(&[kv])))
        && m.clone().into_iter().count() == fwd.len()
        && cpairs(&m.clone().into_iter().fold(vec![], |mut a, (k, v)| { a.push((k.as_ref().to_owned(), v)); a })) == cpairs(&fwd);
    let itlen = if cpairs(&by_ref) == cpairs(&fwd) && derived_ok { m.iter().len() } else { usize::MAX };
    // `values[name]` panics when the name is not defined
    let index: Vec<Option<TracedValue>> = probe
        .iter()
        .map(|p| std::panic::catch_unwind(std::panic::AssertUnwindSafe(|| m[*p].clone())).ok())
        .collect();
    format!(
        "mk_vobs {} {} {} {} {} {} {} {} {}",
        copt(ret.as_ref(), ctv),
        m.len(),
        itlen,
        cpairs(&fwd),
        cpairs(&back),
        cpairs(&into),
        clist(probe.iter(), |p| copt(m.get(p), ctv)),
        cbool(m.is_empty()),
        clist(index.iter(), |v| copt(v.as_ref(), ctv))
    )
}

fn deser(l: &[(String, TracedValue)]) -> TracedValues<String> {
    let body: Vec<String> = l
        .iter()
        .map(|(k, v)| format!("{}:{}", serde_json::to_string(k).unwrap(), serde_json::to_string(v).unwrap()))
        .collect();
    let text = format!("{{{}}}", body.join(","));
    serde_json::from_str(&text).expect("deserialize values")
}

fn run_ops(ops: &[Op], probe: &[&str]) -> Vec<String> {
    let mut m: TracedValues<String> = TracedValues::new();
    let mut obs = vec![];
    for op in ops {
        let mut ret = None;
        match op.clone() {
            Op::Insert(k, v) => ret = m.insert(k, v),
            Op::Extend(l) => m.extend(l),
            Op::FromIter(l) => m = l.into_iter().collect(),
            Op::Deser(l) => m = deser(&l),
        }
        obs.push(observe(ret, &m, probe));
    }
    obs
}

/// The same operations on a collection with borrowed keys (`TracedValues<&str>`, the type
/// `from_values` / `from_record` / `from_event` produce).  All names are slices of one buffer, laid
/// out so that a name that is a prefix of another name starts at the same address (as field names
/// cut out of one larger string do).  Deserialization exists for owned keys only; its result is
/// moved over entry by entry.
fn run_ops_borrowed(ops: &[Op], probe: &[&str]) -> Vec<String> {
    let mut names: Vec<&str> = probe.to_vec();
    for op in ops {
        match op {
            Op::Insert(k, _) => names.push(k),
            Op::Extend(l) | Op::FromIter(l) | Op::Deser(l) => names.extend(l.iter().map(|(k, _)| k.as_str())),
        }
    }
    names.sort_by_key(|n| std::cmp::Reverse(n.len()));
    names.dedup();
    let mut buf = String::new();
    let mut place: Vec<(&str, usize)> = vec![];
    for n in &names {
        if place.iter().any(|(m, _)| m == n) {
            continue;
        }
        let start = match place.iter().find(|(m, _)| m.starts_with(n)) {
            Some((_, start)) => *start,
            None => {
                buf.push_str(n);
                buf.len() - n.len()
            }
        };
        place.push((n, start));
    }
    let buf: &str = &buf;
    let key = |n: &str| -> &str {
        let (_, start) = place.iter().find(|(m, _)| *m == n).expect("placed name");
        &buf[*start..*start + n.len()]
    };
    let keyed = |l: Vec<(String, TracedValue)>| l.into_iter().map(|(k, v)| (key(&k), v)).collect::<Vec<_>>();
    let mut m: TracedValues<&str> = TracedValues::new();
    let mut obs = vec![];
    for op in ops {
        let mut ret = None;
        match op.clone() {
            Op::Insert(k, v) => ret = m.insert(key(&k), v),
            Op::Extend(l) => m.extend(keyed(l)),
            Op::FromIter(l) => m = keyed(l).into_iter().collect(),
            Op::Deser(l) => m = deser(&l).into_iter().map(|(k, v)| (key(&k), v)).collect(),
        }
        obs.push(observe(ret, &m, probe));
    }
    obs
}

fn ops_case(sink: &mut Sink, idx: u64, kind: &str, ops: &[Op], probe: &[&str]) {
    if !sink.wants(idx) {
        return;
    }
    let obs = run_ops(ops, probe);
    // owned and borrowed keys must behave alike; when they do not, both runs are judged and the case
    // gets the worse verdict (`vworst`, Base/Worst.v)
    let borrowed = run_ops_borrowed(ops, probe);
    let input = format!("{} {}", clist(ops.iter(), cop), clist(probe.iter(), |p| cstr(p)));
    let mut judge = format!("judge_ops {input} [{}]", obs.join("; "));
    if borrowed != obs {
        sink.bump("keys:borrowed-differs-from-owned");
        judge = format!("vworst ({judge}) (judge_ops {input} [{}])", borrowed.join("; "));
    } else {
        sink.bump("keys:borrowed-agrees-with-owned");
    }
    // non-trivial: some name occurs at least twice in the inserted history
    let mut names: Vec<&String> = vec![];
    for op in ops {
        match op {
            Op::Insert(k, _) => names.push(k),
            Op::Extend(l) | Op::FromIter(l) | Op::Deser(l) => names.extend(l.iter().map(|(k, _)| k)),
        }
    }
    let total = names.len();
    names.sort();
    names.dedup();
    let nontrivial = names.len() < total;
    sink.bump_by("ops:total", ops.len() as u64);
    for op in ops {
        sink.bump(match op {
            Op::Insert(..) => "op:insert",
            Op::Extend(..) => "op:extend",
            Op::FromIter(..) => "op:from_iter",
            Op::Deser(..) => "op:deserialize",
        });
    }
    sink.case(idx, kind, &judge, &input, nontrivial, || serde_json::json!({ "ops": clist(ops.iter(), cop) }));
}

fn gen_pairs(r: &mut Rng, names: &[&str], finite: bool) -> Vec<(String, TracedValue)> {
    let n = r.range(0, 6);
    (0..n).map(|_| ((*r.pick(names)).to_owned(), gen_value(r, finite))).collect()
}

fn gen_ops(r: &mut Rng) -> (Vec<Op>, Vec<&'static str>) {
    let asize = r.range(1, 6);
    let start = r.range(0, NAMES.len() - asize);
    let names: Vec<&'static str> = NAMES[start..start + asize].to_vec();
    let n = r.range(1, 12);
    let ops = (0..n)
        .map(|_| match r.below(10) {
            0..=5 => Op::Insert((*r.pick(&names)).to_owned(), gen_value(r, false)),
            6 | 7 => Op::Extend(gen_pairs(r, &names, false)),
            8 => Op::FromIter(gen_pairs(r, &names, false)),
            _ => Op::Deser(gen_pairs(r, &names, true)),
        })
        .collect();
    (ops, names)
}

#[derive(Clone, Debug)]
pub enum Const {
    Bool(bool), I64(i64), I128(i128), U64(u64), U128(u128), F64(u64), Str(String),
}
fn cconst(c: &Const) -> String {
    match c {
        Const::Bool(b) => format!("(CBool {})", cbool(*b)),
        Const::I64(z) => format!("(CI64 {})", cz(z)),
        Const::I128(z) => format!("(CI128 {})", cz(z)),
        Const::U64(z) => format!("(CU64 {})", cz(z)),
        Const::U128(z) => format!("(CU128 {})", cz(z)),
        Const::F64(b) => format!("(CF64 {b})"),
        Const::Str(s) => format!("(CStr {})", cstr(s)),
    }
}

/// Returns (v == x, x == v, accessor of x's type on v).
fn conv_impl(v: &TracedValue, x: &Const) -> (bool, bool, Option<Const>) {
    match x {
        Const::Bool(b) => (*v == *b, *b == *v, v.as_bool().map(Const::Bool)),
        Const::I64(z) => (*v == *z, *z == *v, i64::from_value(v).map(Const::I64)),
        Const::I128(z) => (*v == *z, *z == *v, v.as_int().map(Const::I128)),
        Const::U64(z) => (*v == *z, *z == *v, u64::from_value(v).map(Const::U64)),
        Const::U128(z) => (*v == *z, *z == *v, v.as_uint().map(Const::U128)),
        Const::F64(bits) => {
            let f = f64::from_bits(*bits);
            (*v == f, f == *v, v.as_float().map(|y| Const::F64(y.to_bits())))
        }
        Const::Str(s) => {
            let s: &str = s;
            let by_ref = *v == s; // PartialEq<&str>
            let by_str = *v == *s; // PartialEq<str>
            let rev_ref = s == *v;
            let rev_str = *s == *v;
            // all four impls must agree; if not, report the disagreement through the pair
            let vc = by_ref;
            let cv = if by_ref == by_str && rev_ref == rev_str { rev_ref } else { !by_ref };
            (vc, cv, v.as_str().map(|y| Const::Str(y.to_owned())))
        }
    }
}

fn conv_case(sink: &mut Sink, idx: u64, kind: &str, v: &TracedValue, x: &Const) {
    if !sink.wants(idx) {
        return;
    }
    let (vc, cv, acc) = conv_impl(v, x);
    let input = format!("{} {}", ctv(v), cconst(x));
    let judge = format!("judge_conv {input} {} {} {}", cbool(vc), cbool(cv), copt(acc.as_ref(), cconst));
    let family = matches!(
        (v, x),
        (TracedValue::Bool(_), Const::Bool(_))
            | (TracedValue::Int(_), Const::I64(_) | Const::I128(_))
            | (TracedValue::UInt(_), Const::U64(_) | Const::U128(_))
            | (TracedValue::Float(_), Const::F64(_))
            | (TracedValue::String(_), Const::Str(_))
    );
    sink.bump(if vc { "conv:equal" } else { "conv:unequal" });
    sink.bump(if acc.is_some() { "conv:accessor_some" } else { "conv:accessor_none" });
    sink.case(idx, kind, &judge, &input, family, || serde_json::json!({ "value": ctv(v), "const": cconst(x) }));
}

fn boundary_values() -> Vec<TracedValue> {
    let mut out = vec![TracedValue::Bool(true), TracedValue::Bool(false)];
    out.extend(INT_BOUNDS.iter().map(|i| TracedValue::Int(*i)));
    out.extend(UINT_BOUNDS.iter().map(|u| TracedValue::UInt(*u)));
    out.extend(FLOAT_BITS.iter().map(|b| TracedValue::Float(f64::from_bits(*b))));
    out.extend(STRS.iter().map(|s| TracedValue::String((*s).to_owned())));
    out.push(mk_object("x"));
    out.push(mk_object("Obj { x: 1 }"));
    out.push(mk_object(""));
    out.push(mk_error(&["x".to_owned(), "y".to_owned()]));
    out
}
fn boundary_consts() -> Vec<Const> {
    let mut out = vec![Const::Bool(true), Const::Bool(false)];
    for i in INT_BOUNDS {
        out.push(Const::I128(*i));
        if let Ok(x) = i64::try_from(*i) {
            out.push(Const::I64(x));
        }
    }
    for u in UINT_BOUNDS {
        out.push(Const::U128(*u));
        if let Ok(x) = u64::try_from(*u) {
            out.push(Const::U64(x));
        }
    }
    out.extend(FLOAT_BITS.iter().map(|b| Const::F64(*b)));
    out.extend(STRS.iter().map(|s| Const::Str((*s).to_owned())));
    out
}
fn gen_const(r: &mut Rng) -> Const {
    match r.below(7) {
        0 => Const::Bool(r.chance(50)),
        1 => Const::I64(r.next() as i64 >> r.below(63)),
        2 => Const::I128(r.u128() as i128 >> r.below(127)),
        3 => Const::U64(r.next() >> r.below(64)),
        4 => Const::U128(r.u128() >> r.below(128)),
        5 => Const::F64(if r.chance(50) { *r.pick(FLOAT_BITS) } else { r.next() }),
        _ => Const::Str((*r.pick(STRS)).to_owned()),
    }
}
/// a constant built from the value itself, so that equal pairs are frequent
fn const_like(r: &mut Rng, v: &TracedValue) -> Const {
    match v {
        TracedValue::Bool(b) => Const::Bool(*b),
        TracedValue::Int(i) => match i64::try_from(*i) {
            Ok(x) if r.chance(50) => Const::I64(x),
            _ => Const::I128(*i),
        },
        TracedValue::UInt(u) => match u64::try_from(*u) {
            Ok(x) if r.chance(50) => Const::U64(x),
            _ => Const::U128(*u),
        },
        TracedValue::Float(f) => Const::F64(f.to_bits()),
        TracedValue::String(s) => Const::Str(s.clone()),
        _ => gen_const(r),
    }
}

pub fn run(o: &Opts) {
    let mut sink = Sink::new(&o.out, o.shards, "Judge.C15", o.only.clone());
    let mut idx = 0u64;

    // 1. corpus: hand-written edge cases, always first
    let corpus: Vec<Vec<Op>> = vec![
        vec![
            Op::Insert("a".into(), TracedValue::Int(1)),
            Op::Insert("b".into(), TracedValue::Bool(true)),
            Op::Insert("a".into(), TracedValue::Int(2)),
        ],
        vec![Op::Deser(vec![
            ("k".into(), TracedValue::Int(1)),
            ("j".into(), TracedValue::UInt(7)),
            ("k".into(), TracedValue::String("again".into())),
        ])],
        vec![
            Op::FromIter(vec![("x".into(), TracedValue::Int(1)), ("x".into(), TracedValue::Int(2)), ("y".into(), TracedValue::Int(3))]),
            Op::Extend(vec![("y".into(), TracedValue::Int(4)), ("z".into(), TracedValue::Int(5)), ("x".into(), TracedValue::Int(6))]),
        ],
    ];
    for ops in &corpus {
        ops_case(&mut sink, idx, "corpus", ops, &["a", "b", "k", "j", "x", "y", "z"]);
        idx += 1;
    }

    // 2. conversions: every boundary value against every boundary constant (exhaustive grid)
    let vals = boundary_values();
    let consts = boundary_consts();
    for v in &vals {
        for x in &consts {
            conv_case(&mut sink, idx, "conv-grid", v, x);
            idx += 1;
        }
    }

    // 2b. Debug-object accessors on every boundary value
    for v in &vals {
        for rendered in ["x", "Obj { x: 1 }", ""] {
            if sink.wants(idx) {
                let impl_str = v.as_debug_str().map(str::to_owned);
                let impl_is = v.is_debug(&format_args!("{rendered}"));
                let judge = format!("judge_debug {} {} {} {}", ctv(v), cstr(rendered), copt(impl_str.as_deref(), cstr), cbool(impl_is));
                let input = format!("{} {}", ctv(v), cstr(rendered));
                sink.case(idx, "debug-accessors", &judge, &input, matches!(v, TracedValue::Object(_)), || serde_json::json!({ "value": ctv(v), "rendered": rendered }));
            }
            idx += 1;
        }
    }

    // 3. small-scope exhaustive: all insert sequences up to length L over 3 names x 2 values
    let max_len = if o.thorough { 5 } else { 3 };
    let alphabet: Vec<Op> = ["a", "b", "c"]
        .iter()
        .flat_map(|k| [Op::Insert((*k).into(), TracedValue::Int(1)), Op::Insert((*k).into(), TracedValue::Bool(false))])
        .collect();
    let mut seqs: Vec<Vec<usize>> = vec![vec![]];
    for _ in 0..max_len {
        let mut next = vec![];
        for s in &seqs {
            if s.len() + 1 <= max_len {
                for a in 0..alphabet.len() {
                    let mut t = s.clone();
                    t.push(a);
                    next.push(t);
                }
            }
        }
        // only maximal-length sequences need running: observations are taken after every op
        seqs = next;
    }
    for s in &seqs {
        let ops: Vec<Op> = s.iter().map(|a| alphabet[*a].clone()).collect();
        ops_case(&mut sink, idx, "ops-exhaustive", &ops, &["a", "b", "c", "d"]);
        idx += 1;
    }

    // 4. random op sequences and random conversions
    let n_ops = if o.thorough { 120_000 } else { 2_000 } * o.scale;
    for _ in 0..n_ops {
        if sink.wants(idx) {
            let mut r = Rng::for_case(o.seed, "C15-ops", idx);
            let (ops, names) = gen_ops(&mut r);
            let mut probe = names.clone();
            probe.push("zz-absent");
            ops_case(&mut sink, idx, "ops-random", &ops, &probe);
        }
        idx += 1;
    }
    let n_conv = if o.thorough { 60_000 } else { 1_000 } * o.scale;
    for _ in 0..n_conv {
        if sink.wants(idx) {
            let mut r = Rng::for_case(o.seed, "C15-conv", idx);
            let v = gen_value(&mut r, false);
            let x = if r.chance(60) { const_like(&mut r, &v) } else { gen_const(&mut r) };
            conv_case(&mut sink, idx, "conv-random", &v, &x);
        }
        idx += 1;
    }

    sink.finish(
        "ops cases: corpus, all insert sequences up to a length bound over 3 names x 2 values (each run observes every prefix), \
         random sequences of insert/extend/collect/deserialize over alphabets of 1..6 names; non-trivial = some name inserted at least twice. \
         conv cases: full grid of boundary values x boundary constants, then random pairs; non-trivial = value kind matches the constant's type family. \
         distinct = distinct canonical input text",
        serde_json::json!({ "exhaustive_insert_len": max_len }),
    );
}
