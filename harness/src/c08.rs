//! C08: the receiver never misuses host span ids and never leaks host spans.
//!
//! Streams: the shared corpus and hand-written histories; well-formed "complete" executions
//! (every span eventually fully dropped) cut by persist-keep steps only; mixed streams with bogus
//! references cut by persist-keep / persist-lose / drop steps.
use std::collections::BTreeMap;

use tracing_tunnel::{CallSiteKind, TracingEvent};

use crate::{out::Sink, recv::*, rng::Rng, Opts};

/// hand-written histories specific to C08
fn own_corpus(nonce: &str) -> Vec<Vec<Step>> {
    let cs = |name: &str, n: usize| call_site(CallSiteKind::Span, nonce, name, n, false);
    let r = Step::Recv;
    let new_span = |id: u64, parent_id: Option<u64>, n: usize| TracingEvent::NewSpan { id, parent_id, metadata_id: 0, values: vals(0..n) };
    vec![
        // clone / drop, nested enters, persist keeping the map, persist losing it, drop
        // (Props/C08.v, ex_steps)
        vec![
            r(TracingEvent::NewCallSite { id: 0, data: cs("a", 1) }),
            r(new_span(1, None, 0)),
            r(new_span(2, Some(1), 1)),
            r(TracingEvent::SpanCloned { id: 2 }),
            r(TracingEvent::SpanEntered { id: 1 }),
            r(TracingEvent::SpanEntered { id: 2 }),
            Step::Persist { keep: true },
            r(TracingEvent::SpanDropped { id: 2 }),
            r(TracingEvent::SpanEntered { id: 2 }),
            r(TracingEvent::SpanExited { id: 2 }),
            r(TracingEvent::SpanDropped { id: 2 }),
            Step::Persist { keep: false },
            r(TracingEvent::SpanEntered { id: 1 }),
            r(TracingEvent::SpanExited { id: 1 }),
            r(new_span(5, Some(1), 0)),
            Step::Drop,
            r(TracingEvent::SpanDropped { id: 1 }),
        ],
        // complete execution, map kept throughout (Props/C08.v, ex_complete): parent dropped
        // before its child, re-entrant enters across a persist
        vec![
            r(TracingEvent::NewCallSite { id: 0, data: cs("b", 1) }),
            r(new_span(1, None, 0)),
            r(TracingEvent::SpanEntered { id: 1 }),
            r(new_span(2, Some(1), 0)),
            r(TracingEvent::SpanCloned { id: 2 }),
            Step::Persist { keep: true },
            r(TracingEvent::SpanDropped { id: 1 }),
            r(TracingEvent::SpanEntered { id: 2 }),
            r(TracingEvent::SpanEntered { id: 2 }),
            r(TracingEvent::SpanExited { id: 2 }),
            r(TracingEvent::SpanDropped { id: 2 }),
            Step::Persist { keep: true },
            r(TracingEvent::SpanExited { id: 2 }),
            r(TracingEvent::SpanDropped { id: 2 }),
        ],
        // last handle dropped while the span is entered, then persist and drop: no exit or close
        // may follow for the closed host span
        vec![
            r(TracingEvent::NewCallSite { id: 0, data: cs("c", 0) }),
            r(new_span(1, None, 0)),
            r(TracingEvent::SpanEntered { id: 1 }),
            r(TracingEvent::SpanEntered { id: 1 }),
            r(TracingEvent::SpanDropped { id: 1 }),
            Step::Persist { keep: true },
            r(new_span(2, None, 0)),
            r(TracingEvent::SpanEntered { id: 2 }),
            r(TracingEvent::SpanDropped { id: 2 }),
            Step::Drop,
        ],
        // drop rolls back two uncommitted spans (two closes of distinct ids), a committed one stays
        vec![
            r(TracingEvent::NewCallSite { id: 0, data: cs("d", 2) }),
            r(new_span(1, None, 2)),
            Step::Persist { keep: true },
            r(new_span(2, Some(1), 1)),
            r(new_span(3, Some(2), 0)),
            r(TracingEvent::SpanEntered { id: 1 }),
            r(TracingEvent::SpanEntered { id: 3 }),
            r(TracingEvent::FollowsFrom { id: 3, follows_from: 1 }),
            Step::Drop,
            r(TracingEvent::SpanEntered { id: 1 }),
            r(TracingEvent::SpanDropped { id: 2 }),
            r(TracingEvent::SpanDropped { id: 1 }),
        ],
        // the same guest id announced again after it died: a fresh host span; values > 32 are
        // recorded in chunks on the new host id after the map was lost
        vec![
            r(TracingEvent::NewCallSite { id: 0, data: cs("e", 40) }),
            r(new_span(1, None, 20)),
            r(TracingEvent::ValuesRecorded { id: 1, values: vals(20..40) }),
            r(TracingEvent::SpanDropped { id: 1 }),
            r(new_span(1, None, 3)),
            r(TracingEvent::ValuesRecorded { id: 1, values: vals(3..35) }),
            Step::Persist { keep: false },
            r(TracingEvent::ValuesRecorded { id: 1, values: vals(35..37) }),
            r(TracingEvent::SpanEntered { id: 1 }),
            r(TracingEvent::ValuesRecorded { id: 1, values: vals(37..38) }),
            r(TracingEvent::SpanExited { id: 1 }),
            r(TracingEvent::SpanDropped { id: 1 }),
        ],
        // outside the hypotheses: an alive span id is announced again (the judge answers OutOfScope)
        vec![
            r(TracingEvent::NewCallSite { id: 0, data: cs("f", 0) }),
            r(new_span(1, None, 0)),
            r(TracingEvent::SpanCloned { id: 1 }),
            r(new_span(1, None, 0)),
            r(TracingEvent::SpanDropped { id: 1 }),
        ],
    ]
}

/// A well-formed complete execution: spans with clones, nested and re-entrant enters, explicit
/// parents (which may be dropped before their children); in the end everything is exited and every
/// handle is dropped.
fn gen_complete(r: &mut Rng, nonce: &str) -> Vec<TracingEvent> {
    let mut evs = vec![];
    let nsites = r.range(1, 3);
    let mut sites = vec![];
    for i in 0..nsites {
        let nf = *r.pick(&[0usize, 1, 2, 3, 5, 8, 40]);
        let d = call_site(CallSiteKind::Span, nonce, &format!("s{i}"), nf, false);
        evs.push(TracingEvent::NewCallSite { id: i as u64, data: d });
        sites.push((i as u64, nf));
    }
    let ev_site = 50u64;
    evs.push(TracingEvent::NewCallSite { id: ev_site, data: call_site(CallSiteKind::Event, nonce, "e", 2, false) });

    let mut handles: BTreeMap<u64, u64> = BTreeMap::new();
    let mut stack: Vec<u64> = vec![];
    let mut next = 1u64;
    let len = r.range(4, 40);
    let pick_alive = |r: &mut Rng, handles: &BTreeMap<u64, u64>| -> Option<u64> {
        if handles.is_empty() {
            None
        } else {
            let keys: Vec<u64> = handles.keys().copied().collect();
            Some(keys[r.below(keys.len() as u64) as usize])
        }
    };
    for _ in 0..len {
        match r.below(20) {
            0..=4 => {
                let (m, nf) = *r.pick(&sites);
                let parent_id = if r.chance(40) { pick_alive(r, &handles) } else { None };
                let id = next;
                next += 1;
                evs.push(TracingEvent::NewSpan { id, parent_id, metadata_id: m, values: gen_values(r, nf, nf.min(32).max(2), false) });
                handles.insert(id, 1);
            }
            5..=8 => {
                // nested or re-entrant enter
                let id = if !stack.is_empty() && r.chance(25) { Some(*r.pick(&stack)) } else { pick_alive(r, &handles) };
                if let Some(id) = id {
                    evs.push(TracingEvent::SpanEntered { id });
                    stack.push(id);
                }
            }
            9..=11 => {
                if !stack.is_empty() {
                    let pos = if r.chance(80) { stack.len() - 1 } else { r.below(stack.len() as u64) as usize };
                    let id = stack.remove(pos);
                    evs.push(TracingEvent::SpanExited { id });
                }
            }
            12 | 13 => {
                if let Some(id) = pick_alive(r, &handles) {
                    evs.push(TracingEvent::SpanCloned { id });
                    *handles.get_mut(&id).unwrap() += 1;
                }
            }
            14..=16 => {
                if let Some(id) = pick_alive(r, &handles) {
                    // the last handle is not dropped while the span is entered
                    if stack.contains(&id) && handles[&id] == 1 {
                        continue;
                    }
                    evs.push(TracingEvent::SpanDropped { id });
                    let h = handles.get_mut(&id).unwrap();
                    *h -= 1;
                    if *h == 0 {
                        handles.remove(&id);
                    }
                }
            }
            17 => {
                if let Some(id) = pick_alive(r, &handles) {
                    evs.push(TracingEvent::ValuesRecorded { id, values: gen_values(r, 8, 6, false) });
                }
            }
            18 => {
                let parent = if r.chance(50) { pick_alive(r, &handles) } else { None };
                evs.push(TracingEvent::NewEvent { metadata_id: ev_site, parent, values: gen_values(r, 2, 2, false) });
            }
            _ => {
                if let (Some(a), Some(b)) = (pick_alive(r, &handles), pick_alive(r, &handles)) {
                    evs.push(TracingEvent::FollowsFrom { id: a, follows_from: b });
                }
            }
        }
    }
    // wind down: exit everything, then drop every handle
    while let Some(id) = stack.pop() {
        evs.push(TracingEvent::SpanExited { id });
    }
    let mut rest: Vec<u64> = handles.iter().flat_map(|(id, n)| std::iter::repeat(*id).take(*n as usize)).collect();
    match r.below(3) {
        0 => {}                 // ascending ids: parents before children
        1 => rest.reverse(),    // children first
        _ => {
            for i in (1..rest.len()).rev() {
                let j = r.below(i as u64 + 1) as usize;
                rest.swap(i, j);
            }
        }
    }
    for id in rest {
        evs.push(TracingEvent::SpanDropped { id });
    }
    evs
}

pub fn run(o: &Opts) {
    let mut sink = Sink::new(&o.out, o.shards, "Judge.C08", o.only.clone());
    let mut idx = 0u64;
    let ncorpus = corpus("x").len();
    for k in 0..ncorpus {
        let nonce = format!("c08_{}_c{k}", o.seed);
        let steps = corpus(&nonce).swap_remove(k);
        hist_case(&mut sink, "judge_c08", idx, "corpus", &steps, &nonce);
        idx += 1;
    }
    let nown = own_corpus("x").len();
    for k in 0..nown {
        let nonce = format!("c08_{}_o{k}", o.seed);
        let steps = own_corpus(&nonce).swap_remove(k);
        hist_case(&mut sink, "judge_c08", idx, "corpus", &steps, &nonce);
        idx += 1;
    }
    // complete executions, local map kept throughout
    let n = if o.thorough { 40_000 } else { 600 } * o.scale;
    for _ in 0..n {
        if sink.wants(idx) {
            let mut r = Rng::for_case(o.seed, "C08-complete", idx);
            let nonce = format!("c08_{}_{idx}", o.seed);
            let evs = gen_complete(&mut r, &nonce);
            let cut = *r.pick(&[0u64, 10, 25, 50]);
            let steps = with_cuts(&mut r, &evs, cut, 0, 0);
            sink.bump(&format!("complete:cut_percent_{cut}"));
            hist_case(&mut sink, "judge_c08", idx, "complete_keep", &steps, &nonce);
        }
        idx += 1;
    }
    // mixed streams: bogus references, keep / lose / drop cuts
    let n = if o.thorough { 60_000 } else { 800 } * o.scale;
    for _ in 0..n {
        if sink.wants(idx) {
            let mut r = Rng::for_case(o.seed, "C08", idx);
            let nonce = format!("c08_{}_{idx}", o.seed);
            let bad = *r.pick(&[0u64, 5, 15, 40]);
            let cfg = StreamCfg { len: r.range(4, 45), bad, max_fields: 64, explicit_parents: true, respect_entered: bad == 0 };
            let evs = gen_stream(&mut r, &cfg, &nonce);
            let cut = *r.pick(&[0u64, 10, 25]);
            let steps = with_cuts(&mut r, &evs, cut, 40, 25);
            hist_case(&mut sink, "judge_c08", idx, "mixed", &steps, &nonce);
        }
        idx += 1;
    }
    sink.finish(
        "histories = hand-written corpus; complete executions (clones, nested and re-entrant enters, explicit parents dropped before or after children, every handle dropped in the end) cut by persist-keep steps with probability 0/10/25/50 % per event; mixed generated streams (valid and with 5/15/40 % bogus references, value sets 0..=40, call sites of 0..=64 fields) cut by persist(keep/lose local map) and drop steps; non-trivial = accepted and rejected events both occur, or the history contains a persist/drop step; distinct = distinct canonical step list",
        serde_json::json!({}),
    );
}
