//! C05: what the capture layer stores is exactly what the traced program did.
//!
//! Three kinds of cases, all driven by guest programs executed with the real `tracing` API:
//! * `registry`: `Registry::default().with(RecordingLayer)` — every layer callback with the answers of
//!   `ctx.span`, `ctx.span_scope` / `ctx.event_scope` and `ctx.lookup_current` inside it, against the
//!   Registry model's callback trace (`judge_registry`);
//! * `capture`: `Registry::default().with(CaptureLayer (+ with_filter))`, the storage dumped through
//!   the public API, against the layer model and against the reference specification
//!   (`judge_capture`).
//!
//! Registry ids are slab keys that are reused after a span has closed; the harness hands the model
//! the id issued for every span (`ids`) and names spans by creation index everywhere else.
//!
//! The items of this file that are `pub` are also used by `c16.rs` (which includes this file as a
//! module of its own, so that neither cargo feature implies the other).
use std::{
    collections::HashMap,
    panic::{catch_unwind, AssertUnwindSafe},
    sync::{Arc, Mutex},
};

use tracing_capture::{CaptureLayer, CapturedEvent, CapturedSpan, SharedStorage, Storage};
use tracing_core::{
    span::{Attributes, Id, Record},
    Event, Level, Metadata, Subscriber,
};
use tracing_subscriber::{
    filter::LevelFilter,
    layer::{Context, Filter, SubscriberExt},
    registry::LookupSpan,
    Layer, Registry,
};
use tracing_tunnel::{CallSiteData, CallSiteKind, TracingLevel};

use crate::{coq::*, guest::*, out::Sink, rng::Rng, Opts};

// ---- filters ------------------------------------------------------------------------------------

/// The filter AST mirrored by `fexpr` / `feval` in `Capture/Layer.v`.
#[derive(Clone, Debug)]
pub enum FExpr {
    True,
    /// `metadata.level() <= max` (what `LevelFilter` computes)
    Level(TracingLevel),
    TargetPrefix(String),
    Name(String),
    Kind(CallSiteKind),
    HasField(String),
    And(Box<FExpr>, Box<FExpr>),
    Or(Box<FExpr>, Box<FExpr>),
    Not(Box<FExpr>),
}

fn level_rank(l: &Level) -> u8 {
    if *l == Level::ERROR {
        0
    } else if *l == Level::WARN {
        1
    } else if *l == Level::INFO {
        2
    } else if *l == Level::DEBUG {
        3
    } else {
        4
    }
}
fn tlevel_rank(l: TracingLevel) -> u8 {
    match l {
        TracingLevel::Error => 0,
        TracingLevel::Warn => 1,
        TracingLevel::Info => 2,
        TracingLevel::Debug => 3,
        TracingLevel::Trace => 4,
    }
}

impl FExpr {
    pub fn eval(&self, m: &Metadata<'_>) -> bool {
        match self {
            FExpr::True => true,
            FExpr::Level(max) => level_rank(m.level()) <= tlevel_rank(*max),
            FExpr::TargetPrefix(p) => m.target().starts_with(p.as_str()),
            FExpr::Name(n) => m.name() == n,
            FExpr::Kind(CallSiteKind::Span) => m.is_span(),
            FExpr::Kind(CallSiteKind::Event) => m.is_event(),
            FExpr::HasField(f) => m.fields().field(f.as_str()).is_some(),
            FExpr::And(a, b) => a.eval(m) && b.eval(m),
            FExpr::Or(a, b) => a.eval(m) || b.eval(m),
            FExpr::Not(a) => !a.eval(m),
        }
    }
    pub fn coq(&self) -> String {
        match self {
            FExpr::True => "FTrue".into(),
            FExpr::Level(l) => format!("(FLevel {})", clevel(*l)),
            FExpr::TargetPrefix(p) => format!("(FTargetPrefix {})", cstr(p)),
            FExpr::Name(n) => format!("(FName {})", cstr(n)),
            FExpr::Kind(CallSiteKind::Span) => "(FKind KSpan)".into(),
            FExpr::Kind(CallSiteKind::Event) => "(FKind KEvent)".into(),
            FExpr::HasField(f) => format!("(FHasField {})", cstr(f)),
            FExpr::And(a, b) => format!("(FAnd {} {})", a.coq(), b.coq()),
            FExpr::Or(a, b) => format!("(FOr {} {})", a.coq(), b.coq()),
            FExpr::Not(a) => format!("(FNot {})", a.coq()),
        }
    }
    fn kind_name(&self) -> &'static str {
        match self {
            FExpr::True => "true",
            FExpr::Level(_) => "level",
            FExpr::TargetPrefix(_) => "target-prefix",
            FExpr::Name(_) => "name",
            FExpr::Kind(_) => "kind",
            FExpr::HasField(_) => "has-field",
            FExpr::And(..) => "and",
            FExpr::Or(..) => "or",
            FExpr::Not(_) => "not",
        }
    }
}

/// `impl Filter<S>` interpreting the AST; a pure function of the metadata.
pub struct AstFilter(pub FExpr);
impl<S> Filter<S> for AstFilter {
    fn enabled(&self, meta: &Metadata<'_>, _: &Context<'_, S>) -> bool {
        self.0.eval(meta)
    }
}

/// How the layer under test is configured.
#[derive(Clone, Debug)]
pub enum FilterSpec {
    /// `CaptureLayer::new(..)` without `with_filter`
    Unfiltered,
    /// `with_filter(LevelFilter::..)`, the real `LevelFilter`; `None` = `LevelFilter::OFF`
    Level(Option<TracingLevel>),
    /// `with_filter(AstFilter(..))`
    Ast(FExpr),
}
impl FilterSpec {
    /// the predicate on metadata this configuration denotes
    pub fn fexpr(&self) -> FExpr {
        match self {
            FilterSpec::Unfiltered => FExpr::True,
            FilterSpec::Level(Some(l)) => FExpr::Level(*l),
            FilterSpec::Level(None) => FExpr::Not(Box::new(FExpr::True)),
            FilterSpec::Ast(e) => e.clone(),
        }
    }
    pub fn attach<S>(&self, layer: CaptureLayer<S>) -> CaptureLayer<S>
    where
        S: Subscriber + for<'a> LookupSpan<'a>,
    {
        match self {
            FilterSpec::Unfiltered => layer,
            FilterSpec::Level(l) => layer.with_filter(match l {
                None => LevelFilter::OFF,
                Some(TracingLevel::Error) => LevelFilter::ERROR,
                Some(TracingLevel::Warn) => LevelFilter::WARN,
                Some(TracingLevel::Info) => LevelFilter::INFO,
                Some(TracingLevel::Debug) => LevelFilter::DEBUG,
                Some(TracingLevel::Trace) => LevelFilter::TRACE,
            }),
            FilterSpec::Ast(e) => layer.with_filter(AstFilter(e.clone())),
        }
    }
    pub fn kind_name(&self) -> String {
        match self {
            FilterSpec::Unfiltered => "unfiltered".into(),
            FilterSpec::Level(_) => "LevelFilter".into(),
            FilterSpec::Ast(e) => format!("ast-{}", e.kind_name()),
        }
    }
}

const LEVELS: [TracingLevel; 5] =
    [TracingLevel::Error, TracingLevel::Warn, TracingLevel::Info, TracingLevel::Debug, TracingLevel::Trace];

fn gen_atom(r: &mut Rng, prog: &Prog) -> FExpr {
    let site = r.pick(&prog.sites).clone();
    match r.below(8) {
        0 | 1 => FExpr::Level(*r.pick(&LEVELS)),
        2 | 3 => {
            // a prefix of some call site's target, cut at a character boundary; sometimes a miss
            let t: Vec<char> = site.target.chars().collect();
            let cut = r.range(0, t.len());
            let mut p: String = t[..cut].iter().collect();
            if r.chance(15) {
                p.push('#');
            }
            FExpr::TargetPrefix(p)
        }
        4 => FExpr::Name(if r.chance(85) { site.name.to_string() } else { "nobody".into() }),
        5 => FExpr::Kind(if r.chance(50) { CallSiteKind::Span } else { CallSiteKind::Event }),
        _ => {
            let f = if !site.fields.is_empty() && r.chance(80) {
                r.pick(&site.fields).to_string()
            } else {
                (*r.pick(&["message", "a", "missing"])).to_owned()
            };
            FExpr::HasField(f)
        }
    }
}
fn gen_fexpr(r: &mut Rng, prog: &Prog, depth: u32) -> FExpr {
    if depth == 0 || r.chance(45) {
        return gen_atom(r, prog);
    }
    match r.below(5) {
        0 | 1 => FExpr::And(Box::new(gen_fexpr(r, prog, depth - 1)), Box::new(gen_fexpr(r, prog, depth - 1))),
        2 | 3 => FExpr::Or(Box::new(gen_fexpr(r, prog, depth - 1)), Box::new(gen_fexpr(r, prog, depth - 1))),
        _ => FExpr::Not(Box::new(gen_fexpr(r, prog, depth - 1))),
    }
}
pub fn gen_filter(r: &mut Rng, prog: &Prog) -> FilterSpec {
    match r.below(10) {
        0 => FilterSpec::Unfiltered,
        1..=3 => FilterSpec::Level(if r.chance(8) { None } else { Some(*r.pick(&LEVELS)) }),
        _ => FilterSpec::Ast(gen_fexpr(r, prog, 2)),
    }
}

// ---- running a program ------------------------------------------------------------------------

/// Executes the program under the current default dispatcher; returns the interpreter's state (with
/// the remaining handles alive) and the raw id the subscriber issued for every span, by creation
/// index.
pub fn exec_collect(prog: &Prog) -> (ExecResult, Vec<u64>) {
    exec_collect_with(prog, false)
}

/// `stale_roots`: explicit-root events name a span the Registry has already closed as their explicit
/// parent, when there is one (see `ExecResult::stale_roots`).
pub fn exec_collect_with(prog: &Prog, stale_roots: bool) -> (ExecResult, Vec<u64>) {
    let sites = make_sites(&prog.sites);
    let mut r = ExecResult::default();
    r.stale_roots = stale_roots;
    let mut raws = vec![];
    for (tid, op) in &prog.ops {
        assert_eq!(*tid, 0, "single-threaded programs only");
        exec_op(&mut r, &sites, op);
        r.ops_run += 1;
        if let Op::NewSpan(..) = op {
            let id = r.handles.last().and_then(|hs| hs.first()).and_then(tracing::Span::id);
            raws.push(id.map_or(0, |i| i.into_u64()));
        }
    }
    (r, raws)
}

pub fn cids(raws: &[u64]) -> String {
    clist(raws.iter(), |r| cn(*r))
}

fn cnat(n: usize) -> String {
    format!("{n}%nat")
}

// ---- recording layer (validates the Registry model) --------------------------------------------

const UNKNOWN: usize = 999_999;

pub struct Obs {
    tag: u8,
    id: Option<usize>,
    present: bool,
    scope: Vec<usize>,
    target: Option<usize>,
    current: Option<usize>,
}
impl Obs {
    pub fn coq(&self) -> String {
        format!(
            "(mk_obs {} {} {} {} {} {})",
            self.tag,
            copt(self.id, cnat),
            cbool(self.present),
            clist(self.scope.iter(), |k| cnat(*k)),
            copt(self.target, cnat),
            copt(self.current, cnat)
        )
    }
}

#[derive(Default)]
pub struct RecState {
    /// raw Registry id -> creation index of the span it was issued for most recently
    canon: HashMap<u64, usize>,
    next: usize,
    pub log: Vec<Obs>,
}
impl RecState {
    fn name(&self, id: &Id) -> usize {
        self.canon.get(&id.into_u64()).copied().unwrap_or(UNKNOWN)
    }
}

pub struct RecordingLayer(pub Arc<Mutex<RecState>>);

impl RecordingLayer {
    fn span_obs<S>(&self, tag: u8, id: &Id, target: Option<&Id>, ctx: &Context<'_, S>)
    where
        S: Subscriber + for<'a> LookupSpan<'a>,
    {
        let present = ctx.span(id).is_some();
        let scope: Vec<Id> = ctx.span_scope(id).map(|s| s.map(|sp| sp.id()).collect()).unwrap_or_default();
        let current = ctx.lookup_current().map(|s| s.id());
        let target = target.and_then(|t| ctx.span(t).map(|s| s.id()));
        let mut st = self.0.lock().unwrap();
        let obs = Obs {
            tag,
            id: Some(st.name(id)),
            present,
            scope: scope.iter().map(|i| st.name(i)).collect(),
            target: target.map(|t| st.name(&t)),
            current: current.map(|c| st.name(&c)),
        };
        st.log.push(obs);
    }
}

impl<S> Layer<S> for RecordingLayer
where
    S: Subscriber + for<'a> LookupSpan<'a>,
{
    fn on_new_span(&self, _: &Attributes<'_>, id: &Id, ctx: Context<'_, S>) {
        {
            let mut st = self.0.lock().unwrap();
            let k = st.next;
            st.canon.insert(id.into_u64(), k);
            st.next += 1;
        }
        self.span_obs(0, id, None, &ctx);
    }
    fn on_record(&self, id: &Id, _: &Record<'_>, ctx: Context<'_, S>) {
        self.span_obs(1, id, None, &ctx);
    }
    fn on_enter(&self, id: &Id, ctx: Context<'_, S>) {
        self.span_obs(2, id, None, &ctx);
    }
    fn on_exit(&self, id: &Id, ctx: Context<'_, S>) {
        self.span_obs(3, id, None, &ctx);
    }
    fn on_close(&self, id: Id, ctx: Context<'_, S>) {
        self.span_obs(4, &id, None, &ctx);
    }
    fn on_follows_from(&self, id: &Id, follows: &Id, ctx: Context<'_, S>) {
        self.span_obs(5, id, Some(follows), &ctx);
    }
    fn on_event(&self, event: &Event<'_>, ctx: Context<'_, S>) {
        let scope: Vec<Id> = ctx.event_scope(event).map(|s| s.map(|sp| sp.id()).collect()).unwrap_or_default();
        let current = ctx.lookup_current().map(|s| s.id());
        let mut st = self.0.lock().unwrap();
        let obs = Obs {
            tag: 6,
            id: None,
            present: true,
            scope: scope.iter().map(|i| st.name(i)).collect(),
            target: None,
            current: current.map(|c| st.name(&c)),
        };
        st.log.push(obs);
    }
}

/// Runs the program under `Registry + RecordingLayer`; `None` = the run panicked.
fn run_registry(prog: &Prog) -> (Option<String>, Vec<u64>, usize) {
    let state = Arc::new(Mutex::new(RecState::default()));
    let subscriber = Registry::default().with(RecordingLayer(Arc::clone(&state)));
    let run = catch_unwind(AssertUnwindSafe(|| {
        tracing::subscriber::with_default(subscriber, || {
            let (r, raws) = exec_collect(prog);
            // the trace is judged as of the end of the program: cut the log here, then drop the
            // remaining handles inside the scope
            let len = state.lock().unwrap().log.len();
            drop(r);
            (raws, len)
        })
    }));
    match run {
        Ok((raws, len)) => {
            let st = state.lock().unwrap();
            let text = clist(st.log[..len].iter(), Obs::coq);
            (Some(text), raws, len)
        }
        Err(_) => (None, vec![], 0),
    }
}

pub fn registry_case(sink: &mut Sink, idx: u64, kind: &str, prog: &Prog, stale_ok: bool) {
    if !sink.wants(idx) {
        return;
    }
    let key = cprog(prog);
    intern_begin();
    let (trace, raws, len) = run_registry(prog);
    let term = format!(
        "judge_registry {} {} {} {}",
        cbool(stale_ok),
        cprog(prog),
        cids(&raws),
        match &trace {
            Some(t) => format!("(Some {t})"),
            None => "None".into(),
        }
    );
    let judge = intern_wrap(&term);
    bump_prog(sink, prog);
    sink.bump_by("registry:callbacks", len as u64);
    if trace.is_none() {
        sink.bump("registry:panicked");
    }
    if raws.iter().collect::<std::collections::HashSet<_>>().len() < raws.len() {
        sink.bump("registry:raw-id-reused");
    }
    let nontrivial = len >= 2;
    sink.case(idx, kind, &judge, &key, nontrivial, || {
        serde_json::json!({ "program": show_prog(prog), "raw_ids": raws, "trace": trace })
    });
}

pub fn show_prog(prog: &Prog) -> serde_json::Value {
    serde_json::json!({
        "sites": prog.sites.iter().map(|s| format!("{:?} {} target={} level={:?} fields={:?}", s.kind, s.name, s.target, s.level, s.fields)).collect::<Vec<_>>(),
        "ops": prog.ops.iter().map(|(_, op)| format!("{op:?}")).collect::<Vec<_>>(),
    })
}

pub fn bump_prog(sink: &mut Sink, prog: &Prog) {
    for (_, op) in &prog.ops {
        sink.bump(&format!("op:{}", op.name()));
        match op {
            Op::NewSpan(_, p, _) | Op::Event(_, p, _) => sink.bump(match p {
                ParentKind::Ctx => "parent:contextual",
                ParentKind::Root => "parent:explicit-root",
                ParentKind::Explicit(_) => "parent:explicit",
            }),
            Op::Follows(_, FollowTarget::Stale(_)) => sink.bump("follows:stale"),
            Op::Follows(_, FollowTarget::Live(_)) => sink.bump("follows:live"),
            _ => {}
        }
    }
    sink.bump(&format!("prog-len:{:02}", (prog.ops.len() / 5) * 5));
}

// ---- storage dump through the public API -------------------------------------------------------

fn tlevel(l: &Level) -> TracingLevel {
    LEVELS[level_rank(l) as usize]
}
/// content of a `Metadata` as the model's `cs_data`
fn meta_data(m: &Metadata<'_>) -> CallSiteData {
    CallSiteData {
        kind: if m.is_span() { CallSiteKind::Span } else { CallSiteKind::Event },
        name: m.name().to_owned().into(),
        target: m.target().to_owned().into(),
        level: tlevel(m.level()),
        module_path: m.module_path().map(|s| s.to_owned().into()),
        file: m.file().map(|s| s.to_owned().into()),
        line: m.line(),
        fields: m.fields().iter().map(|f| f.name().to_owned().into()).collect(),
    }
}

const BAD: u64 = 999_999;

/// `mk_storage ..` of the model's `cstorage` type; spans and events are named by their position in
/// `all_spans()` / `all_events()` (items are compared with `==`, which is identity).
/// The values of an item as listed by `values()`, cross-checked with the two by-name accessors: a value
/// for which `value(name)` or `item[name]` (the `Index<&str>` impl, which panics on an unknown name)
/// disagrees with the listing is replaced by a marker string, which the judge cannot agree with.
fn cvalues_checked<'a>(
    listed: impl Iterator<Item = (&'a str, &'a tracing_tunnel::TracedValue)>,
    by_name: impl Fn(&str) -> Option<&'a tracing_tunnel::TracedValue>,
    by_index: impl Fn(&str) -> Option<tracing_tunnel::TracedValue>,
    unknown_panics: bool,
) -> String {
    let listed: Vec<(&str, &tracing_tunnel::TracedValue)> = listed.collect();
    let marker = |what: &str| tracing_tunnel::TracedValue::String(format!("ACCESSOR DISAGREES: {what}"));
    let mut out = vec![];
    for (k, v) in &listed {
        // the latest entry of that name in the listing (names are unique in a well-formed collection)
        let expect = listed.iter().rev().find(|(k2, _)| k2 == k).map(|(_, v2)| ctv(v2));
        let got_name = by_name(k).map(ctv);
        let got_index = by_index(k).as_ref().map(ctv);
        if got_name != expect {
            out.push(ckv(k, &marker("value(name)")));
        } else if got_index != expect {
            out.push(ckv(k, &marker("item[name]")));
        } else {
            out.push(ckv(k, v));
        }
    }
    if by_name("\u{1}no such field").is_some() || !unknown_panics {
        out.push(ckv("\u{1}no such field", &marker("unknown name")));
    }
    format!("[{}]", out.join("; "))
}

pub fn dump_storage(st: &Storage) -> String {
    let spans: Vec<CapturedSpan<'_>> = st.all_spans().collect();
    let events: Vec<CapturedEvent<'_>> = st.all_events().collect();
    let spos = |s: &CapturedSpan<'_>| spans.iter().position(|x| x == s).map_or(BAD, |p| p as u64);
    let epos = |e: &CapturedEvent<'_>| events.iter().position(|x| x == e).map_or(BAD, |p| p as u64);
    let span_terms = clist(spans.iter().enumerate(), |(i, s)| {
        let stats = s.stats();
        format!(
            "mk_span (mk_spl {} {} {} {} {}) {} {} {} {} {}",
            ccs(&meta_data(s.metadata())),
            cvalues_checked(
                s.values(),
                |n| s.value(n),
                |n| catch_unwind(AssertUnwindSafe(|| s[n].clone())).ok(),
                catch_unwind(AssertUnwindSafe(|| s["\u{1}no such field"].clone())).is_err(),
            ),
            stats.entered,
            stats.exited,
            cbool(stats.is_closed),
            i,
            copt(s.parent().map(|p| spos(&p)), cn),
            clist(s.children(), |c| cn(spos(&c))),
            clist(s.events(), |e| cn(epos(&e))),
            clist(s.follows_from(), |f| cn(spos(&f)))
        )
    });
    let event_terms = clist(events.iter().enumerate(), |(i, e)| {
        format!(
            "mk_event (mk_epl {} {}) {} {}",
            ccs(&meta_data(e.metadata())),
            cvalues_checked(
                e.values(),
                |n| e.value(n),
                |n| catch_unwind(AssertUnwindSafe(|| e[n].clone())).ok(),
                catch_unwind(AssertUnwindSafe(|| e["\u{1}no such field"].clone())).is_err(),
            ),
            i,
            copt(e.parent().map(|p| spos(&p)), cn)
        )
    });
    format!(
        "(mk_storage {} {} {} {})",
        span_terms,
        event_terms,
        clist(st.root_spans(), |s| cn(spos(&s))),
        clist(st.root_events(), |e| cn(epos(&e)))
    )
}

/// `Some(dump)` unless locking the storage panics (poisoned lock)
pub fn dump_shared(storage: &SharedStorage) -> Option<(String, usize, usize)> {
    catch_unwind(AssertUnwindSafe(|| {
        let st = storage.lock();
        (dump_storage(&st), st.all_spans().len(), st.all_events().len())
    }))
    .ok()
}

/// Runs the program under `Registry + CaptureLayer` configured by `filter`.
/// Returns the dump (None = panic or poisoned storage), the raw ids and (spans, events) captured.
pub fn run_capture(prog: &Prog, filter: &FilterSpec) -> (Option<String>, Vec<u64>, usize, usize) {
    let (dump, raws, ns, ne, _) = run_capture_with(prog, filter, false);
    (dump, raws, ns, ne)
}

/// Last component: the number of events emitted with a stale explicit parent (variant execution).
pub fn run_capture_with(prog: &Prog, filter: &FilterSpec, stale_roots: bool) -> (Option<String>, Vec<u64>, usize, usize, usize) {
    let storage = SharedStorage::default();
    let subscriber = Registry::default().with(filter.attach(CaptureLayer::new(&storage)));
    let run = catch_unwind(AssertUnwindSafe(|| {
        tracing::subscriber::with_default(subscriber, || {
            let (r, raws) = exec_collect_with(prog, stale_roots);
            // snapshot with the remaining handles alive, then drop them inside the scope
            let dump = dump_shared(&storage);
            let stale_used = r.stale_used;
            drop(r);
            (dump, raws, stale_used)
        })
    }));
    match run {
        Ok((Some((text, ns, ne)), raws, k)) => (Some(text), raws, ns, ne, k),
        Ok((None, raws, k)) => (None, raws, 0, 0, k),
        Err(_) => (None, vec![], 0, 0, 0),
    }
}

// ---- hostile renderings (shared with C16) ---------------------------------------------------------

thread_local! {
    /// operations of `exec_hostile` on this thread that were left by a panic
    pub static HOSTILE_PANICS: std::cell::Cell<usize> = const { std::cell::Cell::new(0) };
}

pub const LOUD: &str = "Loud (logs while it is rendered)";
pub const BOMB: &str = "Bomb (panics while it is rendered)";

/// Executes a program whose `Debug` values misbehave: rendering `LOUD` emits an event on call site 1,
/// rendering `BOMB` panics (the guest catches its own panic).  An operation that panicked is skipped.
pub fn exec_hostile(prog: &Prog) -> (ExecResult, Vec<u64>) {
    let sites = make_sites(&prog.sites);
    let inner = sites[1];
    DEBUG_EFFECT.with(|e| {
        *e.borrow_mut() = Some((LOUD.to_owned(), Box::new(move || {
            if inner.is_enabled() {
                with_value_set(inner, &[], |vs| tracing::Event::dispatch(inner.metadata(), vs));
            }
        })));
    });
    let mut r = ExecResult::default();
    let mut raws = vec![];
    for (_, op) in &prog.ops {
        let bomb = match op {
            Op::Record(_, vals) | Op::Event(_, _, vals) | Op::NewSpan(_, _, vals) => {
                vals.iter().any(|(_, p)| matches!(p, Some(Prim::Debug(o)) if o.debug == BOMB))
            }
            _ => false,
        };
        let loud_span = matches!(op, Op::NewSpan(_, ParentKind::Ctx, vals)
            if vals.iter().any(|(_, p)| matches!(p, Some(Prim::Debug(o)) if o.debug == LOUD)));
        if bomb {
            DEBUG_EFFECT.with(|e| *e.borrow_mut() = Some((BOMB.to_owned(), Box::new(|| std::panic::resume_unwind(Box::new("guest Debug impl panics"))))));
            if catch_unwind(AssertUnwindSafe(|| exec_op(&mut r, &sites, op))).is_err() {
                HOSTILE_PANICS.with(|p| p.set(p.get() + 1));
            }
            DEBUG_EFFECT.with(|e| *e.borrow_mut() = None);
            DEBUG_EFFECT.with(|e| {
                *e.borrow_mut() = Some((LOUD.to_owned(), Box::new(move || {
                    if inner.is_enabled() {
                        with_value_set(inner, &[], |vs| tracing::Event::dispatch(inner.metadata(), vs));
                    }
                })));
            });
            r.ops_run += 1;
            continue; // no handle, no id: the guest never got the span
        } else if loud_span {
            // created through an explicit `Dispatch` handle (`Span::new_with`): tracing-core's guard against
            // re-entering the thread's default dispatcher is not involved, the nested event is delivered
            if let Op::NewSpan(cs, _, vals) = op {
                let site = sites[*cs];
                let dispatch = tracing::dispatcher::get_default(tracing::Dispatch::clone);
                let span = with_value_set(site, vals, |vs| tracing::Span::new_with(site.metadata(), vs, &dispatch));
                r.enabled.push(span.id().is_some());
                r.span_sites.push(*cs);
                r.handles.push(vec![span]);
            }
        } else {
            exec_op(&mut r, &sites, op);
        }
        r.ops_run += 1;
        if let Op::NewSpan(..) = op {
            let id = r.handles.last().and_then(|hs| hs.first()).and_then(tracing::Span::id);
            raws.push(id.map_or(0, |i| i.into_u64()));
        }
    }
    DEBUG_EFFECT.with(|e| *e.borrow_mut() = None);
    (r, raws)
}

/// For a layer that filters DEBUG spans out (`with_filter(LevelFilter::INFO)`): a panicking value recorded
/// on a span the layer does not capture is none of the layer's business - it must not even be rendered.
/// `(hostile, quiet)`; no operation of the hostile run may panic.
pub fn hostile_filtered_scenario() -> (Prog, Prog) {
    let t = "guest::c16::hostile";
    let sites = vec![
        site(CallSiteKind::Span, "background work", t, TracingLevel::Debug, &["a", "b"]),
        site(CallSiteKind::Event, "event src/hostile.rs:1", t, TracingLevel::Info, &[]),
        site(CallSiteKind::Event, "event src/hostile.rs:3", t, TracingLevel::Info, &["v"]),
    ];
    let dbg = |text: &str| Some(Prim::Debug(Obj { display: "-".into(), debug: text.to_owned() }));
    let ops = vec![
        Op::NewSpan(0, ParentKind::Ctx, vec![]),
        Op::Enter(0),
        Op::Record(0, vec![(0, dbg(BOMB)), (1, Some(Prim::Bool(true)))]),
        Op::Event(1, ParentKind::Ctx, vec![]),
        Op::Exit(0),
        Op::Record(0, vec![(1, dbg(BOMB))]),
        Op::Drop(0),
    ];
    let prog = Prog { sites, ops: ops.into_iter().map(|o| (0usize, o)).collect() };
    (prog.clone(), prog)
}

/// `(name, the program the guest runs with misbehaving Debug values, the program whose trace it must be captured as)`
pub fn hostile_scenarios() -> Vec<(&'static str, Prog, Prog)> {
    let t = "guest::c16::hostile";
    let sites = vec![
        site(CallSiteKind::Span, "work", t, TracingLevel::Info, &["a", "b"]),
        site(CallSiteKind::Event, "event src/hostile.rs:1", t, TracingLevel::Info, &[]),
        site(CallSiteKind::Event, "event src/hostile.rs:2", t, TracingLevel::Warn, &["v"]),
    ];
    let dbg = |text: &str| Some(Prim::Debug(Obj { display: "-".into(), debug: text.to_owned() }));
    let prog = |ops: Vec<Op>| Prog { sites: sites.clone(), ops: ops.into_iter().map(|o| (0usize, o)).collect() };
    let span = || Op::NewSpan(0, ParentKind::Ctx, vec![]);
    let inner = || Op::Event(1, ParentKind::Ctx, vec![]);
    let scenarios: Vec<(&str, Prog, Prog)> = vec![
        (
            "loud-record",
            prog(vec![span(), Op::Record(0, vec![(0, dbg(LOUD))]), inner(), Op::Drop(0)]),
            prog(vec![span(), inner(), Op::Record(0, vec![(0, dbg(LOUD))]), inner(), Op::Drop(0)]),
        ),
        (
            "loud-record-inside-the-span",
            prog(vec![span(), Op::Enter(0), Op::Record(0, vec![(1, dbg(LOUD)), (0, Some(Prim::Bool(true)))]), Op::Exit(0), Op::Drop(0)]),
            prog(vec![span(), Op::Enter(0), inner(), Op::Record(0, vec![(1, dbg(LOUD)), (0, Some(Prim::Bool(true)))]), Op::Exit(0), Op::Drop(0)]),
        ),
        (
            "bomb-event",
            prog(vec![span(), Op::Enter(0), Op::Event(2, ParentKind::Ctx, vec![(0, dbg(BOMB))]), inner(), Op::Exit(0), Op::Drop(0)]),
            prog(vec![span(), Op::Enter(0), inner(), Op::Exit(0), Op::Drop(0)]),
        ),
        (
            "bomb-record",
            prog(vec![span(), Op::Record(0, vec![(0, dbg(BOMB))]), inner(), Op::Record(0, vec![(1, Some(Prim::Bool(false)))]), Op::Drop(0)]),
            prog(vec![span(), inner(), Op::Record(0, vec![(1, Some(Prim::Bool(false)))]), Op::Drop(0)]),
        ),
    ];
    let scenarios = {
        let mut all = scenarios;
        all.push((
            "loud-span-attribute",
            prog(vec![Op::NewSpan(0, ParentKind::Ctx, vec![(0, dbg(LOUD))]), inner(), Op::Drop(0)]),
            prog(vec![inner(), Op::NewSpan(0, ParentKind::Ctx, vec![(0, dbg(LOUD))]), inner(), Op::Drop(0)]),
        ));
        all.push((
            "bomb-span-attribute",
            prog(vec![inner(), Op::NewSpan(0, ParentKind::Ctx, vec![(1, dbg(BOMB))]), inner()]),
            prog(vec![inner(), inner()]),
        ));
        all
    };
    scenarios
}

// ---- hostile programs in general (model: Capture/Hostile.v) ----------------------------------------

/// What rendering one misbehaving `Debug` value does.
#[derive(Clone, Debug)]
pub enum HEff {
    /// emits these events, in order, then renders its text
    Loud(Vec<HEv>),
    /// panics
    Bomb,
}
#[derive(Clone, Debug)]
pub struct HEv {
    pub cs: usize,
    pub pk: ParentKind,
    pub vals: ValSet,
    pub effs: Vec<HEff>,
}
/// `prog`: the operations, the misbehaving values being ordinary `Debug` objects with the texts
/// `hostile#<n>`; `effs[i]`: the effects of the misbehaving values of operation `i`, in rendering order.
#[derive(Clone, Debug)]
pub struct HProg {
    pub prog: Prog,
    pub effs: Vec<Vec<HEff>>,
}

fn hostile_text(n: usize) -> String {
    format!("hostile#{n}")
}

fn cheff(e: &HEff) -> String {
    match e {
        HEff::Bomb => "EBomb".into(),
        HEff::Loud(evs) => format!(
            "(ELoud {})",
            clist(evs.iter(), |ev| format!("(HEv {} {} {} {})", ev.cs, cpk(&ev.pk), cvalset(&ev.vals), clist(ev.effs.iter(), cheff)))
        ),
    }
}
fn cpk(p: &ParentKind) -> String {
    match p {
        ParentKind::Ctx => "PKCtx".into(),
        ParentKind::Root => "PKRoot".into(),
        ParentKind::Explicit(k) => format!("(PKExplicit {k})"),
    }
}
pub fn chprog(hp: &HProg) -> String {
    format!(
        "(mk_hprog {} {})",
        clist(hp.prog.sites.iter(), ccs),
        clist(hp.prog.ops.iter().zip(&hp.effs), |((tid, op), effs)| format!("(mk_hop {tid}%nat {} {})", cop(op), clist(effs.iter(), cheff)))
    )
}
pub fn show_hprog(hp: &HProg) -> serde_json::Value {
    serde_json::json!({
        "program": show_prog(&hp.prog),
        "effects_of_the_values_hostile#n_per_operation_in_rendering_order": hp.effs.iter().map(|e| format!("{e:?}")).collect::<Vec<_>>(),
    })
}

/// Decorates a quiet single-threaded program with misbehaving values: on `record`s and events (loud or
/// bomb), on contextual `new_span`s (loud only: a panic there leaks the span in the Registry).  Inner
/// events have a contextual parent or none, quiet values, and now and then a misbehaving value of their
/// own (inert if loud - tracing-core does not deliver an event emitted inside the dispatch of another
/// event - but a bomb still goes off).  `None`: the program offers no place for one.
pub fn gen_hostile(r: &mut Rng, base: &Prog) -> Option<HProg> {
    let event_sites: Vec<usize> = (0..base.sites.len()).filter(|&i| matches!(base.sites[i].kind, CallSiteKind::Event)).collect();
    if event_sites.is_empty() {
        return None;
    }
    let mut next_text = 0usize;
    let mut span_sites: Vec<usize> = vec![];
    let mut prog = base.clone();
    let mut effs: Vec<Vec<HEff>> = vec![];
    let mut any = false;
    // places a hostile value on a free field of `site`; returns false if there is none
    fn place(r: &mut Rng, nfields: usize, vals: &mut ValSet, text: String) -> Option<usize> {
        let free: Vec<usize> = (0..nfields).filter(|i| vals.iter().all(|(j, _)| j != i)).collect();
        // (a value set has at most 32 entries)
        if free.is_empty() || vals.len() >= 32 {
            return None;
        }
        let field = free[r.below(free.len() as u64) as usize];
        let pos = r.below(vals.len() as u64 + 1) as usize;
        vals.insert(pos, (field, Some(Prim::Debug(Obj { display: "-".into(), debug: text }))));
        Some(pos)
    }
    for (_, op) in prog.ops.iter_mut() {
        let mut mine: Vec<(String, HEff)> = vec![];
        let (site, vals, bombs_ok): (Option<usize>, Option<&mut ValSet>, bool) = match op {
            Op::NewSpan(cs, pk, vals) => {
                span_sites.push(*cs);
                if matches!(pk, ParentKind::Ctx) { (Some(*cs), Some(vals), false) } else { (None, None, false) }
            }
            Op::Record(k, vals) => (Some(span_sites[*k]), Some(vals), true),
            Op::Event(cs, _, vals) => (Some(*cs), Some(vals), true),
            _ => (None, None, false),
        };
        if let (Some(site), Some(vals)) = (site, vals) {
            if r.chance(40) {
                let nfields = base.sites[site].fields.len();
                for _ in 0..r.range(1, 2) {
                    let text = hostile_text(next_text);
                    if place(r, nfields, vals, text.clone()).is_none() {
                        break;
                    }
                    next_text += 1;
                    let eff = if bombs_ok && r.chance(25) {
                        HEff::Bomb
                    } else {
                        let mut evs = vec![];
                        for _ in 0..r.range(0, 2) {
                            let cs = event_sites[r.below(event_sites.len() as u64) as usize];
                            let pk = if r.chance(75) { ParentKind::Ctx } else { ParentKind::Root };
                            let mut ivals: ValSet = vec![];
                            let mut ieffs = vec![];
                            if r.chance(35) {
                                let itext = hostile_text(next_text);
                                if place(r, base.sites[cs].fields.len(), &mut ivals, itext).is_some() {
                                    next_text += 1;
                                    ieffs.push(if bombs_ok && r.chance(35) {
                                        HEff::Bomb
                                    } else {
                                        let cs2 = event_sites[r.below(event_sites.len() as u64) as usize];
                                        HEff::Loud(vec![HEv { cs: cs2, pk: ParentKind::Ctx, vals: vec![], effs: vec![] }])
                                    });
                                }
                            }
                            evs.push(HEv { cs, pk, vals: ivals, effs: ieffs });
                        }
                        HEff::Loud(evs)
                    };
                    mine.push((text, eff));
                    any = true;
                }
            }
            // rendering order = order of the values in the value set
            let order: Vec<String> = vals
                .iter()
                .filter_map(|(_, p)| match p {
                    Some(Prim::Debug(o)) if o.debug.starts_with("hostile#") => Some(o.debug.clone()),
                    _ => None,
                })
                .collect();
            effs.push(order.iter().map(|t| mine.iter().find(|(x, _)| x == t).expect("effect of a hostile value").1.clone()).collect());
        } else {
            effs.push(vec![]);
        }
    }
    any.then_some(HProg { prog, effs })
}

/// text -> effect, for every misbehaving value of the program (inner ones included)
fn hostile_table(hp: &HProg) -> std::collections::HashMap<String, HEff> {
    fn texts(vals: &ValSet) -> Vec<String> {
        vals.iter()
            .filter_map(|(_, p)| match p {
                Some(Prim::Debug(o)) if o.debug.starts_with("hostile#") => Some(o.debug.clone()),
                _ => None,
            })
            .collect()
    }
    fn walk(table: &mut std::collections::HashMap<String, HEff>, vals: &ValSet, effs: &[HEff]) {
        for (t, e) in texts(vals).into_iter().zip(effs) {
            if let HEff::Loud(evs) = e {
                for ev in evs {
                    walk(table, &ev.vals, &ev.effs);
                }
            }
            table.insert(t, e.clone());
        }
    }
    let mut table = Default::default();
    for ((_, op), effs) in hp.prog.ops.iter().zip(&hp.effs) {
        if let Op::NewSpan(_, _, vals) | Op::Record(_, vals) | Op::Event(_, _, vals) = op {
            walk(&mut table, vals, effs);
        }
    }
    table
}

/// Executes a hostile program: the guest catches the panics of its own `Debug` impls at the operation
/// that rendered them; spans with misbehaving attributes are created through an explicit dispatcher
/// handle (`Span::new_with`), the others as the macros do.
pub fn exec_hprog(hp: &HProg) -> (ExecResult, Vec<u64>) {
    let sites = make_sites(&hp.prog.sites);
    let table = std::rc::Rc::new(hostile_table(hp));
    let hook_sites = sites.clone();
    let hook_table = table.clone();
    let hook: std::rc::Rc<dyn Fn(&str)> = std::rc::Rc::new(move |text: &str| match hook_table.get(text) {
        None => {}
        Some(HEff::Bomb) => std::panic::resume_unwind(Box::new("guest Debug impl panics")),
        Some(HEff::Loud(evs)) => {
            for ev in evs {
                let site = hook_sites[ev.cs];
                if site.is_enabled() {
                    let meta = site.metadata();
                    with_value_set(site, &ev.vals, |vs| match ev.pk {
                        ParentKind::Ctx => tracing::Event::dispatch(meta, vs),
                        _ => tracing::Event::child_of(None, meta, vs),
                    });
                }
            }
        }
    });
    DEBUG_HOOK.with(|h| *h.borrow_mut() = Some(hook));
    // every call site is registered up front.  tracing-core computes the cached interest of a call site
    // at its first use, from the dispatchers it can reach at that moment; a call site first used inside
    // the dispatch of another event reaches none (re-entrancy guard of `get_default`) and is cached as
    // "never" - a property of tracing-core that the model of the capture layer does not describe.
    for s in &sites {
        let _ = s.interest();
    }
    let mut r = ExecResult::default();
    let mut raws = vec![];
    for ((_, op), effs) in hp.prog.ops.iter().zip(&hp.effs) {
        match op {
            Op::NewSpan(cs, ParentKind::Ctx, vals) if !effs.is_empty() => {
                let site = sites[*cs];
                let span = if site.is_enabled() {
                    let dispatch = tracing::dispatcher::get_default(tracing::Dispatch::clone);
                    with_value_set(site, vals, |vs| tracing::Span::new_with(site.metadata(), vs, &dispatch))
                } else {
                    tracing::Span::none()
                };
                r.enabled.push(span.id().is_some());
                r.span_sites.push(*cs);
                r.handles.push(vec![span]);
            }
            _ if !effs.is_empty() => {
                let _ = catch_unwind(AssertUnwindSafe(|| exec_op(&mut r, &sites, op)));
            }
            _ => exec_op(&mut r, &sites, op),
        }
        r.ops_run += 1;
        if let Op::NewSpan(..) = op {
            let id = r.handles.last().and_then(|hs| hs.first()).and_then(tracing::Span::id);
            raws.push(id.map_or(0, |i| i.into_u64()));
        }
    }
    DEBUG_HOOK.with(|h| *h.borrow_mut() = None);
    (r, raws)
}

/// `n` generated programs, each decorated with misbehaving values; returns the next free case index
pub fn hostile_random_cases(sink: &mut Sink, o: &Opts, stream: &str, mut idx: u64, n: u64, extra_layers: bool) -> u64 {
    let cfg = GenCfg::balanced("c05h");
    for _ in 0..n {
        if sink.wants(idx) {
            let mut r = Rng::for_case(o.seed, stream, idx);
            let base = gen_prog(&mut r, &cfg);
            match gen_hostile(&mut r, &base) {
                Some(hp) => hostile_random_case(sink, idx, "random-hostile", &hp, extra_layers),
                None => sink.bump("hostile:no-place-for-a-misbehaving-value"),
            }
        }
        idx += 1;
    }
    idx
}

/// The quiet program a hostile one must be captured as (harness-side twin of `flatten` in
/// Capture/Hostile.v; used only by the self-test of the generator, never for a verdict).
pub fn flatten_hprog(hp: &HProg) -> Prog {
    let mut ops = vec![];
    for ((tid, op), effs) in hp.prog.ops.iter().zip(&hp.effs) {
        let guard = matches!(op, Op::Event(..));
        let mut bombed = false;
        'effs: for e in effs {
            match e {
                HEff::Bomb => {
                    bombed = true;
                    break 'effs;
                }
                HEff::Loud(_) if guard => {}
                HEff::Loud(evs) => {
                    for ev in evs {
                        if ev.effs.iter().any(|x| matches!(x, HEff::Bomb)) {
                            bombed = true;
                            break 'effs;
                        }
                        ops.push((*tid, Op::Event(ev.cs, ev.pk, ev.vals.clone())));
                    }
                }
            }
        }
        if !bombed {
            ops.push((*tid, op.clone()));
        }
    }
    Prog { sites: hp.prog.sites.clone(), ops }
}

pub fn hostile_selftest(seed: u64, n: u64) {
    let cfg = GenCfg::balanced("c05h");
    let (mut made, mut differ) = (0, 0);
    for i in 0..n {
        let mut r = Rng::for_case(seed, "C05-hostile-selftest", i);
        let base = gen_prog(&mut r, &cfg);
        let Some(hp) = gen_hostile(&mut r, &base) else { continue };
        made += 1;
        let storage = SharedStorage::default();
        let run = catch_unwind(AssertUnwindSafe(|| {
            tracing::subscriber::with_default(Registry::default().with(CaptureLayer::new(&storage)), || {
                let (r, raws) = exec_hprog(&hp);
                let dump = dump_shared(&storage);
                drop(r);
                (dump.map(|d| d.0), raws)
            })
        }));
        DEBUG_HOOK.with(|h| *h.borrow_mut() = None);
        let (hdump, hraws) = run.unwrap_or((None, vec![]));
        let quiet = flatten_hprog(&hp);
        let (qdump, qraws, ..) = run_capture(&quiet, &FilterSpec::Unfiltered);
        if hdump != qdump || hraws != qraws {
            differ += 1;
            if hp.prog.ops.len() <= 8 {
                eprintln!("DIFFER case {i}:");
                for ((_, op), e) in hp.prog.ops.iter().zip(&hp.effs) {
                    eprintln!("   {op:?}   {e:?}");
                }
                eprintln!(" sites kinds/levels: {:?}", hp.prog.sites.iter().map(|s| (format!("{:?}", s.kind), format!("{:?}", s.level), s.fields.len())).collect::<Vec<_>>());
                eprintln!(" hdump {:?}\n qdump {:?}\n raws {:?} {:?}", hdump, qdump, hraws, qraws);
            }
        }
    }
    eprintln!("hostile selftest: {made} programs, {differ} differ");
}

static HANGS: std::sync::atomic::AtomicUsize = std::sync::atomic::AtomicUsize::new(0);

/// A random hostile program under one capture layer that captures everything (plus whatever `wrap` puts
/// around it), on a thread of its own under a watchdog; judged by `judge_hostile`: the lock-level model of
/// the layer's callbacks, and the specification applied to the flattened program.
pub fn hostile_random_case(sink: &mut Sink, idx: u64, kind: &str, hp: &HProg, extra_layers: bool) {
    if !sink.wants(idx) {
        return;
    }
    // a guest that hangs costs the whole watchdog period (and leaks its thread): after three of them the
    // stream stops; three cases with a callback that never returned are verdict enough
    if HANGS.load(std::sync::atomic::Ordering::SeqCst) >= 3 {
        sink.bump("hostile:not-run-after-three-hangs");
        return;
    }
    let h = hp.clone();
    let (tx, rx) = std::sync::mpsc::channel();
    std::thread::spawn(move || {
        let storage = SharedStorage::default();
        let run = catch_unwind(AssertUnwindSafe(|| {
            let go = || {
                let (r, raws) = exec_hprog(&h);
                let dump = dump_shared(&storage);
                drop(r);
                (dump, raws)
            };
            if extra_layers {
                let subscriber = Registry::default()
                    .with(tracing_subscriber::layer::Identity::new())
                    .with(CaptureLayer::new(&storage))
                    .with(tracing_subscriber::layer::Identity::new());
                tracing::subscriber::with_default(subscriber, go)
            } else {
                tracing::subscriber::with_default(Registry::default().with(CaptureLayer::new(&storage)), go)
            }
        }));
        DEBUG_HOOK.with(|h| *h.borrow_mut() = None);
        let poisoned = dump_shared(&storage).is_none();
        let out = match run {
            Ok((Some((text, ns, ne)), raws)) if !poisoned => (Some(text), raws, ns + ne),
            Ok((_, raws)) => (None, raws, 0),
            Err(_) => (None, vec![], 0),
        };
        let _ = tx.send(out);
    });
    let out = rx.recv_timeout(std::time::Duration::from_secs(20)).ok();
    if out.is_none() {
        HANGS.fetch_add(1, std::sync::atomic::Ordering::SeqCst);
    }
    sink.bump(match &out {
        None => "hostile:callback-never-returned",
        Some((None, ..)) => "hostile:panic-escaped-or-storage-poisoned",
        Some(_) => "hostile:completed",
    });
    let n_bombs = hp.effs.iter().flatten().filter(|e| matches!(e, HEff::Bomb)).count();
    let n_loud = hp.effs.iter().flatten().filter(|e| matches!(e, HEff::Loud(evs) if !evs.is_empty())).count();
    sink.bump(if n_bombs > 0 && n_loud > 0 { "hostile:bombs-and-loud" } else if n_bombs > 0 { "hostile:bombs" } else if n_loud > 0 { "hostile:loud" } else { "hostile:silent-effects" });
    let (dump, raws, items) = out.unwrap_or((None, vec![], 0));
    let key = format!("hostile-random {}", chprog(hp));
    intern_begin();
    let term = format!(
        "judge_hostile {} {} {}",
        chprog(hp),
        cids(&raws),
        match &dump {
            Some(d) => format!("(Some {d})"),
            None => "None".into(),
        }
    );
    let judge = intern_wrap(&term);
    sink.case(idx, kind, &judge, &key, items > 0, || serde_json::json!({ "hostile_program": show_hprog(hp), "storage": dump }));
}

/// One capture layer that captures everything; the hostile run happens on a thread of its own under a
/// watchdog (a callback that re-enters the layer under its own lock never returns).  Both runs are
/// judged against the quiet program; the case gets the worse verdict.
fn hostile_capture_case(sink: &mut Sink, idx: u64, kind: &str, hostile: &Prog, quiet: &Prog) {
    if !sink.wants(idx) {
        return;
    }
    let filter = FilterSpec::Unfiltered;
    let h = hostile.clone();
    let (tx, rx) = std::sync::mpsc::channel();
    std::thread::spawn(move || {
        let _ = tx.send(run_capture_exec(&h, &FilterSpec::Unfiltered, exec_hostile));
    });
    let out = rx.recv_timeout(std::time::Duration::from_secs(20)).ok();
    sink.bump(match &out {
        None => "hostile:callback-never-returned",
        Some((None, ..)) => "hostile:panic-escaped-or-storage-poisoned",
        Some(_) => "hostile:completed",
    });
    let (qdump, qraws, ns, ne) = run_capture(quiet, &filter);
    let hdump = out.and_then(|o| o.0);
    let fexpr = filter.fexpr();
    let key = format!("hostile {} {}", cprog(hostile), cprog(quiet));
    intern_begin();
    let term_of = |dump: &Option<String>| {
        format!(
            "judge_capture {} {} {} {}",
            cprog(quiet),
            cids(&qraws),
            fexpr.coq(),
            match dump {
                Some(d) => format!("(Some {d})"),
                None => "None".into(),
            }
        )
    };
    let mut term = term_of(&qdump);
    if hdump != qdump {
        sink.bump("hostile:DIFFERS-from-the-quiet-program");
        term = format!("vworst ({term}) ({})", term_of(&hdump));
    }
    let judge = intern_wrap(&term);
    sink.case(idx, kind, &judge, &key, ns + ne > 0, || {
        serde_json::json!({ "hostile_program": show_prog(hostile), "captured_as": show_prog(quiet), "storage_of_the_hostile_run": hdump })
    });
}

pub fn hostile_capture_cases(sink: &mut Sink, idx: &mut u64) {
    for (name, hostile, quiet) in &hostile_scenarios() {
        hostile_capture_case(sink, *idx, &format!("hostile-{name}"), hostile, quiet);
        *idx += 1;
    }
}

/// `run_capture` with the program executed by `exec`
pub fn run_capture_exec(prog: &Prog, filter: &FilterSpec, exec: fn(&Prog) -> (ExecResult, Vec<u64>)) -> (Option<String>, Vec<u64>) {
    let storage = SharedStorage::default();
    let subscriber = Registry::default().with(filter.attach(CaptureLayer::new(&storage)));
    let run = catch_unwind(AssertUnwindSafe(|| {
        tracing::subscriber::with_default(subscriber, || {
            let (r, raws) = exec(prog);
            let dump = dump_shared(&storage);
            drop(r);
            (dump, raws)
        })
    }));
    let poisoned = dump_shared(&storage).is_none();
    match run {
        Ok((Some((text, ..)), raws)) if !poisoned => (Some(text), raws),
        Ok((_, raws)) => (None, raws),
        Err(_) => (None, vec![]),
    }
}

fn capture_case(sink: &mut Sink, idx: u64, kind: &str, prog: &Prog, filter: &FilterSpec) {
    if !sink.wants(idx) {
        return;
    }
    let fexpr = filter.fexpr();
    let key = format!("{} {}", cprog(prog), fexpr.coq());
    intern_begin();
    let (dump, raws, ns, ne) = run_capture(prog, filter);
    let term_of = |dump: &Option<String>, raws: &[u64]| {
        format!(
            "judge_capture {} {} {} {}",
            cprog(prog),
            cids(raws),
            fexpr.coq(),
            match dump {
                Some(d) => format!("(Some {d})"),
                None => "None".into(),
            }
        )
    };
    let mut term = term_of(&dump, &raws);
    // An event whose explicit parent no longer exists has no ancestor: it must be captured exactly as
    // an explicit-root event is.  The variant execution replaces `parent: None` by the id of a span the
    // Registry has closed; when its storage differs, both storages are judged and the case gets the
    // worse verdict (`vworst`, Base/Worst.v).
    if prog.ops.iter().any(|(_, op)| matches!(op, Op::Event(_, ParentKind::Root, _))) {
        let (vdump, vraws, _, _, used) = run_capture_with(prog, filter, true);
        if used > 0 {
            sink.bump_by("variant:events-with-stale-explicit-parent", used as u64);
            if vdump != dump {
                sink.bump("variant:stale-explicit-parent-DIFFERS-from-explicit-root");
                term = format!("vworst ({term}) ({})", term_of(&vdump, &vraws));
            }
        }
    }
    let judge = intern_wrap(&term);
    bump_prog(sink, prog);
    sink.bump(&format!("filter:{}", filter.kind_name()));
    sink.bump_by("capture:spans", ns as u64);
    sink.bump_by("capture:events", ne as u64);
    let total_spans = prog.ops.iter().filter(|(_, op)| matches!(op, Op::NewSpan(..))).count();
    if ns < total_spans {
        sink.bump("capture:some-span-filtered-out");
    }
    if dump.is_none() {
        sink.bump("capture:panicked-or-poisoned");
    }
    sink.case(idx, kind, &judge, &key, ns + ne > 0, || {
        serde_json::json!({ "program": show_prog(prog), "filter": format!("{filter:?}"), "raw_ids": raws, "storage": dump })
    });
}

// ---- hand-written programs ---------------------------------------------------------------------

pub fn site(kind: CallSiteKind, name: &str, target: &str, level: TracingLevel, fields: &[&str]) -> CallSiteData {
    CallSiteData {
        kind,
        name: name.to_owned().into(),
        target: target.to_owned().into(),
        level,
        module_path: Some("guest::corpus".into()),
        file: Some("src/corpus.rs".into()),
        line: Some(7),
        fields: fields.iter().map(|f| (*f).to_owned().into()).collect(),
    }
}
pub fn single(sites: Vec<CallSiteData>, ops: Vec<Op>) -> Prog {
    Prog { sites, ops: ops.into_iter().map(|op| (0, op)).collect() }
}
/// sites: 0 = INFO span `outer` {x, y}, 1 = DEBUG span `inner` {x}, 2 = TRACE span `leaf` {},
/// 3 = INFO event {message, x}, 4 = DEBUG event {message}
pub fn corpus_sites() -> Vec<CallSiteData> {
    vec![
        site(CallSiteKind::Span, "outer", "guest::c05::a", TracingLevel::Info, &["x", "y"]),
        site(CallSiteKind::Span, "inner", "guest::c05::a::b", TracingLevel::Debug, &["x"]),
        site(CallSiteKind::Span, "leaf", "guest::c05::c", TracingLevel::Trace, &[]),
        site(CallSiteKind::Event, "event src/corpus.rs:20", "guest::c05::a", TracingLevel::Info, &["message", "x"]),
        site(CallSiteKind::Event, "event src/corpus.rs:30", "guest::c05::c", TracingLevel::Debug, &["message"]),
    ]
}
fn int(v: i128) -> Option<Prim> {
    Some(Prim::Int(IWidth::W64, v))
}
fn text(s: &str) -> Option<Prim> {
    Some(Prim::Str { s: s.to_owned(), owned: false })
}

pub fn corpus() -> Vec<Prog> {
    use FollowTarget::Live;
    use Op::*;
    use ParentKind::{Ctx, Explicit, Root};
    let s = corpus_sites;
    vec![
        // fib shape: a span with a field filled in later, events inside, record override, closed
        single(
            s(),
            vec![
                NewSpan(0, Ctx, vec![(0, None), (1, int(5))]),
                Enter(0),
                Event(3, Ctx, vec![(0, text("iteration")), (1, int(1))]),
                Event(4, Ctx, vec![(0, text("debug"))]),
                Record(0, vec![(0, int(8))]),
                Record(0, vec![(1, int(6)), (0, int(9))]),
                Exit(0),
                Drop(0),
                Event(3, Root, vec![(0, text("done"))]),
            ],
        ),
        // a chain outer > inner > leaf with events at every level: a filter that removes `inner`
        // must attach `leaf` and the DEBUG event to `outer`
        single(
            s(),
            vec![
                NewSpan(0, Ctx, vec![]),
                Enter(0),
                NewSpan(1, Ctx, vec![(0, int(1))]),
                Enter(1),
                Event(3, Ctx, vec![(0, text("in inner"))]),
                NewSpan(2, Ctx, vec![]),
                Enter(2),
                Event(4, Ctx, vec![(0, text("in leaf"))]),
                Exit(2),
                Exit(1),
                Exit(0),
                Drop(2),
                Drop(1),
                Drop(0),
            ],
        ),
        // explicit parents, the parent's handles dropped before the child is used; explicit root
        // inside an entered span; event with an explicit parent
        single(
            s(),
            vec![
                NewSpan(0, Root, vec![]),
                NewSpan(1, Explicit(0), vec![]),
                Clone(0),
                Drop(0),
                Drop(0),
                Enter(1),
                NewSpan(2, Root, vec![]),
                Event(3, Explicit(1), vec![(1, int(7))]),
                Event(3, Root, vec![]),
                NewSpan(2, Explicit(1), vec![]),
                Exit(1),
                Follows(1, Live(1)),
                Follows(2, Live(1)),
                Follows(1, Live(3)),
                Drop(1),
                Drop(3),
                Drop(2),
            ],
        ),
        // re-entrant enters, exits out of order, a guard that is never dropped
        single(
            s(),
            vec![
                NewSpan(0, Ctx, vec![]),
                NewSpan(1, Ctx, vec![]),
                Enter(0),
                Enter(1),
                Enter(0),
                NewSpan(2, Ctx, vec![]),
                Event(3, Ctx, vec![]),
                Exit(0),
                Event(3, Ctx, vec![]),
                Exit(0),
                NewSpan(2, Ctx, vec![]),
                Enter(0),
                Exit(1),
                Event(4, Ctx, vec![]),
                Drop(1),
            ],
        ),
        // a parent kept open only by its child; closing the child closes both
        single(
            s(),
            vec![
                NewSpan(0, Ctx, vec![]),
                Enter(0),
                NewSpan(1, Ctx, vec![]),
                NewSpan(2, Explicit(1), vec![]),
                Exit(0),
                Drop(0),
                Drop(1),
                Event(3, Explicit(2), vec![]),
                Drop(2),
            ],
        ),
        // follows-from edges among captured and filtered-out spans, in order, repeated
        single(
            s(),
            vec![
                NewSpan(0, Ctx, vec![]),
                NewSpan(1, Ctx, vec![]),
                NewSpan(2, Ctx, vec![]),
                Follows(0, Live(1)),
                Follows(0, Live(2)),
                Follows(0, Live(0)),
                Follows(1, Live(0)),
                Follows(0, Live(2)),
                Record(1, vec![(0, text("r"))]),
                Enter(1),
                Exit(1),
            ],
        ),
        // nothing at all; only events
        single(s(), vec![]),
        single(s(), vec![Event(3, Ctx, vec![(0, text("lonely"))]), Event(4, Root, vec![])]),
    ]
}

pub fn corpus_filters() -> Vec<FilterSpec> {
    let b = Box::new;
    vec![
        FilterSpec::Unfiltered,
        FilterSpec::Level(Some(TracingLevel::Info)),
        FilterSpec::Level(Some(TracingLevel::Debug)),
        FilterSpec::Level(None),
        FilterSpec::Ast(FExpr::Not(b(FExpr::Name("inner".into())))),
        FilterSpec::Ast(FExpr::TargetPrefix("guest::c05::a".into())),
        FilterSpec::Ast(FExpr::Kind(CallSiteKind::Event)),
        FilterSpec::Ast(FExpr::Or(b(FExpr::HasField("x".into())), b(FExpr::Name("leaf".into())))),
        FilterSpec::Ast(FExpr::And(b(FExpr::Kind(CallSiteKind::Span)), b(FExpr::Not(b(FExpr::Level(TracingLevel::Info)))))),
    ]
}

// ---- small-scope exhaustive enumeration ---------------------------------------------------------

/// All well-formed programs of exactly `len` ops over the corpus sites 0 (INFO span), 1 (DEBUG span),
/// 3 (INFO event), without values.
pub fn exhaustive(len: usize) -> Vec<Prog> {
    #[derive(Clone)]
    struct St {
        handles: Vec<u32>,
        stack: Vec<usize>,
        ops: Vec<Op>,
    }
    fn next_ops(st: &St) -> Vec<Op> {
        let live: Vec<usize> = (0..st.handles.len()).filter(|k| st.handles[*k] > 0).collect();
        let mut out = vec![];
        for cs in [0usize, 1] {
            out.push(Op::NewSpan(cs, ParentKind::Ctx, vec![]));
            out.push(Op::NewSpan(cs, ParentKind::Root, vec![]));
            for k in &live {
                out.push(Op::NewSpan(cs, ParentKind::Explicit(*k), vec![]));
            }
        }
        out.push(Op::Event(3, ParentKind::Ctx, vec![]));
        for k in &live {
            out.push(Op::Event(3, ParentKind::Explicit(*k), vec![]));
            out.push(Op::Enter(*k));
            if st.stack.contains(k) {
                out.push(Op::Exit(*k));
            }
            if st.handles[*k] > 1 || !st.stack.contains(k) {
                out.push(Op::Drop(*k));
            }
        }
        // one clone and one follows-from per state keep the branching manageable
        if let Some(k) = live.first() {
            out.push(Op::Clone(*k));
            out.push(Op::Follows(*k, FollowTarget::Live(*live.last().unwrap())));
        }
        out
    }
    fn apply(st: &St, op: &Op) -> St {
        let mut st = st.clone();
        match op {
            Op::NewSpan(..) => st.handles.push(1),
            Op::Enter(k) => st.stack.push(*k),
            Op::Exit(k) => {
                let pos = st.stack.iter().rposition(|j| j == k).unwrap();
                st.stack.remove(pos);
            }
            Op::Clone(k) => st.handles[*k] += 1,
            Op::Drop(k) => st.handles[*k] -= 1,
            _ => {}
        }
        st.ops.push(op.clone());
        st
    }
    let mut frontier = vec![St { handles: vec![], stack: vec![], ops: vec![] }];
    for _ in 0..len {
        let mut next = vec![];
        for st in &frontier {
            for op in next_ops(st) {
                next.push(apply(st, &op));
            }
        }
        frontier = next;
    }
    frontier.into_iter().map(|st| single(corpus_sites(), st.ops)).collect()
}

// ---- driver --------------------------------------------------------------------------------------

pub fn run(o: &Opts) {
    if std::env::var("TT_HOSTILE_SELFTEST").is_ok() {
        hostile_selftest(o.seed, 3000);
        return;
    }
    let mut sink = Sink::new(&o.out, o.shards, "Judge.C05 Judge.Hostile", o.only.clone());
    let mut idx = 0u64;

    selftest();

    // 1. corpus: every hand-written program as a Registry trace and under every corpus filter
    for prog in &corpus() {
        registry_case(&mut sink, idx, "corpus-registry", prog, false);
        idx += 1;
        for f in &corpus_filters() {
            capture_case(&mut sink, idx, "corpus-capture", prog, f);
            idx += 1;
        }
    }

    // 2. small-scope exhaustive: all programs of length L over two span sites and one event site;
    //    Registry trace, and capture under LevelFilter::INFO (removes the DEBUG spans)
    let exh_len = if o.thorough { 4 } else { 3 };
    let info = FilterSpec::Level(Some(TracingLevel::Info));
    for prog in &exhaustive(exh_len) {
        registry_case(&mut sink, idx, "exhaustive-registry", prog, false);
        idx += 1;
        capture_case(&mut sink, idx, "exhaustive-capture", prog, &info);
        idx += 1;
    }

    // 2b. hostile renderings: values that log or panic while the layer renders them
    hostile_capture_cases(&mut sink, &mut idx);

    // 3. random programs of the shared generator
    let cfg = GenCfg::balanced("c05");
    let n_registry = if o.thorough { 30_000 } else { 500 } * o.scale;
    for _ in 0..n_registry {
        if sink.wants(idx) {
            let mut r = Rng::for_case(o.seed, "C05-registry", idx);
            let prog = gen_prog(&mut r, &cfg);
            registry_case(&mut sink, idx, "random-registry", &prog, false);
        }
        idx += 1;
    }
    // programs x filters: two filters per program
    let n_capture = if o.thorough { 60_000 } else { 700 } * o.scale;
    for _ in 0..n_capture {
        let mut r = Rng::for_case(o.seed, "C05-capture", idx);
        let prog = gen_prog(&mut r, &cfg);
        for _ in 0..2 {
            let filter = gen_filter(&mut r, &prog);
            capture_case(&mut sink, idx, "random-capture", &prog, &filter);
            idx += 1;
        }
    }

    // 4. random hostile programs (values that emit events or panic while the layer renders them)
    idx = hostile_random_cases(&mut sink, o, "C05-hostile", idx, if o.thorough { 20_000 } else { 300 } * o.scale, false);
    let _ = idx;

    sink.finish(
        "one case = one guest program executed with the real tracing API, either under Registry + a recording layer \
         (callback trace with the answers of ctx.span / span_scope / event_scope / lookup_current, against the Registry model) or \
         under Registry + CaptureLayer with a filter (storage dumped through the public API, against the layer model and against the \
         reference specification). corpus x corpus filters; all programs of length L over 2 span sites and 1 event site; random \
         programs of the shared generator x random filters (unfiltered, real LevelFilter, metadata predicates over level / target \
         prefix / name / kind / field presence with and / or / not). non-trivial = the trace has at least two callbacks resp. the \
         storage holds at least one span or event; distinct = distinct canonical program (and filter) text",
        serde_json::json!({ "exhaustive_len": exh_len, "call_sites_built": sites_built() }),
    );
}
